// C01 — every SM83 instruction has its documented effect on registers, flags and memory.
//
// Single-instruction monitor: the real CPU (dispatch tables, micro-op lists, helpers, Mapper)
// executes one instruction from a prepared state; an independent bit-field-decoded reference
// (internal/ref) predicts the complete post-state; registers, flags, PC, SP, IME/halt/stop
// state and memory (work/high RAM compared in full on every case, the whole 64 KiB address
// space on sampled cases) must match, and nothing else may change.
//
// Lock-step monitor: the same oracle follows generated programs instruction by instruction.
package main

import (
	"bufio"
	"fmt"
	"os"
	"strconv"
	"strings"

	"verif/internal/lockstep"
	"verif/internal/prog"
	"verif/internal/ref"
	"verif/internal/rig"
	"verif/internal/romrun"
)

type sim struct {
	c       *rig.Ctx
	m       *rig.Machine
	shadowW [0x2000]byte
	shadowH [0x8f]byte
	rd      func(uint16) uint8
	n       int64
}

func newSim(c *rig.Ctx) *sim {
	// MBC1 + RAM (8 KiB), RAM enabled, LCD off, interrupts quiet
	rom := rig.BlankROM(0x03, 0, 2)
	m := rig.MustNew(rom, rig.Opts{})
	m.Quiet()
	m.Mem.Write(0x0000, 0x0a)
	s := &sim{c: c, m: m}
	s.rd = func(a uint16) uint8 { return lockstep.Peek(m, a) }
	s.shadowW = *m.Mem.XWRAM()
	s.shadowH = *m.Mem.XHRAM()
	return s
}

func (s *sim) poke(addr uint16, v uint8) {
	s.m.Mem.Write(addr, v)
	switch {
	case addr >= 0xc000 && addr < 0xe000:
		s.shadowW[addr-0xc000] = v
	case addr >= 0xe000 && addr < 0xfe00:
		s.shadowW[addr-0xe000] = v
	case addr >= 0xff80 && addr < 0xffff:
		s.shadowH[addr-0xff80] = v
	}
}

// safe reports whether a data access at addr stays inside plain memory the harness owns.
func safe(addr uint16) bool {
	switch {
	case addr >= 0x8000 && addr < 0xfe00:
		return true
	case addr >= 0xff80 && addr < 0xffff:
		return true
	}
	// hardware registers that are plain eight-bit latches with the LCD off and the timer
	// stopped (so FF00+n / FF00+C addressing below FF80 is exercised too)
	switch addr {
	case 0xff06, 0xff42, 0xff43, 0xff45, 0xff47, 0xff48, 0xff49, 0xff4a, 0xff4b:
		return true
	case 0xff04: // DIV: reads the divider's high byte, any store clears it (checked by count)
		return true
	}
	return false
}

func toX(r ref.Regs) (x struct {
	A, B, C, D, E, F, H, L uint8
	SP, PC                 uint16
}) {
	x.A, x.B, x.C, x.D, x.E, x.F, x.H, x.L, x.SP, x.PC = r.A, r.B, r.C, r.D, r.E, r.F, r.H, r.L, r.SP, r.PC
	return
}

func (s *sim) sweep() *[0x10000]byte {
	img := new([0x10000]byte)
	for a := 0; a < 0x10000; a++ {
		img[a] = lockstep.Peek(s.m, uint16(a))
	}
	return img
}

func opName(res *ref.Result) string {
	if res.CB {
		return fmt.Sprintf("opCB%02X", res.Op)
	}
	return fmt.Sprintf("op%02X", res.Op)
}

// run executes the instruction at regs.PC (code and operands already poked) and compares.
// Returns the prediction (nil if the opcode is undefined and nothing was executed).
func (s *sim) run(regs ref.Regs, full bool, what string) *ref.Result {
	m := s.m
	// the divider is the witness for stores that do not change a byte: it is set to a known
	// non-zero count first, and any store to DIV (FF04) clears it
	m.Timer.XSetCounter(0x1234)
	pred := ref.Exec(regs, s.rd, false)
	if pred.Undefined {
		return nil
	}
	var img0 *[0x10000]byte
	if full {
		img0 = s.sweep()
	}
	m.CPU.XResetToBoundary()
	m.CPU.XSetRegs(toX(regs))
	ime0 := m.IRQ.Enabled()
	cyc := 0
	for {
		m.CPU.ExecuteMachineCycle()
		cyc++
		if m.CPU.XAtBoundary() || cyc > 8 {
			break
		}
	}
	got := lockstep.Regs(m)
	name := opName(&pred)
	s.n++
	if pred.Stop && got.PC == pred.Regs.PC+1 {
		// STOP is documented as a 1- or 2-byte instruction; both are accepted
		got.PC--
	}
	if got != pred.Regs {
		s.c.Violate(name+"-registers", fmt.Sprintf("%s %s: before %+v, after %+v, documented %+v", name, what, regs, got, pred.Regs),
			map[string]any{"before": regs, "after": got, "documented": pred.Regs, "opcode": name})
	}
	if got.F&0x0f != 0 {
		s.c.Violate("flag-low-nibble", fmt.Sprintf("F=%02X after %s", got.F, name), nil)
	}
	wroteDIV := false
	for _, a := range pred.Acc {
		if a.Write && a.Addr == 0xff04 {
			wroteDIV = true
		}
	}
	switch cnt := m.Timer.XCounter(); {
	case wroteDIV && cnt != 0:
		s.c.Violate(name+"-store-to-div-missing", fmt.Sprintf("%s %s: the instruction stores to FF04 (DIV), yet the divider was not cleared (count %04X)", name, what, cnt), nil)
	case !wroteDIV && cnt != 0x1234:
		s.c.Violate(name+"-store-to-div-spurious", fmt.Sprintf("%s %s: the instruction does not store to FF04, yet the divider went from 1234 to %04X", name, what, cnt), nil)
	}
	if wroteDIV {
		s.c.Count("stores_witnessed_by_the_divider", 1)
	}
	for _, a := range pred.Acc {
		if !a.Write || a.Addr == 0xff04 {
			continue
		}
		switch {
		case a.Addr >= 0xc000 && a.Addr < 0xe000:
			s.shadowW[a.Addr-0xc000] = a.Val
		case a.Addr >= 0xe000 && a.Addr < 0xfe00:
			s.shadowW[a.Addr-0xe000] = a.Val
		case a.Addr >= 0xff80 && a.Addr < 0xffff:
			s.shadowH[a.Addr-0xff80] = a.Val
		default:
			if v := lockstep.Peek(m, a.Addr); v != a.Val && safe(a.Addr) {
				last := a.Val
				for _, b := range pred.Acc {
					if b.Write && b.Addr == a.Addr {
						last = b.Val
					}
				}
				if v != last {
					s.c.Violate(name+"-memory", fmt.Sprintf("%s %s: [%04X]=%02X, documented %02X", name, what, a.Addr, v, last), nil)
				}
			}
		}
	}
	if s.shadowW != *m.Mem.XWRAM() || s.shadowH != *m.Mem.XHRAM() {
		s.c.Violate(name+"-frame-condition", fmt.Sprintf("%s %s (regs %+v): work/high RAM differs from the documented write set %v", name, what, regs, pred.Writes()), nil)
		s.shadowW = *m.Mem.XWRAM()
		s.shadowH = *m.Mem.XHRAM()
	}
	// interrupt master enable / halt / stop state
	switch pred.IME {
	case ref.IMENone:
		if m.IRQ.Enabled() != ime0 {
			s.c.Violate(name+"-ime", fmt.Sprintf("%s changed the master enable %v -> %v", name, ime0, m.IRQ.Enabled()), nil)
		}
	case ref.IMEDI:
		if m.IRQ.Enabled() {
			s.c.Violate(name+"-ime", "DI left the master enable set", nil)
		}
	case ref.IMERETI:
		if !m.IRQ.Enabled() {
			s.c.Violate(name+"-ime", "RETI left the master enable clear", nil)
		}
	}
	if pred.Halt != (m.CPU.XHalted() || m.CPU.XHaltBug()) && !pred.Stop {
		s.c.Violate(name+"-halt-state", fmt.Sprintf("%s: halted/haltbug=%v/%v, documented halt=%v", name, m.CPU.XHalted(), m.CPU.XHaltBug(), pred.Halt), nil)
	}
	if pred.Stop != m.CPU.XStopped() {
		s.c.Violate(name+"-stop-state", fmt.Sprintf("%s: stopped=%v", name, m.CPU.XStopped()), nil)
	}
	if full {
		img1 := s.sweep()
		exp := *img0
		for _, a := range pred.Acc {
			if a.Write {
				exp[a.Addr] = a.Val
				if a.Addr == 0xff04 {
					exp[a.Addr] = 0x00 // a store to DIV clears the divider, whatever the value
				}
				if a.Addr >= 0xc000 && a.Addr < 0xde00 {
					exp[a.Addr+0x2000] = a.Val
				}
				if a.Addr >= 0xe000 && a.Addr < 0xfe00 {
					exp[a.Addr-0x2000] = a.Val
				}
			}
		}
		for a := 0; a < 0x10000; a++ {
			if img1[a] != exp[a] {
				s.c.Violate(name+"-frame-condition-64k", fmt.Sprintf("%s %s: [%04X] %02X -> %02X outside the documented write set", name, what, a, img0[a], img1[a]), nil)
				break
			}
		}
		s.c.Count("full_64k_sweeps", 1)
	}
	return &pred
}

var codeSites = []uint16{0xc000, 0xc800, 0xd123, 0xdffd, 0xdffe, 0xdfff, 0xe010, 0xfdf0, 0xff80, 0xffa0, 0xfff0, 0x8000, 0x9ffc, 0xa000, 0xbff0}

// place writes code at pc.
func (s *sim) place(pc uint16, code ...byte) {
	for i, b := range code {
		s.poke(pc+uint16(i), b)
	}
}

func randRegs(r *rig.Rng) ref.Regs {
	v := r.U64()
	w := r.U64()
	return ref.Regs{A: uint8(v), F: uint8(v>>8) & 0xf0, B: uint8(v >> 16), C: uint8(v >> 24), D: uint8(v >> 32), E: uint8(v >> 40),
		H: uint8(v >> 48), L: uint8(v >> 56), SP: uint16(w), PC: uint16(w >> 16)}
}

func safeAddr(r *rig.Rng) uint16 {
	switch r.Intn(12) {
	case 0:
		return r.Pick16([]uint16{0xc000, 0xc001, 0xdffe, 0xdfff, 0xe000, 0xe001, 0xfdfe, 0xfdff, 0xff80, 0xff81, 0xfffd, 0xfffe, 0x8000, 0x9fff, 0xa000, 0xbfff, 0xc0ff, 0xc100})
	case 1, 2, 3:
		return 0xc000 + uint16(r.Intn(0x2000))
	case 4:
		return 0xe000 + uint16(r.Intn(0x1e00))
	case 5, 6:
		return 0xff80 + uint16(r.Intn(0x7f))
	case 7, 8:
		return 0x8000 + uint16(r.Intn(0x2000))
	case 9:
		return 0xa000 + uint16(r.Intn(0x2000))
	case 10:
		if r.Chance(1, 2) {
			return 0xff04 // the divider as the addressed byte
		}
	}
	return 0xc000 + uint16(r.Intn(0x2000))
}

// genCase builds registers/immediates for opcode bytes such that every data access of the
// instruction stays in plain memory. Returns regs (PC set) and the full code bytes.
func (s *sim) genCase(r *rig.Rng, op []byte, fl uint8) (ref.Regs, []byte, bool) {
	for try := 0; try < 40; try++ {
		regs := randRegs(r)
		regs.F = fl
		regs.PC = codeSites[r.Intn(len(codeSites))]
		code := append([]byte{}, op...)
		n := ref.Length(op[0])
		if op[0] == 0xcb {
			n = 2
		}
		for len(code) < n {
			code = append(code, r.U8())
		}
		if try > 0 {
			// steer pointers and immediates into plain memory
			regs.SetBC(safeAddr(r))
			regs.SetDE(safeAddr(r))
			regs.SetHL(safeAddr(r))
			regs.SP = safeAddr(r)
			if regs.SP < 0x8004 || (regs.SP >= 0xfdfc && regs.SP < 0xff84) {
				regs.SP = 0xd000 + uint16(r.Intn(0x800))
			}
			if try > 1 {
				regs.C = 0x80 + uint8(r.Intn(0x7f))
			}
			if n == 3 {
				a := safeAddr(r)
				if a == 0xfffe || a == 0xfdff {
					a--
				}
				code[1], code[2] = uint8(a), uint8(a>>8)
			}
			if n == 2 && (op[0] == 0xe0 || op[0] == 0xf0) {
				code[1] = 0x80 + uint8(r.Intn(0x7f))
				if r.Chance(1, 3) {
					code[1] = r.Pick8([]uint8{0x06, 0x42, 0x43, 0x45, 0x47, 0x48, 0x49, 0x4a, 0x4b, 0x04, 0x04})
				}
			}
			if try > 1 && (op[0] == 0xe2 || op[0] == 0xf2) && r.Chance(1, 3) {
				regs.C = r.Pick8([]uint8{0x06, 0x42, 0x43, 0x45, 0x47, 0x48, 0x49, 0x4a, 0x4b, 0x04, 0x04})
			}
		}
		mem := func(a uint16) uint8 {
			d := a - regs.PC
			if int(d) < len(code) {
				return code[d]
			}
			return 0
		}
		pred := ref.Exec(regs, mem, false)
		ok := true
		for _, a := range pred.Acc {
			if !safe(a.Addr) {
				ok = false
			}
			// accesses must not overlap the code bytes (self-modifying cases are legal but
			// make "what was the operand" ambiguous for the report)
			if d := a.Addr - regs.PC; int(d) < len(code) {
				ok = false
			}
			if a.Addr >= 0xe000 && a.Addr < 0xfe00 {
				if d := a.Addr - 0x2000 - regs.PC; int(d) < len(code) {
					ok = false
				}
			}
			if a.Addr >= 0xc000 && a.Addr < 0xde00 {
				if d := a.Addr + 0x2000 - regs.PC; int(d) < len(code) {
					ok = false
				}
			}
		}
		if ok {
			return regs, code, true
		}
	}
	return ref.Regs{}, nil, false
}

func (s *sim) fillOperands(r *rig.Rng, regs ref.Regs, code []byte) {
	mem := func(a uint16) uint8 {
		d := a - regs.PC
		if int(d) < len(code) {
			return code[d]
		}
		return 0
	}
	pred := ref.Exec(regs, mem, false)
	for _, a := range pred.Acc {
		if !a.Write {
			s.poke(a.Addr, r.U8())
		} else if r.Chance(1, 2) {
			s.poke(a.Addr, r.U8())
		}
	}
}

// ---------------------------------------------------------------------------------------------

func run(c *rig.Ctx) {
	c.Require("alu8_cases", "cb_cases", "incdec8_cases", "daa_cases", "incdec16_cases", "addsp_cases", "addhl_cases",
		"generic_cases", "popaf_cases", "ime_cases", "full_64k_sweeps", "lockstep_instructions")
	s := newSim(c)

	// (a) 8-bit ALU: A x operand x carry-in, every opcode of the class, complete.
	var aluOps []byte
	for op := 0x80; op <= 0xbf; op++ {
		aluOps = append(aluOps, byte(op))
	}
	aluOps = append(aluOps, 0xc6, 0xce, 0xd6, 0xde, 0xe6, 0xee, 0xf6, 0xfe)
	c.Part("alu8", int64(len(aluOps))*4, func(i int64, r *rig.Rng) {
		op := aluOps[i/4]
		quarter := int(i % 4) // A range split in four for sharding
		z := op & 7
		imm := op >= 0xc0
		pc := codeSites[int(i)%len(codeSites)]
		hl := []uint16{0xc123, 0xff90, 0xe456, 0x8123, 0xa456, 0xdfff}[int(i/4)%6]
		for a := quarter * 64; a < quarter*64+64; a++ {
			for v := 0; v < 256; v++ {
				for cin := 0; cin < 2; cin++ {
					regs := randRegs(r)
					regs.PC = pc
					regs.A = uint8(a)
					regs.F = regs.F&0xe0 | uint8(cin)<<4
					switch {
					case imm:
						s.place(pc, op, uint8(v))
					case z == 6:
						regs.SetHL(hl)
						s.place(pc, op)
						s.poke(hl, uint8(v))
					case z == 7:
						if v != a {
							continue
						}
						s.place(pc, op)
					default:
						s.place(pc, op)
						switch z {
						case 0:
							regs.B = uint8(v)
						case 1:
							regs.C = uint8(v)
						case 2:
							regs.D = uint8(v)
						case 3:
							regs.E = uint8(v)
						case 4:
							regs.H = uint8(v)
						case 5:
							regs.L = uint8(v)
						}
					}
					s.run(regs, (a*512+v*2+cin)%4096 == 77, "alu8")
					c.Exact(1)
					c.Count("alu8_cases", 1)
				}
			}
		}
		if quarter == 0 {
			c.Sample(map[string]any{"class": "alu8", "opcode": fmt.Sprintf("%02X", op), "enumerated": "A x operand x carry-in (131072 cases, N/H/Z and other registers random)"})
		}
	})
	c.MarkExhaustive("8-bit ALU A,r/(HL)/d8: A x operand x carry-in for all 72 opcodes")

	// (b) INC/DEC r and (HL): all values x 16 flag nibbles
	c.Part("incdec8", 16, func(i int64, r *rig.Rng) {
		y := uint8(i / 2)
		op := y<<3 | 4 | uint8(i&1)
		pc := codeSites[int(i)%len(codeSites)]
		s.place(pc, op)
		for v := 0; v < 256; v++ {
			for fl := 0; fl < 16; fl++ {
				regs := randRegs(r)
				regs.PC = pc
				regs.F = uint8(fl) << 4
				if y == 6 {
					hl := safeAddr(r)
					for hl-pc < 2 || hl-0x2000-pc < 2 || hl+0x2000-pc < 2 {
						hl = safeAddr(r)
					}
					regs.SetHL(hl)
					s.poke(hl, uint8(v))
				} else {
					setR8(&regs, y, uint8(v))
				}
				s.run(regs, v == 0x0f && fl == 3, "incdec8")
				c.Exact(1)
				c.Count("incdec8_cases", 1)
			}
		}
	})
	c.MarkExhaustive("INC/DEC r/(HL): value x flag nibble")

	// (c) CB: every opcode x operand value x carry-in (other flags random)
	c.Part("cb", 256, func(i int64, r *rig.Rng) {
		cb := uint8(i)
		z := cb & 7
		pc := codeSites[int(i)%len(codeSites)]
		s.place(pc, 0xcb, cb)
		for v := 0; v < 256; v++ {
			for fl := 0; fl < 4; fl++ {
				regs := randRegs(r)
				regs.PC = pc
				regs.F = regs.F&0xa0 | uint8(fl&1)<<4 | uint8(fl&2)<<5
				if z == 6 {
					hl := safeAddr(r)
					for hl-pc < 3 || hl-0x2000-pc < 3 || hl+0x2000-pc < 3 {
						hl = safeAddr(r)
					}
					regs.SetHL(hl)
					s.poke(hl, uint8(v))
				} else {
					setR8(&regs, z, uint8(v))
				}
				s.run(regs, v == 0x80 && fl == 1, "cb")
				c.Exact(1)
				c.Count("cb_cases", 1)
			}
		}
	})
	c.MarkExhaustive("CB-prefixed: opcode x operand value x carry-in")

	// (d) DAA: all A x all 16 flag nibbles, plus the repository's daa.csv
	c.Part("daa", 1, func(i int64, r *rig.Rng) {
		pc := uint16(0xc300)
		s.place(pc, 0x27)
		for a := 0; a < 256; a++ {
			for fl := 0; fl < 16; fl++ {
				regs := randRegs(r)
				regs.PC, regs.A, regs.F = pc, uint8(a), uint8(fl)<<4
				s.run(regs, false, "daa")
				c.Exact(1)
				c.Count("daa_cases", 1)
			}
		}
		rows := 0
		if f, err := os.Open("/repo/daa.csv"); err == nil {
			sc := bufio.NewScanner(f)
			for sc.Scan() {
				p := strings.Split(strings.TrimSpace(sc.Text()), ",")
				if len(p) != 4 {
					continue
				}
				var v [4]uint8
				ok := true
				for k := range p {
					x, err := strconv.ParseUint(strings.TrimPrefix(p[k], "0x"), 16, 8)
					if err != nil {
						ok = false
					}
					v[k] = uint8(x)
				}
				if !ok {
					continue
				}
				rows++
				regs := ref.Regs{A: v[0], F: v[1], PC: pc, SP: 0xd000}
				s.m.CPU.XResetToBoundary()
				s.m.CPU.XSetRegs(toX(regs))
				s.m.CPU.ExecuteMachineCycle()
				got := lockstep.Regs(s.m)
				if got.A != v[2] || got.F != v[3] {
					c.Violate("daa-csv", fmt.Sprintf("DAA A=%02X F=%02X -> A=%02X F=%02X, daa.csv says A=%02X F=%02X", v[0], v[1], got.A, got.F, v[2], v[3]), nil)
				}
				pr := ref.Exec(regs, s.rd, false)
				if pr.Regs.A != v[2] || pr.Regs.F != v[3] {
					c.Note("reference DAA disagrees with daa.csv at A=%02X F=%02X (reference %02X/%02X, csv %02X/%02X)", v[0], v[1], pr.Regs.A, pr.Regs.F, v[2], v[3])
					c.Count("reference_vs_csv_disagreements", 1)
				}
				c.Eval(1)
			}
			f.Close()
		}
		c.Count("daa_csv_rows", int64(rows))
	})
	c.MarkExhaustive("DAA: A x flag nibble")

	// (e) accumulator rotates, CPL, SCF, CCF: all A x 16 flag nibbles
	c.Part("accflag", 7, func(i int64, r *rig.Rng) {
		op := []byte{0x07, 0x0f, 0x17, 0x1f, 0x2f, 0x37, 0x3f}[i]
		pc := codeSites[int(i)%len(codeSites)]
		s.place(pc, op)
		for a := 0; a < 256; a++ {
			for fl := 0; fl < 16; fl++ {
				regs := randRegs(r)
				regs.PC, regs.A, regs.F = pc, uint8(a), uint8(fl)<<4
				s.run(regs, false, "accflag")
				c.Exact(1)
			}
		}
	})

	// (f) 16-bit INC/DEC: all 65 536 values
	c.Part("incdec16", 8*4, func(i int64, r *rig.Rng) {
		op := uint8(i/4)<<3 | 3
		pc := uint16(0xff90)
		s.place(pc, op)
		q := int(i % 4)
		for v := q * 0x4000; v < (q+1)*0x4000; v++ {
			regs := randRegs(r)
			regs.PC = pc
			switch op >> 4 {
			case 0:
				regs.SetBC(uint16(v))
			case 1:
				regs.SetDE(uint16(v))
			case 2:
				regs.SetHL(uint16(v))
			case 3:
				regs.SP = uint16(v)
			}
			s.run(regs, v&0xfff == 0x123, "incdec16")
			c.Exact(1)
			c.Count("incdec16_cases", 1)
		}
	})
	c.MarkExhaustive("INC/DEC rr: all 65536 values")

	// (g) ADD SP,e and LD HL,SP+e: all 2^24 (SP x e), both tiers
	c.Part("addsp", 2*256, func(i int64, r *rig.Rng) {
		op := []byte{0xe8, 0xf8}[i/256]
		ev := uint8(i)
		pc := uint16(0xc000)
		s.place(pc, op, ev)
		base := randRegs(r)
		for sp := 0; sp < 0x10000; sp++ {
			regs := base
			regs.PC, regs.SP = pc, uint16(sp)
			regs.F = uint8(sp*7) & 0xf0
			s.run(regs, false, "addsp")
		}
		c.Exact(0x10000)
		c.Count("addsp_cases", 0x10000)
	})
	c.MarkExhaustive("ADD SP,e / LD HL,SP+e: SP x e")

	// (h) ADD HL,rr: every nibble-boundary pair +-1, plus random
	c.Part("addhl", 4, func(i int64, r *rig.Rng) {
		op := uint8(i)<<4 | 9
		pc := uint16(0xd800)
		s.place(pc, op)
		var edge []uint16
		for _, b := range []int{0x0000, 0x000f, 0x0010, 0x00ff, 0x0100, 0x0fff, 0x1000, 0x7fff, 0x8000, 0xf000, 0xff00, 0xfff0, 0xffff} {
			for d := -1; d <= 1; d++ {
				edge = append(edge, uint16(b+d))
			}
		}
		one := func(hl, v uint16) {
			regs := randRegs(r)
			regs.PC = pc
			regs.SetHL(hl)
			switch i {
			case 0:
				regs.SetBC(v)
			case 1:
				regs.SetDE(v)
			case 2:
				// ADD HL,HL: operand is HL itself
			case 3:
				regs.SP = v
			}
			s.run(regs, false, "addhl")
			c.Case(rig.Hash(uint64(op), uint64(regs.HL()), uint64(v), uint64(regs.F)))
			c.Count("addhl_cases", 1)
		}
		for _, a := range edge {
			for _, b := range edge {
				one(a, b)
			}
		}
		n := c.N(50_000, 1_000_000)
		for k := int64(0); k < n; k++ {
			one(r.U16(), r.U16())
		}
	})

	// (h2) relative jumps: every displacement byte x every flag nibble x several code sites
	// (including sites where the target wraps through 0000/FFFF or crosses a region boundary)
	c.Part("jr", 5*256, func(i int64, r *rig.Rng) {
		op := []byte{0x18, 0x20, 0x28, 0x30, 0x38}[i/256]
		disp := uint8(i)
		for fl := 0; fl < 16; fl++ {
			for _, pc := range []uint16{0xc000, 0xc07e, 0xdffd, 0xff80, 0xffc0, 0xe010, 0x8001} {
				regs := randRegs(r)
				regs.PC, regs.F = pc, uint8(fl)<<4
				s.place(pc, op, disp)
				s.run(regs, false, "jr")
				c.Exact(1)
				c.Count("jr_cases", 1)
			}
		}
	})
	c.MarkExhaustive("JR / JR cc: every displacement x flag nibble")

	// (i) everything else: every defined opcode x 16 flag nibbles x random operands/addresses
	var generic [][]byte
	for op := 0; op < 256; op++ {
		if ref.IsUndefined(uint8(op)) || op == 0xcb || op == 0x76 || op == 0x10 || op == 0xf3 || op == 0xfb || op == 0xd9 {
			continue
		}
		generic = append(generic, []byte{uint8(op)})
	}
	per := c.N(24, 600)
	c.Part("generic", int64(len(generic)), func(i int64, r *rig.Rng) {
		op := generic[i]
		for fl := 0; fl < 16; fl++ {
			for k := int64(0); k < per; k++ {
				regs, code, ok := s.genCase(r, op, uint8(fl)<<4)
				if !ok {
					c.Count("generic_unplaceable", 1)
					continue
				}
				s.place(regs.PC, code...)
				s.fillOperands(r, regs, code)
				full := k == 0 && (fl == 0 || fl == 15)
				pred := s.run(regs, full, "generic")
				if pred != nil {
					h := rig.NewHasher()
					h.U(uint64(op[0]))
					h.U(uint64(regs.A)<<56 | uint64(regs.F)<<48 | uint64(regs.B)<<40 | uint64(regs.C)<<32 | uint64(regs.D)<<24 | uint64(regs.E)<<16 | uint64(regs.H)<<8 | uint64(regs.L))
					h.U(uint64(regs.SP)<<16 | uint64(regs.PC))
					h.B(code)
					c.Case(h.Sum())
					c.Count("generic_cases", 1)
					if pred.Cond {
						if pred.Taken {
							c.Count("cond_taken", 1)
						} else {
							c.Count("cond_not_taken", 1)
						}
					}
				}
			}
		}
		if i%40 == 0 {
			c.Sample(map[string]any{"class": "generic", "opcode": fmt.Sprintf("%02X", op[0]), "cases": 16 * per})
		}
	})

	// (j) POP AF: all 256 low bytes x 256 high bytes (random registers)
	c.Part("popaf", 16, func(i int64, r *rig.Rng) {
		pc := uint16(0xc010)
		s.place(pc, 0xf1)
		for lo := 0; lo < 256; lo++ {
			for k := 0; k < 16; k++ {
				regs := randRegs(r)
				regs.PC = pc
				regs.SP = []uint16{0xd000, 0xdffe, 0xff80, 0xfffc, 0xe100, 0xa000, 0x9ffe, 0xcfff}[(int(i)+k)%8]
				s.poke(regs.SP, uint8(lo))
				s.poke(regs.SP+1, uint8(int(i)*16+k))
				s.run(regs, false, "popaf")
				c.Exact(1)
				c.Count("popaf_cases", 1)
			}
		}
	})
	c.MarkExhaustive("POP AF: all (F byte, A byte) stack contents")

	// (k) EI / DI / RETI / HALT / STOP state effects from both IME values
	c.Part("ime", 64, func(i int64, r *rig.Rng) {
		m := s.m
		for _, op := range []byte{0xf3, 0xfb, 0xd9, 0x76, 0x10} {
			for ime := 0; ime < 2; ime++ {
				regs := randRegs(r)
				regs.PC = codeSites[r.Intn(4)]
				regs.SP = 0xd000 + uint16(r.Intn(0x400))*2
				ret := uint16(0xc900 + r.Intn(0x100))
				s.place(regs.PC, op, 0x00, 0x00)
				s.poke(regs.SP, uint8(ret))
				s.poke(regs.SP+1, uint8(ret>>8))
				s.place(ret, 0x00, 0x00)
				m.Mem.Write(0xffff, 0)
				m.Mem.Write(0xff0f, 0)
				if ime == 1 {
					m.IRQ.Enable()
				} else {
					m.IRQ.Disable()
				}
				pred := s.run(regs, false, "ime")
				c.Case(rig.Hash(uint64(op), uint64(ime), uint64(regs.PC), uint64(regs.SP)))
				c.Count("ime_cases", 1)
				if op == 0xfb {
					// EI: one more instruction (NOP) must have run before the enable is visible
					m.CPU.ExecuteMachineCycle()
					if !m.IRQ.Enabled() {
						c.Violate("opFB-ime", "master enable not set after EI + one instruction", nil)
					}
				}
				if op == 0x10 && pred != nil {
					m.CPU.XSetStopped(false)
				}
				m.CPU.XResetToBoundary()
				m.IRQ.Disable()
			}
		}
	})

	// Lock-step: the same oracle on generated programs (all instruction classes interleaved).
	nprog := c.N(400, 8000)
	var seen [512]int64
	c.Part("lockstep", nprog, func(i int64, r *rig.Rng) {
		p := prog.Generate(r, prog.Options{Interrupts: i%3 == 0, AllOpcodes: true})
		if i%7 == 6 {
			p = prog.LowAreaRemap(r) // code in 0000-3FFF that remaps 0000-3FFF under itself
			c.Count("lockstep_low_area_remap_programs", 1)
		}
		// one program in five runs with the CPU trace option on
		popts := rig.Opts{}
		if i%5 == 3 {
			popts.DebugCPU = true
			defer rig.QuietStdout()()
			c.Count("programs_with_cpu_trace", 1)
		}
		m := rig.MustNew(p.ROM, popts)
		f := lockstep.New(m)
		f.MemEvery = 16
		f.Violate = func(prop, class, msg string) {
			if prop == "C01" {
				c.Violate("lockstep-"+class, msg, map[string]any{"program": p.Describe()})
			}
		}
		if i%2 == 1 {
			// key events at random machine cycles: they are no business of the CPU's
			_, keys := f.RunCyclesWithKeys(int(c.N(6000, 20000)), r, 250)
			c.Count("key_events_during_programs", int64(keys))
		} else {
			f.RunCycles(int(c.N(6000, 20000)))
		}
		c.Count("lockstep_instructions", f.Instrs)
		c.Count("lockstep_partial", f.Partials)
		c.Count("lockstep_memchecks", f.MemChecks)
		c.Eval(f.Instrs)
		c.DistinctOnly(p.Hash)
		for k := range seen {
			seen[k] += f.OpSeen[k]
		}
		if i < 2 {
			c.Sample(map[string]any{"class": "lockstep", "program": p.Describe(), "instructions": f.Instrs, "ended": f.Ended})
		}
	})
	for k, n := range seen {
		if n > 0 {
			c.Count(fmt.Sprintf("lsop_%03X", k), n)
		}
	}

	// Lock-step on blargg's cpu_instrs ROMs (programs neither the repository's author nor the
	// harness wrote): the monitor must stay silent and the ROMs must keep passing.
	sel := []string{"cpu_instrs/individual/01", "cpu_instrs/individual/03", "cpu_instrs/individual/06", "cpu_instrs/individual/09", "instr/daa", "bits/reg_f"}
	if c.Thorough() {
		sel = []string{"cpu_instrs/individual/", "cpu_instrs/cpu_instrs.gb", "instr/daa", "bits/reg_f", "bits/mem_oam"}
	}
	romrun.FollowROMs(c, "roms", romrun.Select(sel...), romrun.FollowOpts{Props: []string{"C01"}, Verdict: true, MemEvery: 64})
	traceTwin(c)
}

// finish runs in the parent: union of the opcodes retired under the lock-step monitor.
func finish(c *rig.Ctx) {
	ops := c.FoldCounters("lsop_")
	c.Count("opcodes_covered_lockstep", int64(len(ops)))
	var missing []string
	for k := 0; k < 512; k++ {
		if k < 256 && (ref.IsUndefined(uint8(k)) || k == 0xcb || k == 0x10) {
			continue
		}
		if _, ok := ops[fmt.Sprintf("%03X", k)]; !ok {
			missing = append(missing, fmt.Sprintf("%03X", k))
		}
	}
	c.Count("opcodes_missing_lockstep", int64(len(missing)))
	if len(missing) > 0 {
		c.Note("opcodes never retired under the lock-step monitor in this run: %v", missing)
	}
}

func setR8(r *ref.Regs, z uint8, v uint8) {
	switch z {
	case 0:
		r.B = v
	case 1:
		r.C = v
	case 2:
		r.D = v
	case 3:
		r.E = v
	case 4:
		r.H = v
	case 5:
		r.L = v
	case 7:
		r.A = v
	}
}

func main() {
	rig.Main(rig.Spec{
		ID:     "C01",
		Run:    run,
		Finish: finish,
		Rule: "single-instruction cases: complete enumerations (8-bit ALU A x operand x carry-in for all 72 opcodes; INC/DEC r; all 256 CB opcodes x value x carry; DAA; " +
			"INC/DEC rr all values; ADD SP,e / LD HL,SP+e all 2^24; POP AF all bytes) counted exactly, plus boundary-structured and random cases for ADD HL,rr and for every other " +
			"defined opcode x 16 flag nibbles x random operands/addresses (distinct by opcode+register file+operand bytes); lock-step cases are retired instructions of generated programs (distinct programs counted)",
		Assumptions: []string{"the bit-field-decoded SM83 reference (internal/ref) is the documented effect; it is cross-checked against daa.csv and the passing blargg/mooneye ROMs",
			"CPU-only stepping (no PPU/timer ticks) for single instructions: hardware registers cannot change by themselves during a case",
			"STOP is accepted as a 1-byte instruction as implemented (documentation gives 1 or 2 bytes)"},
	})
}
