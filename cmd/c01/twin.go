package main

import (
	"fmt"

	"verif/internal/lockstep"
	"verif/internal/prog"
	"verif/internal/rig"
)

// traceTwin: the CPU's trace option prints what the CPU does; it is no part of any opcode's
// effect. The same program runs on two whole machines (LCD on, pointers aimed at OAM and I/O),
// one of them tracing: registers and OAM are compared after every machine cycle and the whole
// 64 KiB read image at the end.
func traceTwin(c *rig.Ctx) {
	c.Require("trace_twin_cycles")
	c.Part("trace-twin", c.N(24, 300), func(i int64, r *rig.Rng) {
		p := prog.Generate(r, prog.Options{OAMFocus: i%3 != 2, Hardware: i%3 == 2, AllOpcodes: i%2 == 0, Interrupts: i%4 == 0, CartType: 0})
		restore := rig.QuietStdout()
		defer restore()
		a := rig.MustNew(p.ROM, rig.Opts{})
		b := rig.MustNew(p.ROM, rig.Opts{DebugCPU: true})
		n := int(c.N(12000, 40000))
		for k := 0; k < n; k++ {
			if a.CPU.XAtBoundary() && !a.CPU.XHalted() && rig.IsUndefinedOpcode(a.PeekOpcode()) && !(a.IRQ.Enabled() && a.IRQ.Pending()) {
				break
			}
			a.Step()
			b.Step()
			ra, rb := lockstep.Regs(a), lockstep.Regs(b)
			oa, ob := a.OAM.XSnapshot(), b.OAM.XSnapshot()
			if ra != rb || oa != ob {
				restore()
				what := "registers"
				if ra == rb {
					what = "OAM"
					for q := range oa {
						if oa[q] != ob[q] {
							what = fmt.Sprintf("OAM ([FE%02X] %02X with the trace, %02X without)", q, ob[q], oa[q])
							break
						}
					}
				}
				c.Violate("trace-option-changes-"+map[bool]string{true: "memory", false: "registers"}[ra == rb],
					fmt.Sprintf("%s: after %d machine cycles the machine with the CPU trace on differs in %s from the one without (registers %+v vs %+v)", p.Describe(), k+1, what, rb, ra), nil)
				return
			}
			c.Count("trace_twin_cycles", 1)
		}
		for ad := 0; ad < 0x10000; ad++ {
			if va, vb := lockstep.Peek(a, uint16(ad)), lockstep.Peek(b, uint16(ad)); va != vb {
				restore()
				c.Violate("trace-option-changes-memory", fmt.Sprintf("%s: at the end [%04X] reads %02X on the machine with the CPU trace on, %02X on the one without", p.Describe(), ad, vb, va), nil)
				return
			}
		}
		c.DistinctOnly(p.Hash)
	})
}
