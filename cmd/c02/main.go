// C02 — every instruction takes its documented number of machine cycles.
//
// (a) Black-box sentinel measurement, independent of the CPU's internal notion of an
// instruction boundary: all of memory is filled with a one-byte sentinel instruction
// (INC E, or INC B for instructions that write D/E), the instruction under test is placed
// in work RAM, and ExecuteMachineCycle is called until the sentinel's effect becomes visible
// in the register file; calls - 1 = length. Every defined opcode (and all 256 CB opcodes)
// x all 16 flag nibbles (so both outcomes of every condition arise) x several placements.
// (b) Lock-step: on generated programs and on the timing ROMs the number of machine cycles
// between consecutive instruction boundaries must equal the documented count of the retired
// instruction (5 for an interrupt dispatch, 6 out of HALT).
package main

import (
	"fmt"

	"verif/internal/lockstep"
	"verif/internal/prog"
	"verif/internal/ref"
	"verif/internal/rig"
	"verif/internal/romrun"
)

type bench struct {
	m        *rig.Machine
	sentinel uint8 // opcode
	useB     bool
}

func newBench(useB bool) *bench {
	op := uint8(0x1c) // INC E
	if useB {
		op = 0x04 // INC B
	}
	rom := rig.BlankROM(0x03, 0, 2) // MBC1+RAM
	for i := range rom {
		if i < 0x147 || i > 0x149 {
			rom[i] = op
		}
	}
	m := rig.MustNew(rom, rig.Opts{})
	m.Quiet()
	m.Mem.Write(0x0000, 0x0a)
	for a := 0x8000; a < 0xfea0; a++ {
		m.Mem.Write(uint16(a), op)
	}
	for a := 0xff80; a < 0xffff; a++ {
		m.Mem.Write(uint16(a), op)
	}
	return &bench{m: m, sentinel: op, useB: useB}
}

// writesDE reports whether the instruction may write D or E (then the B sentinel is used).
func writesDE(code []byte) bool {
	op := code[0]
	x, y, z := op>>6, (op>>3)&7, op&7
	if op == 0xcb {
		cz := code[1] & 7
		return cz == 2 || cz == 3
	}
	switch x {
	case 0:
		switch z {
		case 1, 3:
			return y>>1 == 1
		case 2:
			return false
		case 4, 5, 6:
			return y == 2 || y == 3
		}
	case 1:
		return y == 2 || y == 3
	case 3:
		return op == 0xd1
	}
	return false
}

func toX(r ref.Regs) (x struct {
	A, B, C, D, E, F, H, L uint8
	SP, PC                 uint16
}) {
	x.A, x.B, x.C, x.D, x.E, x.F, x.H, x.L, x.SP, x.PC = r.A, r.B, r.C, r.D, r.E, r.F, r.H, r.L, r.SP, r.PC
	return
}

func sentinelReg(b *bench, r ref.Regs) uint8 {
	if b.useB {
		return r.B
	}
	return r.E
}

func pickAddr(r *rig.Rng, lo, hi int) uint16 { return uint16(lo + r.Intn(hi-lo)) }

func run(c *rig.Ctx) {
	c.Require("sentinel_measurements", "cond_taken", "cond_not_taken", "cb_hl_forms", "lockstep_instructions", "rom_instructions")
	// One live CPU per process at a time: the two sentinel benches are used one after the
	// other (a bench is created when its part starts and never touched afterwards).
	var cur *bench
	get := func(useB bool) *bench {
		if cur == nil || cur.useB != useB {
			cur = newBench(useB)
		}
		return cur
	}
	type opc struct {
		code []byte
	}
	var ops []opc
	for op := 0; op < 256; op++ {
		if ref.IsUndefined(uint8(op)) || op == 0xcb || op == 0x76 || op == 0x10 {
			continue
		}
		ops = append(ops, opc{[]byte{uint8(op)}})
	}
	for cb := 0; cb < 256; cb++ {
		ops = append(ops, opc{[]byte{0xcb, uint8(cb)}})
	}
	places := c.N(4, 40)
	var opsE, opsB []opc
	for _, o := range ops {
		if writesDE(o.code) {
			opsB = append(opsB, o)
		} else {
			opsE = append(opsE, o)
		}
	}
	for _, group := range []struct {
		name string
		ops  []opc
	}{{"sentinelE", opsE}, {"sentinelB", opsB}} {
		group := group
		c.Part(group.name, int64(len(group.ops)), func(i int64, r *rig.Rng) {
			code0 := group.ops[i].code
			for fl := 0; fl < 16; fl++ {
				for pl := int64(0); pl < places; pl++ {
					code := append([]byte{}, code0...)
					n := ref.Length(code[0])
					if code[0] == 0xcb {
						n = 2
					}
					b := get(writesDE(code))
					m := b.m
					regs := ref.Regs{A: r.U8(), F: uint8(fl) << 4, B: r.U8(), C: r.U8(), D: r.U8(), E: r.U8(), H: r.U8(), L: r.U8()}
					regs.PC = pickAddr(r, 0xc100, 0xcf00)
					// pointers into a scratch page away from the code; SP into another
					regs.SetBC(pickAddr(r, 0xd000, 0xd400))
					regs.SetDE(pickAddr(r, 0xd400, 0xd800))
					regs.SetHL(pickAddr(r, 0xd800, 0xdc00))
					regs.SP = pickAddr(r, 0xdc10, 0xdff0)
					if regs.C < 0x80 || regs.C == 0xff {
						regs.C = 0x80 + uint8(r.Intn(0x7f))
						if regs.C == 0xff {
							regs.C = 0x90
						}
					}
					for len(code) < n {
						code = append(code, r.U8())
					}
					op := code[0]
					x, y, z := op>>6, (op>>3)&7, op&7
					switch {
					case n == 3 && (op == 0x08 || op == 0xea || op == 0xfa):
						a := pickAddr(r, 0xd000, 0xdc00)
						code[1], code[2] = uint8(a), uint8(a>>8)
					case n == 3 && x == 3: // JP / CALL targets: anywhere in ROM or work RAM
						a := pickAddr(r, 0x0200, 0x7f00)
						if r.Bool() {
							a = pickAddr(r, 0xc000, 0xc0f0)
						}
						code[1], code[2] = uint8(a), uint8(a>>8)
					case op == 0xe0 || op == 0xf0:
						code[1] = 0x80 + uint8(r.Intn(0x7f))
					case x == 0 && z == 0 && y >= 3: // JR: the target must be a sentinel, not the JR itself
						if code[1] >= 0xfe {
							code[1] = uint8(r.Intn(0x70))
						}
					}
					if op == 0xe9 {
						regs.SetHL(pickAddr(r, 0xc000, 0xc0f0))
					}
					if op == 0xf9 || op == 0x31 || op == 0xe8 {
						// SP changes are harmless: nothing uses the stack afterwards
					}
					// return address for RET/RETI/RET cc
					ret := pickAddr(r, 0x0200, 0x7f00)
					if r.Bool() {
						ret = pickAddr(r, 0xc000, 0xc0f0)
					}
					restore := map[uint16]uint8{}
					poke := func(a uint16, v uint8) {
						if _, ok := restore[a]; !ok {
							restore[a] = m.Mem.Read(a)
						}
						m.Mem.Write(a, v)
					}
					poke(regs.SP, uint8(ret))
					poke(regs.SP+1, uint8(ret>>8))
					for k, bb := range code {
						poke(regs.PC+uint16(k), bb)
					}
					pred := ref.Exec(regs, func(a uint16) uint8 { return lockstep.Peek(m, a) }, false)
					// every data write of the instruction is restored afterwards
					for _, a := range pred.Acc {
						if a.Write {
							if _, ok := restore[a.Addr]; !ok {
								restore[a.Addr] = m.Mem.Read(a.Addr)
							}
						}
					}
					m.CPU.XResetToBoundary()
					m.IRQ.Disable()
					m.CPU.XSetRegs(toX(regs))
					want := sentinelReg(b, pred.Regs) + 1
					calls := 0
					seen := false
					for calls < 14 {
						m.CPU.ExecuteMachineCycle()
						calls++
						if sentinelReg(b, lockstep.Regs(m)) == want {
							seen = true
							break
						}
					}
					for a, v := range restore {
						m.Mem.Write(a, v)
					}
					name := fmt.Sprintf("op%02X", op)
					if op == 0xcb {
						name = fmt.Sprintf("opCB%02X", code[1])
						if code[1]&7 == 6 {
							c.Count("cb_hl_forms", 1)
						}
					}
					h := rig.NewHasher()
					h.B(code)
					h.U(uint64(fl))
					h.U(uint64(regs.PC)<<16 | uint64(regs.SP))
					c.Case(h.Sum())
					c.Count("sentinel_measurements", 1)
					if pred.Cond {
						if pred.Taken {
							c.Count("cond_taken", 1)
						} else {
							c.Count("cond_not_taken", 1)
						}
					}
					if !seen {
						c.Violate(name+"-cycles", fmt.Sprintf("%s F=%02X: the following instruction had not executed after %d machine cycles (documented length %d)", name, regs.F, calls, pred.Cycles),
							map[string]any{"code": fmt.Sprintf("% X", code), "regs": regs})
						continue
					}
					if calls-1 != pred.Cycles {
						c.Violate(name+"-cycles", fmt.Sprintf("%s F=%02X (taken=%v): measured %d machine cycles, documented %d", name, regs.F, pred.Taken, calls-1, pred.Cycles),
							map[string]any{"code": fmt.Sprintf("% X", code), "regs": regs, "measured": calls - 1, "documented": pred.Cycles})
					}
					if fl == 0 && pl == 0 && i%97 == 0 {
						c.Sample(map[string]any{"class": "sentinel", "code": fmt.Sprintf("% X", code), "flags": fmt.Sprintf("%02X", regs.F), "measured": calls - 1, "documented": pred.Cycles})
					}
				}
			}
		})
	}
	c.MarkExhaustive("every defined opcode (245 base without HALT/STOP + 256 CB) x 16 flag nibbles")

	// cross-check of the harness's cycle table against the repository's metadata (warning only)
	if c.Shard == 0 && c.OnlyPart == "" {
		dis := 0
		for op := 0; op < 256; op++ {
			if ref.IsUndefined(uint8(op)) || op == 0xcb {
				continue
			}
			t, nt := ref.Cycles(uint8(op))
			if mc := xMeta(uint8(op), false); len(mc) > 0 {
				if mc[0]/4 != t || (len(mc) > 1 && mc[1]/4 != nt) {
					dis++
					c.Note("metadata cycle table differs from the reference for opcode %02X: metadata %v, reference %d/%d", op, mc, t, nt)
				}
			}
		}
		for cb := 0; cb < 256; cb++ {
			if mc := xMeta(uint8(cb), true); len(mc) > 0 && mc[0]/4 != ref.CyclesCB(uint8(cb)) {
				dis++
				c.Note("metadata cycle table differs from the reference for CB %02X: metadata %v, reference %d", cb, mc, ref.CyclesCB(uint8(cb)))
			}
		}
		c.Count("metadata_table_disagreements", int64(dis))
	}

	// (b) lock-step on generated programs
	nprog := c.N(300, 6000)
	c.Part("lockstep", nprog, func(i int64, r *rig.Rng) {
		p := prog.Generate(r, prog.Options{Interrupts: i%2 == 0, AllOpcodes: true, Hardware: i%4 == 1, Stops: i%2 == 1, MBCWrites: i%3 == 0, CartType: cartFor(i)})
		if i%6 == 5 {
			p = prog.IdleLoops(r) // wait-for-interrupt loops instead of HALT
			c.Count("idle_loop_programs", 1)
		}
		// one program in five runs with the CPU trace option on (a debugging aid must not cost
		// machine cycles)
		opts := rig.Opts{}
		if i%5 == 3 {
			opts.DebugCPU = true
			defer rig.QuietStdout()()
			c.Count("lockstep_programs_with_cpu_trace", 1)
		}
		m := rig.MustNew(p.ROM, opts)
		f := lockstep.New(m)
		f.Violate = func(prop, class, msg string) {
			if prop == "C02" {
				c.Violate("lockstep-"+class, msg, map[string]any{"program": p.Describe()})
			}
		}
		f.ThroughStop = i%2 == 1
		if i%2 == 1 {
			// key events at random machine cycles: they are no business of the CPU's
			_, keys := f.RunCyclesWithKeys(int(c.N(8000, 30000)), r, 250)
			c.Count("key_events_during_programs", int64(keys))
		} else {
			f.RunCycles(int(c.N(8000, 30000)))
		}
		c.Count("lockstep_instructions", f.Instrs)
		c.Count("lockstep_dispatches", f.Dispatches)
		c.Eval(f.Instrs)
		c.DistinctOnly(p.Hash)
	})

	// (b) lock-step on the timing ROMs
	roms := romrun.Select("instr_timing", "mem_timing", "_timing", "cpu_instrs/individual/0", "halt_bug", "intr_timing", "div_timing")
	longLife(c)
	romrun.FollowROMs(c, "roms", roms, romrun.FollowOpts{Props: []string{"C02"}, Verdict: true})
}

// cartFor: every third program runs on a random banked cartridge (and gets cartridge-control
// stores and clock/RAM accesses), the others on a ROM-only one.
func cartFor(i int64) int {
	if i%3 == 0 {
		return -1
	}
	return 0
}

func main() {
	rig.Main(rig.Spec{
		ID:  "C02",
		Run: run,
		Rule: "sentinel measurements: (opcode bytes, flag nibble, placement) with random registers, distinct by code bytes+flags+PC/SP; " +
			"lock-step: retired instructions of generated programs and timing ROMs (distinct programs/ROMs counted)",
		Assumptions: []string{"documented cycle counts = internal/ref (derived from the same decode as the effects); cross-checked against instruction_metadata.go (warnings only) and the passing instr_timing/mooneye timing ROMs",
			"HALT and STOP lengths are judged by C05/C01"},
	})
}
