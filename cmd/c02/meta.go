package main

import "github.com/scottyw/tetromino/gameboy/cpu"

// xMeta returns the repository's own metadata cycle counts (clock cycles) for an opcode.
func xMeta(op uint8, prefixed bool) []int { return cpu.XMetaCycles(op, prefixed) }
