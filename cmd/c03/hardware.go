package main

// Hardware-witnessed access timing. The main part infers accesses from values in plain
// memory, which cannot see a store that does not change the byte, nor anything that only
// happens at a hardware register. Here memory-mapped hardware is the witness:
//
//   - SB (FF01): every store is handed to the serial writer, which records (machine cycle,
//     value) - the exact list of stores an instruction makes to that address;
//   - DIV (FF04): any store clears the divider; the divider is set non-zero before every machine
//     cycle, so it reads zero afterwards exactly if a store happened in that cycle;
//   - IF (FF0F): changes between machine cycles on real hardware; reads through a pointer at
//     FF0F are timed by per-cycle value substitution like the plain-memory reads.
//
// Instructions that do not store through the pointer must leave both witnesses untouched.

import (
	"fmt"

	"verif/internal/lockstep"
	"verif/internal/prog"
	"verif/internal/ref"
	"verif/internal/rig"
)

type hit struct {
	Cycle int
	Val   uint8
}

type tap struct {
	cur  int
	hits []hit
}

func (t *tap) Write(p []byte) (int, error) {
	for _, b := range p {
		t.hits = append(t.hits, hit{t.cur + 1, b})
	}
	return len(p), nil
}

// aim points the data pointer the opcode uses at target; sp is used for the stack pointer.
func aim(regs *ref.Regs, code []byte, target, sp uint16) {
	o := code[0]
	regs.SP = sp
	switch {
	case o == 0x02 || o == 0x0a:
		regs.SetBC(target)
	case o == 0x12 || o == 0x1a:
		regs.SetDE(target)
	case o == 0xe2 || o == 0xf2:
		regs.C = uint8(target)
	case o == 0xe0 || o == 0xf0:
		code[1] = uint8(target)
	case o == 0xea || o == 0xfa || o == 0x08:
		code[1], code[2] = uint8(target), uint8(target>>8)
	default:
		regs.SetHL(target)
	}
}

func witness(c *rig.Ctx, ops [][]byte) {
	c.Require("witnessed_instructions", "witnessed_sb_stores", "witnessed_div_stores", "witnessed_instructions_without_store")
	t := &tap{}
	rom := rig.BlankROM(0x03, 0, 2)
	m := rig.MustNew(rom, rig.Opts{SerialWriter: t})
	m.Quiet()
	m.Mem.Write(0x0000, 0x0a)
	s := &sim{m: m}
	reps := int(c.N(2, 12))
	c.Part("witness", int64(len(ops)), func(i int64, r *rig.Rng) {
		op := ops[i]
		for fl := 0; fl < 16; fl++ {
			for rep := 0; rep < reps; rep++ {
				for _, target := range []uint16{0xff01, 0xff04, 0xff46} {
					regs, code := gen(r, op, uint8(fl)<<4, regions[0])
					// the stack pointer variants put the low byte, the high byte, or neither on the target
					sp := regs.SP
					switch rep % 3 {
					case 0:
						sp = target + 1
					case 1:
						sp = target + 2
					}
					aim(&regs, code, target, sp)
					for k, b := range code {
						m.Mem.Write(regs.PC+uint16(k), b)
					}
					pred := ref.Exec(regs, s.peek, false)
					var want []hit
					for _, a := range pred.Acc {
						if a.Write && a.Addr == target {
							want = append(want, hit{a.Cycle, a.Val})
						}
					}
					t.hits = t.hits[:0]
					var divHits []int
					// in every other run a key event arrives between two of the instruction's cycles
					keyAt := -1
					if rep%2 == 1 && pred.Cycles > 1 {
						keyAt = 1 + r.Intn(pred.Cycles-1)
						c.Count("witnessed_instructions_with_key_event", 1)
					}
					s.execute(regs, pred.Cycles, func(done int) {
						if done > 0 && m.Timer.XCounter() == 0 {
							divHits = append(divHits, done)
						}
						m.Timer.XSetCounter(0x1234)
						t.cur = done
						if done == keyAt {
							m.CPU.OnInput()
						}
					})
					nm := name(code)
					c.Count("witnessed_instructions", 1)
					if !m.CPU.XAtBoundary() {
						c.Violate(nm+"-still-in-flight", fmt.Sprintf("%s (F=%02X, pointer at %04X, SP=%04X): the instruction has not finished after its %d documented machine cycles", nm, regs.F, target, regs.SP, pred.Cycles), map[string]any{"code": fmt.Sprintf("% X", code), "regs": regs})
					}
					if target == 0xff46 {
						// (no per-cycle witness for the DMA register: only that the instruction's
						// other accesses are not delayed by a store to it)
						continue
					}
					if len(want) == 0 {
						c.Count("witnessed_instructions_without_store", 1)
					}
					detail := map[string]any{"code": fmt.Sprintf("% X", code), "regs": regs, "target": fmt.Sprintf("%04X", target)}
					if target == 0xff01 {
						c.Count("witnessed_sb_stores", int64(len(want)))
						if fmt.Sprint(t.hits) != fmt.Sprint(want) {
							c.Violate(nm+"-stores-seen-by-serial", fmt.Sprintf("%s (F=%02X, pointer at SB): the serial port saw stores {cycle value} %v, documented %v (of %d cycles)", nm, regs.F, t.hits, want, pred.Cycles), detail)
						}
					} else {
						var wantCycles []int
						for _, h := range want {
							wantCycles = append(wantCycles, h.Cycle)
						}
						c.Count("witnessed_div_stores", int64(len(want)))
						if fmt.Sprint(divHits) != fmt.Sprint(wantCycles) {
							c.Violate(nm+"-stores-seen-by-divider", fmt.Sprintf("%s (F=%02X, pointer at DIV): the divider was cleared in machine cycles %v, documented store cycles %v (of %d)", nm, regs.F, divHits, wantCycles, pred.Cycles), detail)
						}
					}
					h := rig.NewHasher()
					h.B(code)
					h.U(uint64(regs.F)<<32 | uint64(target)<<16 | uint64(regs.SP))
					c.Case(h.Sum())
				}
			}
		}
	})
	c.MarkExhaustive("every memory-accessing opcode x 16 flag nibbles x {SB, DIV} as the addressed byte x stack-pointer placements")
}

func ifReads(c *rig.Ctx, ops [][]byte) {
	c.Require("if_reads_timed")
	s := newSim()
	const IF = 0xff0f
	reps := int(c.N(1, 8))
	c.Part("if-reads", int64(len(ops)), func(i int64, r *rig.Rng) {
		op := ops[i]
		for fl := 0; fl < 16; fl++ {
			for rep := 0; rep < reps; rep++ {
				regs, code := gen(r, op, uint8(fl)<<4, regions[0])
				aim(&regs, code, IF, regs.SP)
				for k, b := range code {
					s.m.Mem.Write(regs.PC+uint16(k), b)
				}
				view := func(v uint8) func(uint16) uint8 {
					return func(a uint16) uint8 {
						if a == IF {
							return v
						}
						return s.peek(a)
					}
				}
				pred := ref.Exec(regs, view(0xe0), false)
				nm := name(code)
				for _, rd := range pred.Acc {
					if rd.Write || rd.Addr != IF {
						continue
					}
					var D, S uint8
					var pD, pS ref.Result
					ok := false
					for try := 0; try < 16 && !ok; try++ {
						D, S = 0xe0|r.U8(), 0xe0|r.U8()
						if D == S {
							continue
						}
						pD = ref.Exec(regs, view(D), false)
						pS = ref.Exec(regs, view(S), false)
						// what IF keeps of a stored value is its low five bits
						seen := func(p *ref.Result) string {
							ws := p.Writes()
							for k := range ws {
								if ws[k].Addr == IF {
									ws[k].Val |= 0xe0
								}
							}
							return fmt.Sprint(ws)
						}
						ok = pD.Regs != pS.Regs || seen(&pD) != seen(&pS)
						for _, w := range append(pD.Writes(), pS.Writes()...) {
							if w.Addr == IF && (w.Val|0xe0 == S || w.Val|0xe0 == D) {
								ok = false
							}
						}
					}
					if !ok {
						c.Count("if_read_indistinguishable", 1)
						continue
					}
					c.Count("if_reads_timed", 1)
					responded, respondedAt := 0, 0
					for cyc := 1; cyc <= pD.Cycles; cyc++ {
						s.m.Mem.Write(IF, D)
						got := s.execute(regs, pD.Cycles, func(done int) {
							if done == cyc-1 {
								s.m.Mem.Write(IF, S)
							}
							if done == cyc && s.peek(IF) == S {
								s.m.Mem.Write(IF, D)
							}
						})
						matches := func(p *ref.Result) bool {
							if got != p.Regs {
								return false
							}
							for _, w := range p.Writes() {
								g, x := s.peek(w.Addr), w.Val
								if w.Addr == IF {
									x |= 0xe0
								}
								if g != x {
									return false
								}
							}
							return true
						}
						isS, isD := matches(&pS), matches(&pD)
						switch {
						case isS && !isD:
							responded++
							respondedAt = cyc
						case isD:
						default:
							c.Violate(nm+"-if-read-outcome", fmt.Sprintf("%s: with IF=%02X only during cycle %d (else %02X) the outcome matches neither value: regs %+v, IF now %02X", nm, S, cyc, D, got, s.peek(IF)), nil)
						}
					}
					if responded != 1 || respondedAt != rd.Cycle {
						c.Violate(nm+"-if-read-cycle", fmt.Sprintf("%s (F=%02X): read of IF consumed in machine cycle %d (%d cycles responded), documented cycle %d of %d", nm, regs.F, respondedAt, responded, rd.Cycle, pD.Cycles),
							map[string]any{"code": fmt.Sprintf("% X", code), "regs": regs})
					}
				}
				h := rig.NewHasher()
				h.B(code)
				h.U(uint64(regs.F)<<32 | 0xff0f)
				h.U(uint64(rep))
				c.Case(h.Sum())
			}
		}
	})
}

var _ = lockstep.Peek

// debugTwin: the CPU's trace option must not add bus accesses. Two machines run the same
// program cycle by cycle, one with DebugCPU on; pointers are aimed at OAM with the LCD on, where
// even a read has an effect (the mode-2 OAM bug), so an extra access shows as different OAM
// contents or registers.
func debugTwin(c *rig.Ctx) {
	c.Require("debug_twin_cycles")
	c.Part("debug-twin", c.N(24, 300), func(i int64, r *rig.Rng) {
		p := prog.Generate(r, prog.Options{OAMFocus: true, Hardware: i%3 == 0, AllOpcodes: i%2 == 0, Interrupts: i%4 == 0, CartType: 0})
		restore := rig.QuietStdout()
		defer restore()
		a := rig.MustNew(p.ROM, rig.Opts{})
		b := rig.MustNew(p.ROM, rig.Opts{DebugCPU: true})
		n := int(c.N(12000, 40000))
		for k := 0; k < n; k++ {
			if a.CPU.XAtBoundary() && !a.CPU.XHalted() && rig.IsUndefinedOpcode(a.PeekOpcode()) && !(a.IRQ.Enabled() && a.IRQ.Pending()) {
				break
			}
			a.Step()
			b.Step()
			ra, rb := lockstep.Regs(a), lockstep.Regs(b)
			oa, ob := a.OAM.XSnapshot(), b.OAM.XSnapshot()
			if ra != rb || oa != ob {
				restore()
				c.Violate("debug-trace-changes-execution", fmt.Sprintf("%s: after %d machine cycles the machine with the CPU trace on differs from the one without (registers %+v vs %+v; OAM equal: %v)", p.Describe(), k+1, rb, ra, oa == ob), nil)
				return
			}
			c.Count("debug_twin_cycles", 1)
		}
		c.DistinctOnly(p.Hash)
	})
}

// programs: instruction sequences (not single instructions from a reset CPU) under the
// lock-step monitor, whose reference knows every documented access: stacks placed where stores
// do not stick (a pop right after a push must read memory, not remember the push), pointers in
// OAM, key events at random cycles (a key event may not shift an access to another cycle).
func programs(c *rig.Ctx) {
	c.Require("program_instructions", "program_key_events")
	c.Part("programs", c.N(200, 3000), func(i int64, r *rig.Rng) {
		p := prog.Generate(r, prog.Options{OAMFocus: i%2 == 0, Hardware: i%3 == 0, MBCWrites: i%5 == 0, CartType: -1, Stops: true, Interrupts: i%4 == 1})
		m := rig.MustNew(p.ROM, rig.Opts{})
		f := lockstep.New(m)
		f.ThroughStop = true
		f.Violate = func(prop, class, msg string) {
			if prop == "C03" || prop == "C01" || prop == "C02" {
				c.Violate("program-"+prop+"-"+class, msg, map[string]any{"program": p.Describe()})
			}
		}
		_, keys := f.RunCyclesWithKeys(int(c.N(8000, 30000)), r, 40)
		c.Count("program_key_events", int64(keys))
		c.Count("program_instructions", f.Instrs)
		c.Eval(f.Instrs)
		c.DistinctOnly(p.Hash)
	})
}
