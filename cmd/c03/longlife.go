package main

import (
	"verif/internal/longlife"
	"verif/internal/rig"
)

// longLife: the cycle of an access does not depend on the age of the CPU (more than 2^24
// machine cycles in one go; the store to DIV is the witness).
func longLife(c *rig.Ctx) {
	c.Require("long_life_cycles")
	c.Part("long-life", 1, func(i int64, r *rig.Rng) {
		if longlife.Run(c, 1<<24+1<<17, "long-life-access-cycle-slips") {
			c.Exact(1)
		}
	})
}
