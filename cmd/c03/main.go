// C03 — memory reads and writes happen in the documented machine cycle.
//
// Write cycle: the addressed byte is planted with a value different from the one the
// instruction stores and read back after every machine cycle; the cycle in which it becomes
// the documented value is the write cycle. Read cycle: the instruction is run once per machine
// cycle c with a "special" value present in the addressed byte only during cycle c (a default
// value otherwise, poked through Mapper.Write between cycles); the read cycle is the unique c
// whose special value shows in the outcome (destination register, flags, PC for RET, the value
// written back by a read-modify-write). Exactly one c must respond and it must be the
// documented one. The oracle is the access schedule of internal/ref.
package main

import (
	"fmt"

	"verif/internal/lockstep"
	"verif/internal/ref"
	"verif/internal/rig"
	"verif/internal/romrun"
)

type region struct {
	name   string
	lo, hi uint16 // data pointers are drawn from [lo, hi)
	list   []uint16 // or from this list (registers that read back what was stored)
}

// Round 10: I/O registers that are plain storage to a store followed by a load (wave RAM with
// channel 3 off, scroll/window/palette/compare registers, TMA; SB is not used: this emulator does not keep stored serial data readable, which C03 does not judge), as targets of the opcodes that
// address one byte: the access cycle of LDH/LD (C)/LD (nn)/(HL) forms is judged there too.
var ioList = []uint16{0xff30, 0xff31, 0xff32, 0xff33, 0xff34, 0xff35, 0xff36, 0xff37, 0xff38, 0xff39, 0xff3a, 0xff3b, 0xff3c, 0xff3d, 0xff3e, 0xff3f,
	0xff42, 0xff43, 0xff45, 0xff47, 0xff4a, 0xff4b, 0xff06}

var ioOps = map[uint8]bool{0xe0: true, 0xf0: true, 0xe2: true, 0xf2: true, 0xea: true, 0xfa: true, 0x77: true, 0x7e: true, 0x36: true, 0x34: true, 0x35: true,
	0x70: true, 0x46: true, 0x02: true, 0x0a: true, 0x12: true, 0x1a: true, 0x22: true, 0x2a: true, 0x32: true, 0x3a: true, 0x86: true, 0xbe: true}

var regions = []region{
	{"wram", 0xd010, 0xdfe0, nil},
	{"hram", 0xff84, 0xfff8, nil},
	{"echo", 0xe010, 0xe7f0, nil},
	{"vram", 0x8010, 0x9ff0, nil},
	{"cartram", 0xa010, 0xbff0, nil},
	{"io", 0, 0, ioList},
}

func toX(r ref.Regs) (x struct {
	A, B, C, D, E, F, H, L uint8
	SP, PC                 uint16
}) {
	x.A, x.B, x.C, x.D, x.E, x.F, x.H, x.L, x.SP, x.PC = r.A, r.B, r.C, r.D, r.E, r.F, r.H, r.L, r.SP, r.PC
	return
}

type sim struct {
	m *rig.Machine
}

func newSim() *sim {
	rom := rig.BlankROM(0x03, 0, 2)
	m := rig.MustNew(rom, rig.Opts{})
	m.Quiet()
	m.Mem.Write(0x0000, 0x0a)
	return &sim{m: m}
}

func (s *sim) peek(a uint16) uint8 { return lockstep.Peek(s.m, a) }

// gen builds a case for opcode bytes op with all data pointers inside region g.
func gen(r *rig.Rng, op []byte, fl uint8, g region) (ref.Regs, []byte) {
	pick := func() uint16 {
		if g.list != nil {
			return g.list[r.Intn(len(g.list))]
		}
		return g.lo + uint16(r.Intn(int(g.hi-g.lo)))
	}
	regs := ref.Regs{A: r.U8(), F: fl, B: r.U8(), C: r.U8(), D: r.U8(), E: r.U8(), H: r.U8(), L: r.U8()}
	regs.PC = 0xc800 + uint16(r.Intn(0x700))
	code := append([]byte{}, op...)
	n := ref.Length(op[0])
	if op[0] == 0xcb {
		n = 2
	}
	for len(code) < n {
		code = append(code, r.U8())
	}
	o := op[0]
	x, _, z := o>>6, (o>>3)&7, o&7
	usesBC := o == 0x02 || o == 0x0a
	usesDE := o == 0x12 || o == 0x1a
	switch {
	case usesBC:
		regs.SetBC(pick())
	case usesDE:
		regs.SetDE(pick())
	default:
		regs.SetHL(pick())
	}
	regs.SP = pick() &^ 1
	if n == 3 {
		a := pick()
		if x == 3 && (z == 2 || z == 3 || z == 4 || z == 5) && o != 0xea && o != 0xfa {
			a = 0xc000 + uint16(r.Intn(0x700)) // jump/call targets
		}
		code[1], code[2] = uint8(a), uint8(a>>8)
	}
	if o == 0xe0 || o == 0xf0 {
		code[1] = 0x84 + uint8(r.Intn(0x70))
		if g.list != nil {
			code[1] = uint8(pick())
		}
	}
	if o == 0xe2 || o == 0xf2 {
		regs.C = 0x84 + uint8(r.Intn(0x70))
		if g.list != nil {
			regs.C = uint8(pick())
		}
	}
	return regs, code
}

// execute runs the instruction at regs.PC cycle by cycle; between cycles hook(k) is called
// with k = number of cycles completed so far (0 before the first).
func (s *sim) execute(regs ref.Regs, cycles int, hook func(done int)) ref.Regs {
	m := s.m
	m.CPU.XResetToBoundary()
	m.IRQ.Disable()
	m.CPU.XSetRegs(toX(regs))
	for k := 0; k < cycles; k++ {
		hook(k)
		m.CPU.ExecuteMachineCycle()
	}
	hook(cycles)
	return lockstep.Regs(m)
}

func name(code []byte) string {
	if code[0] == 0xcb {
		return fmt.Sprintf("opCB%02X", code[1])
	}
	return fmt.Sprintf("op%02X", code[0])
}

func run(c *rig.Ctx) {
	c.Require("write_accesses_timed", "read_accesses_timed", "opcodes_with_reads", "opcodes_with_writes")
	var ops [][]byte
	for op := 0; op < 256; op++ {
		if ref.IsUndefined(uint8(op)) || op == 0xcb || op == 0x76 || op == 0x10 {
			continue
		}
		ops = append(ops, []byte{uint8(op)})
	}
	for cb := 0; cb < 256; cb++ {
		if cb&7 == 6 {
			ops = append(ops, []byte{0xcb, uint8(cb)})
		}
	}
	s := newSim()
	reps := c.N(3, 40)
	c.Part("timing", int64(len(ops)), func(i int64, r *rig.Rng) {
		op := ops[i]
		hasR, hasW := false, false
		for _, g := range regions {
			if g.list != nil {
				if op[0] == 0xcb || !ioOps[op[0]] {
					continue
				}
				c.Count("io_register_target_opcodes", 1)
			}
			for fl := 0; fl < 16; fl++ {
				for rep := int64(0); rep < reps; rep++ {
					regs, code := gen(r, op, uint8(fl)<<4, g)
					for k, b := range code {
						s.m.Mem.Write(regs.PC+uint16(k), b)
					}
					pred := ref.Exec(regs, s.peek, false)
					if len(pred.Acc) == 0 {
						continue
					}
					nm := name(code)
					// ---- writes ----
					var writes []ref.Access
					var planted []uint8
					for _, a := range pred.Acc {
						if a.Write {
							writes = append(writes, a)
						}
					}
					if len(writes) > 0 {
						hasW = true
						// plant a value that differs from the one to be written; for
						// read-modify-write the planted value is also the operand, so
						// re-predict after planting
						for _, w := range writes {
							s.m.Mem.Write(w.Addr, ^w.Val)
						}
						pred = ref.Exec(regs, s.peek, false)
						writes = writes[:0]
						for _, a := range pred.Acc {
							if a.Write {
								writes = append(writes, a)
							}
						}
						planted = make([]uint8, len(writes))
						for k, w := range writes {
							planted[k] = s.peek(w.Addr)
						}
						seenAt := make([]int, len(writes))
						s.execute(regs, pred.Cycles, func(done int) {
							for k, w := range writes {
								if seenAt[k] == 0 && s.peek(w.Addr) != planted[k] {
									seenAt[k] = done
									if s.peek(w.Addr) != w.Val {
										c.Violate(nm+"-write-value", fmt.Sprintf("%s (%s): [%04X] became %02X in cycle %d, documented value %02X", nm, g.name, w.Addr, s.peek(w.Addr), done, w.Val), nil)
									}
								}
							}
						})
						for k, w := range writes {
							c.Count("write_accesses_timed", 1)
							if planted[k] == w.Val {
								c.Count("write_indistinguishable", 1)
								continue
							}
							if seenAt[k] != w.Cycle {
								c.Violate(fmt.Sprintf("%s-write-cycle", nm), fmt.Sprintf("%s (%s, F=%02X): write to [%04X] observed in machine cycle %d, documented cycle %d of %d", nm, g.name, regs.F, w.Addr, seenAt[k], w.Cycle, pred.Cycles),
									map[string]any{"code": fmt.Sprintf("% X", code), "regs": regs, "addr": w.Addr})
							}
						}
					}
					// ---- writes happen unconditionally ----
					// A store is a bus access whether or not it changes the byte (memory-mapped
					// hardware reacts to being written). For every documented write the byte is
					// replaced by a foreign value right before the documented write cycle; after
					// that cycle it must hold the documented value again.
					for wi := range writes {
						w := writes[wi]
						foreign := ^w.Val ^ 0x5a
						if foreign == w.Val {
							foreign ^= 1
						}
						for k, x := range writes {
							s.m.Mem.Write(x.Addr, planted[k])
						}
						okWrite := true
						s.execute(regs, pred.Cycles, func(done int) {
							if done == w.Cycle-1 {
								s.m.Mem.Write(w.Addr, foreign)
							}
							if done == w.Cycle && s.peek(w.Addr) != w.Val {
								okWrite = false
							}
						})
						c.Count("write_accesses_forced", 1)
						if !okWrite {
							c.Violate(fmt.Sprintf("%s-write-elided", nm), fmt.Sprintf("%s (%s, F=%02X): [%04X] was changed to %02X right before machine cycle %d; after that cycle it does not hold the documented value %02X (no store happened in that cycle)", nm, g.name, regs.F, w.Addr, foreign, w.Cycle, w.Val),
								map[string]any{"code": fmt.Sprintf("% X", code), "regs": regs, "addr": w.Addr})
						}
					}
					// ---- reads ----
					var reads []ref.Access
					for _, a := range pred.Acc {
						if !a.Write {
							reads = append(reads, a)
						}
					}
					for _, rd := range reads {
						hasR = true
						// choose default/special values that the outcome distinguishes
						var D, S uint8
						var pD, pS ref.Result
						ok := false
						for try := 0; try < 16 && !ok; try++ {
							D, S = r.U8(), r.U8()
							if D == S {
								continue
							}
							view := func(v uint8) func(uint16) uint8 {
								return func(a uint16) uint8 {
									if a == rd.Addr {
										return v
									}
									return s.peek(a)
								}
							}
							pD = ref.Exec(regs, view(D), false)
							pS = ref.Exec(regs, view(S), false)
							ok = pD.Regs != pS.Regs || fmt.Sprint(pD.Writes()) != fmt.Sprint(pS.Writes())
							// the special value must not coincide with anything the instruction
							// itself stores at that address (the un-poke rule relies on it)
							for _, w := range append(pD.Writes(), pS.Writes()...) {
								if w.Addr == rd.Addr && (w.Val == S || w.Val == D) {
									ok = false
								}
							}
						}
						if !ok {
							c.Count("read_indistinguishable", 1)
							continue
						}
						c.Count("read_accesses_timed", 1)
						responded := 0
						respondedAt := 0
						for cyc := 1; cyc <= pD.Cycles; cyc++ {
							s.m.Mem.Write(rd.Addr, D)
							got := s.execute(regs, pD.Cycles, func(done int) {
								if done == cyc-1 {
									s.m.Mem.Write(rd.Addr, S)
								}
								if done == cyc && s.peek(rd.Addr) == S {
									// restore only if the instruction has not written here meanwhile
									s.m.Mem.Write(rd.Addr, D)
								}
							})
							// outcome: registers and the bytes the instruction writes
							matches := func(p *ref.Result) bool {
								if got != p.Regs {
									return false
								}
								for _, w := range p.Writes() {
									if s.peek(w.Addr) != w.Val {
										return false
									}
								}
								return true
							}
							isS, isD := matches(&pS), matches(&pD)
							switch {
							case isS && !isD:
								responded++
								respondedAt = cyc
							case isD:
							default:
								c.Violate(nm+"-read-outcome", fmt.Sprintf("%s (%s): with [%04X]=%02X only during cycle %d (else %02X) the outcome matches neither value: regs %+v", nm, g.name, rd.Addr, S, cyc, D, got), nil)
							}
						}
						if responded != 1 || respondedAt != rd.Cycle {
							c.Violate(nm+"-read-cycle", fmt.Sprintf("%s (%s, F=%02X): read of [%04X] consumed in machine cycle %d (%d cycles responded), documented cycle %d of %d", nm, g.name, regs.F, rd.Addr, respondedAt, responded, rd.Cycle, pD.Cycles),
								map[string]any{"code": fmt.Sprintf("% X", code), "regs": regs, "addr": rd.Addr})
						}
					}
					h := rig.NewHasher()
					h.B(code)
					h.S(g.name)
					h.U(uint64(regs.F))
					h.U(uint64(regs.HL())<<32 | uint64(regs.SP)<<16 | uint64(regs.BC()))
					c.Case(h.Sum())
					if fl == 0 && rep == 0 && g.name == "wram" && i%23 == 0 {
						var sched []string
						for _, a := range pred.Acc {
							k := "R"
							if a.Write {
								k = "W"
							}
							sched = append(sched, fmt.Sprintf("%s%d@%04X", k, a.Cycle, a.Addr))
						}
						c.Sample(map[string]any{"opcode": nm, "region": g.name, "documented_schedule": sched})
					}
				}
			}
		}
		if hasR {
			c.Count("opcodes_with_reads", 1)
		}
		if hasW {
			c.Count("opcodes_with_writes", 1)
		}
	})
	c.MarkExhaustive("every memory-accessing opcode x 5 location classes x 16 flag nibbles")

	witness(c, ops)
	ifReads(c, ops)
	debugTwin(c)
	programs(c)
	longLife(c)
	pushOAM(c)

	roms := romrun.Select("mem_timing", "add_sp_e_timing", "call_timing", "call_cc_timing", "jp_timing", "jp_cc_timing", "ret_timing", "ret_cc_timing", "reti_timing", "pop_timing", "push_timing", "rst_timing", "ld_hl_sp_e_timing", "oam_dma_timing")
	romrun.FollowROMs(c, "roms", roms, romrun.FollowOpts{Verdict: true})
}

func main() {
	rig.Main(rig.Spec{
		ID:  "C03",
		Run: run,
		Rule: "one case = (opcode, location class of the addressed byte, flag nibble, random pointers/values); for each case every data write is timed by per-cycle read-back and every data read by " +
			"per-cycle value substitution; distinct by opcode+class+flags+pointers",
		Assumptions: []string{"documented access cycles = the schedule of internal/ref (LD A,(nn) R4; PUSH W3,W4; INC (HL) R2,W3; CALL W5,W6; RET R2,R3; RET cc R3,R4; CB (HL) R3,W4; BIT n,(HL) R3; ...)",
			"opcode and immediate fetches are not data accesses through an address and are not timed",
			"CPU-only stepping with Mapper pokes between cycles stands for memory-mapped hardware changing between cycles"},
	})
}
