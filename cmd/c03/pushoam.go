package main

import (
	"fmt"

	"verif/internal/rig"
)

// pushOAM: PUSH with the stack pointer inside FE00-FEFF while the LCD is on, started at every
// phase of the scanline (so that its cycles fall into every mode, OAM scan included). OAM is
// all zeroes beforehand - whatever the OAM bug does with zeroes gives zeroes - and the pushed
// bytes are not zero: the high byte must not be in OAM before the third machine cycle, the low
// byte not before the fourth.
func pushOAM(c *rig.Ctx) {
	c.Require("push_into_oam_cases", "push_into_oam_in_mode2")
	ops := []uint8{0xc5, 0xd5, 0xe5, 0xf5}
	c.Part("push-oam", 114*int64(len(ops)), func(i int64, r *rig.Rng) {
		op, phase := ops[i/114], int(i%114)
		rom := rig.BlankROM(0, 0, 0)
		rig.Put(rom, 0x100, 0x00, 0xc3, 0x50, 0x01)
		pc := 0x150
		for k := 0; k < phase; k++ {
			rom[pc] = 0x00
			pc++
		}
		at := pc
		rom[pc] = op
		rom[pc+1], rom[pc+2] = 0x18, 0xfe
		m := rig.MustNew(rom, rig.Opts{})
		for k := 0; k < 4000 && !(m.CPU.XAtBoundary() && int(m.CPU.XGetRegs().PC) == at); k++ {
			m.Step()
		}
		sp := uint16(0xfe02 + 2*r.Intn(0x4f))
		regs := m.CPU.XGetRegs()
		regs.SP = sp
		regs.A, regs.F, regs.B, regs.C, regs.D, regs.E, regs.H, regs.L = 0xa5, 0xf0, 0xb6, 0xc7, 0xd8, 0xe9, 0x5a, 0x6b
		m.CPU.XSetRegs(regs)
		for k := 0; k < 160; k++ {
			m.OAM.XPoke(k, 0)
		}
		hi := map[uint8]uint8{0xc5: regs.B, 0xd5: regs.D, 0xe5: regs.H, 0xf5: regs.A}[op]
		lo := map[uint8]uint8{0xc5: regs.C, 0xd5: regs.E, 0xe5: regs.L, 0xf5: regs.F}[op]
		for cyc := 1; cyc <= 4; cyc++ {
			if m.Mem.Read(0xff41)&3 == 2 {
				c.Count("push_into_oam_in_mode2", 1)
			}
			m.Step()
			snap := m.OAM.XSnapshot()
			for k, b := range snap {
				early := (b == hi && cyc < 3) || (b == lo && cyc < 4)
				stray := b != 0 && b != hi && b != lo
				if early || stray {
					c.Violate("push-into-oam-store-cycle", fmt.Sprintf("opcode %02X with SP=%04X, LCD on, started %d cycles into the program's line phase, OAM all zero before: after machine cycle %d of the instruction [FE%02X] holds %02X (the high byte %02X is stored in cycle 3 to %04X, the low byte %02X in cycle 4 to %04X)", op, sp, phase, cyc, k, b, hi, sp-1, lo, sp-2), nil)
					return
				}
			}
		}
		c.Count("push_into_oam_cases", 1)
		c.Exact(1)
	})
}
