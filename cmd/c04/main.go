// C04 — interrupts are dispatched by priority exactly when enabled and requested.
//
// The lock-step monitor (internal/lockstep) carries a reference interrupt controller: at each
// instruction boundary with IME set and IE & IF != 0 the next five machine cycles must be a
// dispatch (return address pushed, IME cleared, exactly the highest-priority IF bit cleared,
// PC at its vector); otherwise no dispatch may happen and IF/IE may change only through the
// instruction's own writes and newly raised requests. EI enables only after the following
// instruction; DI and RETI act immediately.
//
// Workloads: (a) every IME x IE x IF boundary state x several following instructions;
// (b) all instruction sequences up to a bounded length over {EI, DI, RETI, NOP, INC B, LD A,n,
// LDH (IF),A, LDH (IE),A} with requests raised through the hardware request path at every
// machine-cycle offset; (c) generated programs with live timer/LCD sources and the interrupt
// ROMs.
package main

import (
	"fmt"

	"verif/internal/lockstep"
	"verif/internal/prog"
	"verif/internal/ref"
	"verif/internal/rig"
	"verif/internal/romrun"
)

func toX(r ref.Regs) (x struct {
	A, B, C, D, E, F, H, L uint8
	SP, PC                 uint16
}) {
	x.A, x.B, x.C, x.D, x.E, x.F, x.H, x.L, x.SP, x.PC = r.A, r.B, r.C, r.D, r.E, r.F, r.H, r.L, r.SP, r.PC
	return
}

func newMachine() *rig.Machine {
	rom := rig.BlankROM(0x00, 0, 0)
	rig.Put(rom, 0x40, 0x0c, 0xd9) // INC C; RETI
	rig.Put(rom, 0x48, 0x14, 0xc9) // INC D; RET
	rig.Put(rom, 0x50, 0x1c, 0xd9) // INC E; RETI
	rig.Put(rom, 0x58, 0x00, 0xc9) // NOP; RET
	rig.Put(rom, 0x60, 0x2c, 0xd9) // INC L; RETI
	m := rig.MustNew(rom, rig.Opts{})
	m.Quiet()
	m.Mem.Write(0xff07, 0x00) // timer off
	m.Mem.Write(0xff26, 0x00) // sound off
	return m
}

// arm prepares the persistent machine for one run.
func arm(m *rig.Machine, ime bool, ie, iff uint8, regs ref.Regs) *lockstep.Follower {
	m.CPU.XResetToBoundary()
	m.CPU.XSetRegs(toX(regs))
	m.Mem.Write(0xffff, ie)
	m.Mem.Write(0xff0f, iff)
	if ime {
		m.IRQ.Enable()
	} else {
		m.IRQ.Disable()
	}
	return lockstep.New(m)
}

type instr struct {
	name string
	code func(r *rig.Rng) []byte
	cyc  int
	reti bool
}

var alphabet = []instr{
	{"EI", func(*rig.Rng) []byte { return []byte{0xfb} }, 1, false},
	{"DI", func(*rig.Rng) []byte { return []byte{0xf3} }, 1, false},
	{"RETI", func(*rig.Rng) []byte { return []byte{0xd9} }, 4, true},
	{"NOP", func(*rig.Rng) []byte { return []byte{0x00} }, 1, false},
	{"INC B", func(*rig.Rng) []byte { return []byte{0x04} }, 1, false},
	{"LD A,n", func(r *rig.Rng) []byte { return []byte{0x3e, r.U8()} }, 2, false},
	{"LDH (IF),A", func(*rig.Rng) []byte { return []byte{0xe0, 0x0f} }, 3, false},
	{"LDH (IE),A", func(*rig.Rng) []byte { return []byte{0xe0, 0xff} }, 3, false},
	// a conditional jump (taken or not, as the flags happen to be; displacement 0) and a
	// prefixed instruction: boundaries like any other
	{"JR cc,+0", func(r *rig.Rng) []byte { return []byte{r.Pick8([]uint8{0x20, 0x28, 0x30, 0x38}), 0x00} }, 3, false},
	{"SWAP A", func(*rig.Rng) []byte { return []byte{0xcb, 0x37} }, 2, false},
}

func run(c *rig.Ctx) {
	c.Require("boundary_states", "sequence_runs", "dispatches_observed", "ei_retired", "reti_retired", "di_retired",
		"requests_injected_mid_instruction", "program_dispatches", "rom_dispatches")
	m := newMachine()
	var disp, eis, retis, dis int64
	attach := func(f *lockstep.Follower, what func() any) {
		f.Violate = func(prop, class, msg string) {
			if prop == "C04" {
				c.Violate(class, msg, what())
			}
		}
		f.OnRetire = func(r *lockstep.Retired) {
			switch {
			case r.Kind == lockstep.UnitDispatch:
				disp++
			case r.Kind == lockstep.UnitInstr && !r.CB && r.Op == 0xfb:
				eis++
			case r.Kind == lockstep.UnitInstr && !r.CB && r.Op == 0xd9:
				retis++
			case r.Kind == lockstep.UnitInstr && !r.CB && r.Op == 0xf3:
				dis++
			}
		}
	}

	// (a) every boundary state
	following := [][]byte{{0x00}, {0x04}, {0x7e}, {0xcd, 0x00, 0xc1}, {0x3e, 0x55}, {0xcb, 0x37}, {0xfb}, {0xf3}, {0x76}}
	c.Part("boundary", 2*32*32, func(i int64, r *rig.Rng) {
		ime := i&1 != 0
		ie := uint8(i>>1) & 0x1f
		iff := uint8(i>>6) & 0x1f
		for hi := 0; hi < 2; hi++ {
			for k, fol := range following {
				if fol[0] == 0x76 && !ime {
					continue // HALT with IME clear is C05's business
				}
				ieW := ie
				if hi == 1 {
					ieW |= r.U8() & 0xe0
				}
				regs := ref.Regs{A: r.U8(), F: r.U8() & 0xf0, B: r.U8(), C: r.U8(), D: r.U8(), E: r.U8(), SP: 0xdff0 - uint16(r.Intn(8))*2, PC: 0xc000 + uint16(r.Intn(0x40))}
				regs.SetHL(0xd000 + uint16(r.Intn(0x100)))
				for a := 0; a < 16; a++ {
					m.Mem.Write(regs.PC+uint16(a), 0)
				}
				for a, b := range fol {
					m.Mem.Write(regs.PC+uint16(a), b)
				}
				m.Mem.Write(0xc100, 0xc9) // CALL target: RET
				f := arm(m, ime, ieW, iff, regs)
				attach(f, func() any {
					return map[string]any{"ime": ime, "ie": ieW, "if": iff, "following": fmt.Sprintf("% X", fol), "regs": regs}
				})
				f.RunCycles(24)
				c.Exact(1)
				c.Count("boundary_states", 1)
				if i == 5 && hi == 0 && k == 0 {
					c.Sample(map[string]any{"class": "boundary", "ime": ime, "ie": ieW, "if": iff, "following": fmt.Sprintf("% X", fol)})
				}
			}
		}
	})
	c.MarkExhaustive("IME x IE(5 bits) x IF(5 bits) x 9 following instructions")

	// (b) all sequences up to length L with requests at every cycle offset
	L := int(c.N(4, 5))
	var total int64
	pow := int64(1)
	starts := []int64{0}
	for l := 1; l <= L; l++ {
		pow *= int64(len(alphabet))
		total += pow
		starts = append(starts, total)
	}
	c.Part("sequences", total, func(i int64, r *rig.Rng) {
		// decode index -> (length, digits)
		l := 1
		for i >= starts[l] {
			l++
		}
		idx := i - starts[l-1]
		seq := make([]int, l)
		for k := 0; k < l; k++ {
			seq[k] = int(idx % int64(len(alphabet)))
			idx /= int64(len(alphabet))
		}
		var code []byte
		var retAddrs []uint16
		base := uint16(0xc000)
		cycles := 0
		for _, s := range seq {
			b := alphabet[s].code(r)
			code = append(code, b...)
			cycles += alphabet[s].cyc
			if alphabet[s].reti {
				retAddrs = append(retAddrs, base+uint16(len(code)))
			}
		}
		names := ""
		for _, s := range seq {
			names += alphabet[s].name + "; "
		}
		variants := int(c.N(2, 4))
		for ime := 0; ime < 2; ime++ {
			for off := 0; off <= cycles+1; off++ {
				for v := 0; v < variants; v++ {
					bits := uint8(1) << uint(r.Intn(5))
					off2, bits2 := -1, uint8(0)
					if v%2 == 1 {
						off2 = r.Intn(cycles + 2)
						bits2 = uint8(1) << uint(r.Intn(5))
					}
					ie := r.U8() & 0x1f
					if r.Chance(2, 3) {
						ie |= bits
					}
					iff := uint8(0)
					if r.Chance(1, 4) {
						iff = r.U8() & 0x1f
					}
					regs := ref.Regs{A: r.U8(), F: r.U8() & 0xf0, B: r.U8(), C: r.U8(), D: r.U8(), E: r.U8(), H: 0xd1, L: r.U8(), SP: 0xd800, PC: base}
					for a := 0; a < len(code)+24; a++ {
						m.Mem.Write(base+uint16(a), 0)
					}
					for a, b := range code {
						m.Mem.Write(base+uint16(a), b)
					}
					for k, ra := range retAddrs {
						m.Mem.Write(regs.SP+uint16(2*k), uint8(ra))
						m.Mem.Write(regs.SP+uint16(2*k)+1, uint8(ra>>8))
					}
					f := arm(m, ime == 1, ie, iff, regs)
					attach(f, func() any {
						return map[string]any{"sequence": names, "code": fmt.Sprintf("% X", code), "ime": ime, "ie": ie, "if": iff,
							"request": fmt.Sprintf("%02X after %d cycles", bits, off), "request2": fmt.Sprintf("%02X after %d cycles", bits2, off2)}
					})
					for cyc := 0; cyc < cycles+36; cyc++ {
						if cyc == off {
							if !f.AtBoundary() {
								c.Count("requests_injected_mid_instruction", 1)
							}
							f.Inject(bits)
						}
						if cyc == off2 {
							f.Inject(bits2)
						}
						if !f.Cycle() {
							break
						}
					}
					h := rig.NewHasher()
					h.B(code)
					h.U(uint64(ime)<<40 | uint64(ie)<<32 | uint64(iff)<<24 | uint64(bits)<<16 | uint64(off)<<8 | uint64(bits2))
					h.U(uint64(off2 + 1))
					c.Case(h.Sum())
					c.Count("sequence_runs", 1)
				}
			}
		}
		if i%997 == 0 {
			c.Sample(map[string]any{"class": "sequence", "sequence": names, "code": fmt.Sprintf("% X", code)})
		}
	})
	c.MarkExhaustive(fmt.Sprintf("all instruction sequences of length <= %d over the 10-instruction alphabet (request schedules sampled per sequence at every cycle offset)", L))
	c.Count("dispatches_observed", disp)
	c.Count("ei_retired", eis)
	c.Count("reti_retired", retis)
	c.Count("di_retired", dis)

	// (c) generated programs with live hardware sources
	nprog := c.N(300, 6000)
	c.Part("programs", nprog, func(i int64, r *rig.Rng) {
		p := prog.Generate(r, prog.Options{Interrupts: true, AllOpcodes: i%2 == 0, Hardware: i%3 == 0, Stops: i%2 == 1})
		if i%6 == 5 {
			p = prog.IdleLoops(r) // wait-for-interrupt loops instead of HALT
			c.Count("idle_loop_programs", 1)
		}
		// one program in five runs with the CPU trace option on
		popts := rig.Opts{}
		if i%5 == 3 {
			popts.DebugCPU = true
			defer rig.QuietStdout()()
			c.Count("programs_with_cpu_trace", 1)
		}
		pm := rig.MustNew(p.ROM, popts)
		f := lockstep.New(pm)
		f.Violate = func(prop, class, msg string) {
			if prop == "C04" {
				c.Violate("program-"+class, msg, map[string]any{"program": p.Describe()})
			}
		}
		f.ThroughStop = i%2 == 1
		if i%2 == 1 {
			// key events at random machine cycles: they are no business of the CPU's
			_, keys := f.RunCyclesWithKeys(int(c.N(20000, 60000)), r, 250)
			c.Count("key_events_during_programs", int64(keys))
		} else {
			f.RunCycles(int(c.N(20000, 60000)))
		}
		c.Count("program_dispatches", f.Dispatches)
		c.Count("program_instructions", f.Instrs)
		c.Eval(f.Instrs + f.Dispatches)
		c.DistinctOnly(p.Hash)
	})

	oddStackDispatch(c)

	roms := romrun.Select("02-interrupts", "intr_timing", "ei_sequence", "ei_timing", "rapid_di_ei", "reti_intr_timing", "if_ie_registers", "di_timing", "halt_ime", "cpu_instrs/cpu_instrs.gb", "timer/tim", "acceptance/ppu/")
	romrun.FollowROMs(c, "roms", roms, romrun.FollowOpts{Props: []string{"C04"}, Verdict: true})
}

func main() {
	rig.Main(rig.Spec{
		ID:  "C04",
		Run: run,
		Rule: "boundary cases: (IME, IE, IF, following instruction) enumerated completely; sequence cases: (instruction sequence, IME, IE, IF, request bits and cycle offsets), " +
			"all sequences up to the length bound with every cycle offset, distinct by code+state+schedule; program/ROM cases: retired units of generated programs and interrupt ROMs",
		Assumptions: []string{"reference interrupt controller: decision at instruction boundaries from IME/IE/IF as visible there; a request raised during the dispatch itself may be the one served (either accepted)",
			"EI immediately followed by HALT, and the master enable inside a handler entered right after EI executed with IME already set, are outside the statement (re-synchronised, counted)",
			"requests are raised through interrupts.Request*(), the path the hardware components use"},
	})
}
