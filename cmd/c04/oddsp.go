package main

// Dispatch with the stack pointer where the pushed return address lands on IE, IF or their
// neighbours. The statement makes no exception: the interrupt chosen is the highest-priority
// one enabled and requested at the boundary, the CPU continues at its vector after five cycles
// with the master enable clear, and (where the push does not overwrite IF itself) exactly that
// request bit is cleared. Return addresses with high bits set (code at 2000+, E000+) put 1s into
// the unused bits of IE/IF.

import (
	"fmt"

	"verif/internal/lockstep"
	"verif/internal/rig"
)

func oddStackDispatch(c *rig.Ctx) {
	c.Require("odd_stack_dispatches")
	sps := []uint16{0x0000, 0x0001, 0x0002, 0xff10, 0xff11, 0xff12, 0xff0f, 0xfffe, 0xffff, 0xff01}
	pcs := []uint16{0x0150, 0x2345, 0x3fe0, 0x7f1f, 0xc0e0, 0xdfff, 0xff80}
	c.Part("odd-stack", int64(len(sps)*len(pcs)), func(i int64, r *rig.Rng) {
		sp := sps[i%int64(len(sps))]
		pc := pcs[i/int64(len(sps))]
		for ie := 1; ie < 32; ie++ {
			for _, iff := range []uint8{uint8(ie), 0x1f, uint8(ie) | uint8(r.Intn(32))} {
				m := rig.MustNew(rig.BlankROM(0, 0, 0), rig.Opts{})
				m.Quiet()
				m.Mem.Write(0xff07, 0)
				for k := 0; k < 4; k++ {
					m.Step()
				}
				m.CPU.XResetToBoundary()
				regs := m.CPU.XGetRegs()
				regs.PC, regs.SP = pc, sp
				m.CPU.XSetRegs(regs)
				m.Mem.Write(0xffff, uint8(ie)|r.U8()&0xe0)
				m.Mem.Write(0xff0f, iff)
				m.IRQ.Enable()
				pend := uint8(ie) & iff & 0x1f
				bit := pend & -pend
				want := map[uint8]uint16{1: 0x40, 2: 0x48, 4: 0x50, 8: 0x58, 16: 0x60}[bit]
				n := 0
				for {
					m.Step()
					n++
					if m.CPU.XAtBoundary() || n > 8 {
						break
					}
				}
				got := lockstep.Regs(m)
				c.Count("odd_stack_dispatches", 1)
				ctxt := fmt.Sprintf("PC=%04X SP=%04X IE=%02X IF=%02X, master enable set", pc, sp, ie, iff)
				switch {
				case n != 5:
					c.Violate("odd-stack-dispatch-length", fmt.Sprintf("%s: the dispatch took %d machine cycles, want 5", ctxt, n), nil)
					return
				case got.PC != want:
					c.Violate("odd-stack-dispatch-vector", fmt.Sprintf("%s: continued at %04X, want the vector %04X of request bit %02X", ctxt, got.PC, want, bit), nil)
					return
				case got.SP != sp-2:
					c.Violate("odd-stack-dispatch-sp", fmt.Sprintf("%s: SP=%04X after the dispatch, want %04X", ctxt, got.SP, sp-2), nil)
					return
				case m.IRQ.Enabled():
					c.Violate("odd-stack-dispatch-ime", fmt.Sprintf("%s: the master enable is still set after the dispatch", ctxt), nil)
					return
				}
				if sp != 0xff10 && sp != 0xff11 {
					if gotIF := m.Mem.Read(0xff0f) & 0x1f; gotIF != iff&0x1f&^bit {
						c.Violate("odd-stack-dispatch-if", fmt.Sprintf("%s: IF reads %02X after the dispatch, want %02X (exactly bit %02X cleared)", ctxt, gotIF, iff&0x1f&^bit, bit), nil)
						return
					}
				}
			}
		}
		c.Exact(1)
	})
}
