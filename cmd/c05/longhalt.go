package main

import (
	"fmt"

	"verif/internal/rig"
)

// longHalt: HALT lasts until an enabled request arrives, however long that takes. The machine
// idles for more than 2^20 (quick) or 2^24 (one thorough case) machine cycles with nothing
// enabled pending - requests that are not enabled keep arriving (V-blank every frame, the
// timer) - and must still be halted, at the same PC, with the same registers; then an enabled
// request arrives and it must wake within the documented cycles.
func longHalt(c *rig.Ctx) {
	c.Require("long_halt_runs", "long_halt_idle_cycles")
	c.Part("long-halt", 4, func(i int64, r *rig.Rng) {
		rom := rig.BlankROM(0, 0, 0)
		rig.Put(rom, 0x50, 0x1c, 0xd9) // timer: INC E; RETI
		rig.Put(rom, 0x100, 0x00, 0xc3, 0x50, 0x01)
		ime := i%2 == 0
		pc := 0x150
		emit := func(b ...byte) { copy(rom[pc:], b); pc += len(b) }
		emit(0x31, 0xf0, 0xdf)
		emit(0x3e, 0x04, 0xe0, 0xff) // IE = timer only
		emit(0x3e, 0x00, 0xe0, 0x07) // timer stopped
		if ime {
			emit(0xfb)
		} else {
			emit(0xf3)
		}
		emit(0x00)
		haltAt := pc
		emit(0x76, 0x04, 0x18, 0xfe) // HALT; INC B; JR self
		m := rig.MustNew(rom, rig.Opts{})
		for k := 0; k < 200 && !m.CPU.XHalted(); k++ {
			m.Step()
		}
		if !m.CPU.XHalted() {
			c.Violate("long-halt-not-entered", "HALT with nothing pending did not halt the CPU", nil)
			return
		}
		n := int64(1<<20 + 70000)
		if i == 3 && c.Thorough() {
			n = 1<<24 + 70000
		}
		regs := m.CPU.XGetRegs()
		for k := int64(0); k < n; k++ {
			m.Step()
			if !m.CPU.XHalted() || m.CPU.XGetRegs() != regs {
				c.Violate("long-halt-ends-by-itself", fmt.Sprintf("HALT at %04X (IME=%v, IE=04, timer stopped, V-blank requests arriving unenabled): after %d idle machine cycles the CPU is no longer halted or its registers changed (%+v, were %+v)", haltAt, ime, k+1, m.CPU.XGetRegs(), regs), nil)
				return
			}
		}
		c.Count("long_halt_idle_cycles", n)
		// now the enabled request: the CPU must leave HALT and (IME set) run the handler
		m.IRQ.RequestTimer()
		for k := 0; k < 12; k++ {
			m.Step()
		}
		got := m.CPU.XGetRegs()
		if m.CPU.XHalted() || (ime && got.E != regs.E+1) || (!ime && got.B != regs.B+1) {
			c.Violate("long-halt-wake", fmt.Sprintf("after %d idle cycles an enabled timer request arrived (IME=%v): 12 cycles later halted=%v, registers %+v (before %+v)", n, ime, m.CPU.XHalted(), got, regs), nil)
			return
		}
		c.Count("long_halt_runs", 1)
		c.Exact(1)
	})
}

// idleLengths: how a HALT ends does not depend on how long the CPU has been idle. For every
// idle length 0..1100 (past any 8-bit count, and a few in the thousands) the CPU halts with IME
// set, the request arrives after exactly that many idle cycles, and the number of machine cycles
// until the handler's first instruction has executed must be the same as for the shortest idle.
func idleLengths(c *rig.Ctx) {
	c.Require("idle_length_cases")
	lens := []int{}
	for n := 0; n <= 1100; n++ {
		lens = append(lens, n)
	}
	lens = append(lens, 4095, 4096, 65535, 65536, 65537)
	c.Part("idle-lengths", int64(len(lens)), func(i int64, r *rig.Rng) {
		n := lens[i]
		measure := func(idle int, ime bool) (int, string) {
			rom := rig.BlankROM(0, 0, 0)
			rig.Put(rom, 0x50, 0x1c, 0xd9) // timer: INC E; RETI
			rig.Put(rom, 0x100, 0x00, 0xc3, 0x50, 0x01)
			en := uint8(0xf3)
			if ime {
				en = 0xfb
			}
			rig.Put(rom, 0x150, 0xf3, 0xaf, 0xe0, 0x0f, 0x31, 0xf0, 0xdf, 0x3e, 0x04, 0xe0, 0xff, 0xaf, 0xe0, 0x07, en, 0x00, 0x76, 0x04, 0x18, 0xfe)
			m := rig.MustNew(rom, rig.Opts{})
			for k := 0; k < 300 && !m.CPU.XHalted(); k++ {
				m.Step()
			}
			if !m.CPU.XHalted() {
				return -1, "HALT with nothing pending did not halt"
			}
			for k := 0; k < idle; k++ {
				m.Step()
			}
			if !m.CPU.XHalted() {
				return -1, "the CPU left HALT with nothing enabled pending"
			}
			b0, e0 := m.CPU.XGetRegs().B, m.CPU.XGetRegs().E
			m.IRQ.RequestTimer()
			for k := 1; k <= 20; k++ {
				m.Step()
				x := m.CPU.XGetRegs()
				if (ime && x.E != e0) || (!ime && x.B != b0) {
					return k, ""
				}
			}
			return -1, "no wake-up within 20 cycles of the request"
		}
		for _, ime := range []bool{true, false} {
			base, msg := measure(3, ime)
			got, msg2 := measure(n, ime)
			if msg == "" {
				msg = msg2
			}
			if msg != "" || got != base {
				c.Violate("halt-exit-depends-on-idle-length", fmt.Sprintf("HALT with IME=%v idle for %d machine cycles before the enabled request: %d cycles from the request to the first instruction executed after it, %d after 3 idle cycles %s", ime, n, got, base, msg), nil)
				return
			}
		}
		c.Count("idle_length_cases", 1)
		c.Exact(1)
	})
}
