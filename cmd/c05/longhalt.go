package main

import (
	"fmt"

	"verif/internal/rig"
)

// longHalt: HALT lasts until an enabled request arrives, however long that takes. The machine
// idles for more than 2^20 (quick) or 2^24 (one thorough case) machine cycles with nothing
// enabled pending - requests that are not enabled keep arriving (V-blank every frame, the
// timer) - and must still be halted, at the same PC, with the same registers; then an enabled
// request arrives and it must wake within the documented cycles.
func longHalt(c *rig.Ctx) {
	c.Require("long_halt_runs", "long_halt_idle_cycles")
	c.Part("long-halt", 4, func(i int64, r *rig.Rng) {
		rom := rig.BlankROM(0, 0, 0)
		rig.Put(rom, 0x50, 0x1c, 0xd9) // timer: INC E; RETI
		rig.Put(rom, 0x100, 0x00, 0xc3, 0x50, 0x01)
		ime := i%2 == 0
		pc := 0x150
		emit := func(b ...byte) { copy(rom[pc:], b); pc += len(b) }
		emit(0x31, 0xf0, 0xdf)
		emit(0x3e, 0x04, 0xe0, 0xff) // IE = timer only
		emit(0x3e, 0x00, 0xe0, 0x07) // timer stopped
		if ime {
			emit(0xfb)
		} else {
			emit(0xf3)
		}
		emit(0x00)
		haltAt := pc
		emit(0x76, 0x04, 0x18, 0xfe) // HALT; INC B; JR self
		m := rig.MustNew(rom, rig.Opts{})
		for k := 0; k < 200 && !m.CPU.XHalted(); k++ {
			m.Step()
		}
		if !m.CPU.XHalted() {
			c.Violate("long-halt-not-entered", "HALT with nothing pending did not halt the CPU", nil)
			return
		}
		n := int64(1<<20 + 70000)
		if i == 3 && c.Thorough() {
			n = 1<<24 + 70000
		}
		regs := m.CPU.XGetRegs()
		for k := int64(0); k < n; k++ {
			m.Step()
			if !m.CPU.XHalted() || m.CPU.XGetRegs() != regs {
				c.Violate("long-halt-ends-by-itself", fmt.Sprintf("HALT at %04X (IME=%v, IE=04, timer stopped, V-blank requests arriving unenabled): after %d idle machine cycles the CPU is no longer halted or its registers changed (%+v, were %+v)", haltAt, ime, k+1, m.CPU.XGetRegs(), regs), nil)
				return
			}
		}
		c.Count("long_halt_idle_cycles", n)
		// now the enabled request: the CPU must leave HALT and (IME set) run the handler
		m.IRQ.RequestTimer()
		for k := 0; k < 12; k++ {
			m.Step()
		}
		got := m.CPU.XGetRegs()
		if m.CPU.XHalted() || (ime && got.E != regs.E+1) || (!ime && got.B != regs.B+1) {
			c.Violate("long-halt-wake", fmt.Sprintf("after %d idle cycles an enabled timer request arrived (IME=%v): 12 cycles later halted=%v, registers %+v (before %+v)", n, ime, m.CPU.XHalted(), got, regs), nil)
			return
		}
		c.Count("long_halt_runs", 1)
		c.Exact(1)
	})
}
