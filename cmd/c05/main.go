// C05 — HALT idles until an enabled request and reproduces the halt bug.
//
// The lock-step monitor's reference: HALT with IME set -> idle (no architectural change at
// all) until IE & IF != 0, then a six-cycle dispatch whose return address is the byte after
// HALT; HALT with IME clear and nothing pending -> idle, then execution resumes at the
// following instruction without dispatching or clearing the request; HALT with IME clear and
// a request pending -> no idle, and the next opcode byte is fetched without advancing PC.
//
// Workload: HALT x IME x pending-at-HALT (none, each source, several) x every defined
// following opcode x idle lengths 0..48 before the request is raised (through the request
// path and, separately, by the real timer), plus unenabled requests that must not wake the
// CPU; generated programs; blargg halt_bug and the mooneye halt_* ROMs.
package main

import (
	"fmt"

	"verif/internal/lockstep"
	"verif/internal/prog"
	"verif/internal/ref"
	"verif/internal/rig"
	"verif/internal/romrun"
)

func toX(r ref.Regs) (x struct {
	A, B, C, D, E, F, H, L uint8
	SP, PC                 uint16
}) {
	x.A, x.B, x.C, x.D, x.E, x.F, x.H, x.L, x.SP, x.PC = r.A, r.B, r.C, r.D, r.E, r.F, r.H, r.L, r.SP, r.PC
	return
}

func newMachine() *rig.Machine { return newMachineOpts(rig.Opts{}) }

func newMachineOpts(o rig.Opts) *rig.Machine {
	rom := rig.BlankROM(0x00, 0, 0)
	rig.Put(rom, 0x40, 0x0c, 0xd9) // INC C; RETI
	rig.Put(rom, 0x48, 0x14, 0xc9) // INC D; RET
	rig.Put(rom, 0x50, 0x1c, 0xd9) // INC E; RETI
	rig.Put(rom, 0x58, 0x00, 0xc9) // NOP; RET
	rig.Put(rom, 0x60, 0x2c, 0xd9) // INC L; RETI
	rig.Put(rom, 0x100, 0x00, 0xc3, 0x50, 0x01)
	m := rig.MustNew(rom, o)
	m.Quiet()
	m.Mem.Write(0xff07, 0x00)
	m.Mem.Write(0xff26, 0x00)
	return m
}

func run(c *rig.Ctx) {
	c.Require("halt_runs", "halt_idle_cycles", "halt_wake_dispatch", "halt_wake_ime0", "halt_bug_runs", "unenabled_request_runs", "timer_wake_runs", "rom_halt_idle_cycles", "key_press_while_halted_runs", "program_key_presses")
	m := newMachine()
	var follow [][]byte
	for op := 0; op < 256; op++ {
		if ref.IsUndefined(uint8(op)) || op == 0x10 || op == 0xcb {
			continue
		}
		follow = append(follow, []byte{uint8(op)})
	}
	for _, cb := range []uint8{0x00, 0x37, 0x46, 0x86, 0xc7, 0xfe} {
		follow = append(follow, []byte{0xcb, cb})
	}
	pendKinds := []uint8{0x00, 0x01, 0x02, 0x04, 0x08, 0x10, 0x05, 0x1f}
	reps := int(c.N(1, 12))
	var idleCycles, wakeDisp, wakes, bugs int64
	mTrace := newMachineOpts(rig.Opts{DebugCPU: true})
	mPlain := m
	c.Part("halt", int64(len(follow))*2*int64(len(pendKinds)), func(i int64, r *rig.Rng) {
		// every third case on a machine with the CPU trace option on
		m := mPlain
		if i%3 == 2 {
			m = mTrace
			defer rig.QuietStdout()()
			c.Count("halt_cases_with_cpu_trace", 1)
		}
		fol := follow[i/int64(2*len(pendKinds))]
		k := int(i % int64(2*len(pendKinds)))
		ime := k&1 != 0
		pend := pendKinds[k>>1]
		idles := []int{0}
		if pend == 0 {
			idles = idles[:0]
			for d := 0; d <= 48; d++ {
				idles = append(idles, d)
			}
		}
		for _, idle := range idles {
			for rep := 0; rep < reps; rep++ {
				regs := ref.Regs{A: r.U8(), F: r.U8() & 0xf0, B: r.U8(), C: 0x80 + uint8(r.Intn(0x70)), D: r.U8(), E: r.U8(), SP: 0xd800, PC: 0xc000 + uint16(r.Intn(0x20))}
				regs.SetHL(0xd100 + uint16(r.Intn(0x80)))
				if fol[0] == 0x02 || fol[0] == 0x0a || fol[0] == 0x03 || fol[0] == 0x0b {
					regs.SetBC(0xd200 + uint16(r.Intn(0x80)))
				}
				if fol[0] == 0x12 || fol[0] == 0x1a {
					regs.SetDE(0xd300 + uint16(r.Intn(0x80)))
				}
				if fol[0] == 0xe9 {
					regs.SetHL(0xc090)
				}
				for a := 0; a < 0x100; a++ {
					m.Mem.Write(0xc000+uint16(a), 0)
				}
				code := []byte{0x76}
				code = append(code, fol...)
				n := ref.Length(fol[0])
				switch {
				case fol[0] == 0xcb:
				case n == 2:
					v := r.U8()
					if fol[0] == 0xe0 || fol[0] == 0xf0 {
						v = 0x80 + uint8(r.Intn(0x70))
					}
					if fol[0]&0xc7 == 0 && fol[0] >= 0x18 { // JR
						v = uint8(r.Intn(0x30))
					}
					code = append(code, v)
				case n == 3:
					code = append(code, 0x80, 0xc0) // nn = C080 (inside the NOP sled)
				}
				for a, b := range code {
					m.Mem.Write(regs.PC+uint16(a), b)
				}
				m.Mem.Write(0xc080, 0x00)
				m.Mem.Write(regs.SP, 0x90) // return address for RET/RETI/POP
				m.Mem.Write(regs.SP+1, 0xc0)
				// interrupt state
				src := uint8(1) << uint(r.Intn(5))
				ie := pend
				if pend == 0 {
					ie = src
					if r.Chance(1, 3) {
						ie |= r.U8() & 0x1f
					}
				} else if r.Chance(1, 2) {
					ie |= r.U8() & 0x1f
				}
				iff := pend
				// the three unused IE bits are writable and must play no part in any decision
				if r.Chance(1, 2) {
					ie |= r.U8() & 0xe0
					c.Count("runs_with_ie_high_bits", 1)
				}
				m.CPU.XResetToBoundary()
				m.CPU.XSetRegs(toX(regs))
				// IE and IF are written in either order (whichever comes last, the decision
				// is made from both)
				if (rep+idle+k)%2 == 0 {
					m.Mem.Write(0xffff, ie)
					m.Mem.Write(0xff0f, iff)
				} else {
					m.Mem.Write(0xff0f, iff)
					m.Mem.Write(0xffff, ^ie) // first something else, so that the final store changes IE
					m.Mem.Write(0xffff, ie)
				}
				m.Mem.Write(0xff07, 0)
				if ime {
					m.IRQ.Enable()
				} else {
					m.IRQ.Disable()
				}
				f := lockstep.New(m)
				f.Violate = func(prop, class, msg string) {
					if prop == "C05" || (prop == "C04" && class != "ime-mismatch") || prop == "C01" || prop == "C02" {
						c.Violate(fmt.Sprintf("halt-%s-%s", prop, class), msg, map[string]any{"ime": ime, "pending_at_halt": pend, "ie": ie, "following": fmt.Sprintf("% X", fol),
							"idle_cycles_before_request": idle, "regs": regs})
					}
				}
				mode := "request"
				unenabled := uint8(0)
				if pend == 0 && (rep+idle)%3 == 1 {
					mode = "timer"
				}
				if pend == 0 && (rep+idle)%3 == 2 {
					unenabled = ^ie & 0x1f
					if unenabled != 0 {
						c.Count("unenabled_request_runs", 1)
					}
				}
				if mode == "timer" {
					// the real timer raises the request: fastest rate, overflow after about idle/4 increments
					ie |= 0x04
					m.Mem.Write(0xffff, ie)
					m.Mem.Write(0xff04, 0)
					m.Mem.Write(0xff06, 0x00)
					m.Mem.Write(0xff05, 0xff-uint8(idle/4))
					m.Mem.Write(0xff07, 0x05)
					c.Count("timer_wake_runs", 1)
				}
				// a key going down while the CPU idles (the front end's OnInput callback: it ends
				// STOP, and must leave HALT alone - only an enabled request ends HALT)
				keyAt := -1
				if pend == 0 && idle >= 2 && (rep+idle)%5 == 3 {
					keyAt = 1 + idle/3
					c.Count("key_press_while_halted_runs", 1)
				}
				for cyc := 0; cyc < idle+70; cyc++ {
					if cyc == keyAt {
						m.CPU.OnInput()
					}
					if mode == "request" && pend == 0 {
						if unenabled != 0 && cyc == 1+idle/2 {
							f.Inject(unenabled)
						}
						if cyc == 1+idle {
							f.Inject(src)
						}
					}
					if !f.Cycle() {
						break
					}
				}
				idleCycles += f.IdleCycles
				wakes += f.Wakes
				bugs += f.HaltBugs
				if f.Dispatches > 0 {
					wakeDisp++
				}
				h := rig.NewHasher()
				h.B(code)
				h.U(uint64(k)<<32 | uint64(idle)<<16 | uint64(ie)<<8 | uint64(src))
				h.U(uint64(regs.PC)<<8 | uint64(rep))
				c.Case(h.Sum())
				c.Count("halt_runs", 1)
				if pend != 0 && !ime {
					c.Count("halt_bug_runs", 1)
				}
			}
		}
		if i%331 == 0 {
			c.Sample(map[string]any{"class": "halt", "ime": ime, "pending_at_halt": pend, "following": fmt.Sprintf("% X", fol)})
		}
	})
	c.MarkExhaustive("IME x pending-at-HALT kinds x every defined following opcode x idle lengths 0..48")
	c.Count("halt_idle_cycles", idleCycles)
	c.Count("halt_wake_dispatch", wakeDisp)
	c.Count("halt_wake_ime0", wakes)
	c.Count("halt_bug_retired", bugs)

	nprog := c.N(200, 4000)
	c.Part("programs", nprog, func(i int64, r *rig.Rng) {
		p := prog.Generate(r, prog.Options{Interrupts: true, Hardware: i%3 == 0})
		if i%6 == 5 {
			p = prog.IdleLoops(r) // wait-for-interrupt loops instead of HALT
			c.Count("idle_loop_programs", 1)
		}
		pm := rig.MustNew(p.ROM, rig.Opts{})
		f := lockstep.New(pm)
		f.Violate = func(prop, class, msg string) {
			if prop == "C05" {
				c.Violate("program-"+class, msg, map[string]any{"program": p.Describe()})
			}
		}
		// key presses arrive at random times (OnInput is what the front end calls)
		for n := int(c.N(20000, 60000)); n > 0; n-- {
			if r.Chance(1, 700) {
				pm.CPU.OnInput()
				c.Count("program_key_presses", 1)
			}
			if !f.Cycle() {
				break
			}
		}
		c.Count("program_idle_cycles", f.IdleCycles)
		c.Count("program_halt_bugs", f.HaltBugs)
		c.Eval(f.Instrs + f.IdleCycles)
		c.DistinctOnly(p.Hash)
	})

	longHalt(c)
	idleLengths(c)

	roms := romrun.Select("halt_bug", "halt_ime0", "halt_ime1", "02-interrupts")
	romrun.FollowROMs(c, "roms", roms, romrun.FollowOpts{Props: []string{"C05"}, Verdict: true})
}

func main() {
	rig.Main(rig.Spec{
		ID:  "C05",
		Run: run,
		Rule: "one case = (IME, requests pending at HALT, IE, following opcode bytes, idle length before the request, request source: request path / real timer / unenabled request first), " +
			"enumerated over all following opcodes and idle lengths 0..48; distinct by code+state+schedule",
		Assumptions: []string{"idle = no architectural state change (registers, PC, SP) while halted",
			"the IME=0 wake-up may cost zero or one empty machine cycle (the statement gives no count)",
			"a CB prefix as the byte after a bugged HALT and EI immediately followed by HALT are outside the statement (re-synchronised, counted)"},
	})
}
