package main

// IE, IF, work RAM and high RAM across interrupt dispatches: "plain memory for any sequence of
// reads and writes" includes the sequences in which the CPU takes an interrupt in between. For
// every source and a set of IE/IF values the guest writes IE and IF, enables interrupts, and the
// handler reads both registers back: IE must be the value written, IF the value written minus
// the acknowledged bit; a work RAM and a high RAM cell written before must be unchanged.
// Also: OAM as plain memory (LCD off) right around the end of a DMA transfer.

import (
	"fmt"

	"verif/internal/rig"
)

func dispatchPart(c *rig.Ctx) {
	c.Require("dispatch_readbacks", "oam_writes_around_dma_end")
	c.Part("dispatch", 5*32, func(i int64, r *rig.Rng) {
		b := uint(i / 32)
		ie := uint8(i%32) | 1<<b
		iff := uint8(r.Intn(32)) | 1<<b
		hi := r.U8() & 0xe0 // the unused IE bits are writable too
		rom := rig.BlankROM(0, 0, 0)
		for v := 0x40; v <= 0x60; v += 8 {
			// handler: LDH A,(FF); LD (C000),A; LDH A,(0F); LD (C001),A; LD A,5A; LD (C002),A; JR -2
			rig.Put(rom, v, 0xf0, 0xff, 0xea, 0x00, 0xc0, 0xc3, 0x00, 0x20)
		}
		rig.Put(rom, 0x2000, 0xf0, 0x0f, 0xea, 0x01, 0xc0, 0x3e, 0x5a, 0xea, 0x02, 0xc0, 0x18, 0xfe)
		rig.Put(rom, 0x100, 0x00, 0xc3, 0x50, 0x01)
		w1, w2 := r.U8(), r.U8()
		// main: DI; LD SP; LD A,w1; LD (C123),A; LD A,w2; LDH (90),A; LD A,ie; LDH (FF),A; LD A,if; LDH (0F),A; EI; NOP; NOP; JR -2
		rig.Put(rom, 0x150, 0xf3, 0x31, 0xf0, 0xdf, 0x3e, w1, 0xea, 0x23, 0xc1, 0x3e, w2, 0xe0, 0x90,
			0x3e, ie|hi, 0xe0, 0xff, 0x3e, iff, 0xe0, 0x0f, 0xfb, 0x00, 0x00, 0x18, 0xfe)
		m := rig.MustNew(rom, rig.Opts{})
		m.Mem.Write(0xff40, 0x11) // LCD off: no V-blank or STAT requests of the hardware's own
		m.Mem.Write(0xff07, 0x00)
		for k := 0; k < 400 && m.Mem.Read(0xc002) != 0x5a; k++ {
			m.Step()
		}
		if m.Mem.Read(0xc002) != 0x5a {
			c.Violate("dispatch-handler-not-reached", fmt.Sprintf("IE=%02X IF=%02X, EI: no handler ran within 400 cycles", ie|hi, iff), nil)
			return
		}
		gotIE, gotIF := m.Mem.Read(0xc000), m.Mem.Read(0xc001)
		// which source was taken: the lowest enabled and requested one
		taken := uint8(0)
		for k := uint(0); k < 5; k++ {
			if ie&iff&(1<<k) != 0 {
				taken = 1 << k
				break
			}
		}
		c.Count("dispatch_readbacks", 1)
		if gotIE != ie|hi {
			c.Violate("readback-ie-after-dispatch", fmt.Sprintf("IE written %02X, IF written %02X, interrupt %02X dispatched: the handler reads IE=%02X", ie|hi, iff, taken, gotIE), nil)
			return
		}
		if gotIF != 0xe0|iff&^taken {
			c.Violate("readback-if-after-dispatch", fmt.Sprintf("IE written %02X, IF written %02X, interrupt %02X dispatched: the handler reads IF=%02X, expected %02X", ie|hi, iff, taken, gotIF, 0xe0|iff&^taken), nil)
			return
		}
		if m.Mem.Read(0xc123) != w1 || m.Mem.Read(0xe123) != w1 || m.Mem.Read(0xff90) != w2 {
			c.Violate("readback-ram-after-dispatch", fmt.Sprintf("work RAM / high RAM cells written %02X / %02X read %02X (echo %02X) / %02X after an interrupt dispatch", w1, w2, m.Mem.Read(0xc123), m.Mem.Read(0xe123), m.Mem.Read(0xff90)), nil)
			return
		}
		c.Exact(1)
	})
	c.MarkExhaustive("each interrupt source x every IE low-bit value containing it (IF random, containing it)")

	// IF holds the last value stored, also when the hardware raised a request since the
	// previous store of the very same value
	c.Part("if-stores", 32, func(i int64, r *rig.Rng) {
		v := uint8(i)
		for src := 0; src < 5; src++ {
			m := rig.MustNew(rig.BlankROM(0, 0, 0), rig.Opts{})
			m.Mem.Write(0xff40, 0x11)
			m.Mem.Write(0xff0f, v)
			switch src {
			case 0:
				m.IRQ.RequestVblank()
			case 1:
				m.IRQ.RequestStat()
			case 2:
				m.IRQ.RequestTimer()
			case 3:
				m.IRQ.RequestSerial()
			case 4:
				m.IRQ.RequestJoypad()
			}
			if got := m.Mem.Read(0xff0f); got != 0xe0|v|1<<uint(src) {
				c.Violate("readback-if-after-request", fmt.Sprintf("IF written %02X, source %d requested: IF reads %02X", v, src, got), nil)
				return
			}
			m.Mem.Write(0xff0f, v)
			if got := m.Mem.Read(0xff0f); got != 0xe0|v {
				c.Violate("readback-if-restored", fmt.Sprintf("IF written %02X, source %d requested by the hardware, IF written %02X again: IF reads %02X", v, src, v, got), nil)
				return
			}
			c.Count("dispatch_readbacks", 1)
		}
		c.Exact(1)
	})

	// A store to TIMA in the machine cycle after it overflowed (it reads 00 then, the reload from
	// TMA is still to come) is a store like any other: every value, 00 included, reads back, and
	// the reload it replaces does not come afterwards.
	c.Part("tima-after-overflow", 256, func(i int64, r *rig.Rng) {
		v := uint8(i)
		for _, tac := range []uint8{0x04, 0x05, 0x06, 0x07} {
			m := rig.MustNew(rig.BlankROM(0, 0, 0), rig.Opts{})
			tma := r.Pick8([]uint8{0x5a, 0xa5, 0xfe, 0x01})
			if tma == v {
				tma ^= 0x3c
			}
			m.Mem.Write(0xff06, tma)
			m.Mem.Write(0xff05, 0xff)
			m.Mem.Write(0xff07, tac)
			step := func() {
				m.Mem.EndMachineCycle()
				if m.Timer.EndMachineCycle() {
					m.IRQ.RequestTimer()
				}
			}
			n := 0
			for ; n < 400 && m.Mem.Read(0xff05) == 0xff; n++ {
				step()
			}
			if got := m.Mem.Read(0xff05); got != 0x00 {
				c.Violate("tima-overflow-cycle", fmt.Sprintf("TAC=%02X: TIMA=FF counted up to %02X (after %d cycles), expected 00 in the cycle after the overflow", tac, got, n), nil)
				return
			}
			m.Mem.Write(0xff05, v)
			for k := 0; k < 3; k++ {
				if got := m.Mem.Read(0xff05); got != v {
					c.Violate("readback-tima-after-overflow", fmt.Sprintf("TAC=%02X TMA=%02X: %02X stored to TIMA in the cycle after its overflow: %d cycles later TIMA reads %02X", tac, tma, v, k, got), nil)
					return
				}
				if tac == 0x05 && k == 2 {
					break // (the next count of the fastest rate is due)
				}
				step()
			}
			c.Count("tima_stores_after_overflow", 1)
		}
		c.Exact(1)
	})

	// A request bit stored to IF (or raised by the hardware) reads back until it is cleared by a
	// store or by a dispatch: with the LCD on, every combination of STAT sources selected and no
	// CPU running, IF is read after every machine cycle over more than a frame - no bit may drop.
	c.Part("if-sticky", 16*4, func(i int64, r *rig.Rng) {
		m := rig.MustNew(rig.BlankROM(0, 0, 0), rig.Opts{})
		for k := 0; k < r.Intn(300); k++ {
			m.PPU.EndMachineCycle()
		}
		src := uint8(i%16) << 3
		m.Mem.Write(0xff41, src)
		m.Mem.Write(0xff45, r.Pick8([]uint8{0, 1, uint8(r.Intn(154)), 143, 144, 153}))
		m.Mem.Write(0xff07, 0x04|uint8(r.Intn(4)))
		v := r.U8() & 0x1f
		m.Mem.Write(0xff0f, v)
		prev := m.Mem.Read(0xff0f)
		if prev != 0xe0|v {
			c.Violate("readback-if", fmt.Sprintf("IF written %02X reads %02X", v, prev), nil)
			return
		}
		for k := 0; k < 19000; k++ {
			m.PPU.EndMachineCycle()
			m.Mem.EndMachineCycle()
			if m.Timer.EndMachineCycle() {
				m.IRQ.RequestTimer()
			}
			now := m.Mem.Read(0xff0f)
			if now&prev != prev {
				c.Violate("if-bit-drops-without-store-or-dispatch", fmt.Sprintf("STAT sources %02X, IF written %02X: %d cycles later (LCD on, no CPU activity at all) IF reads %02X, one cycle earlier %02X", src, v, k+1, now, prev), nil)
				return
			}
			prev = now
		}
		c.Count("if_sticky_cycles", 19000)
		c.Exact(1)
	})

	// OAM is plain memory with the LCD off as soon as a transfer is over: a store in each of
	// the cycles around the end of a transfer either is blocked together with the reads (the
	// byte then reads FF or its copied value) or sticks
	c.Part("oam-after-dma", 24, func(i int64, r *rig.Rng) {
		for k := 150; k <= 175; k++ {
			w := newWorld(c, r)
			for a := 0; a < 160; a++ {
				w.m.Mem.Write(0xc000+uint16(a), 0x11) // source bytes: neither FF nor the stored value
			}
			w.m.Mem.Write(0xff46, 0xc0)
			w.tick(k)
			idx := uint16(r.Intn(160))
			v := uint8(0xa5) ^ uint8(i)
			before := w.m.Mem.Read(0xfe00 + idx)
			w.m.Mem.Write(0xfe00+idx, v)
			after := w.m.Mem.Read(0xfe00 + idx)
			c.Count("oam_writes_around_dma_end", 1)
			if before != 0xff && after != v {
				// OAM was readable (the transfer is over) but the store did not stick
				c.Violate("oam-store-lost-after-dma", fmt.Sprintf("%d cycles after the FF46 write (LCD off) OAM[%02X] read %02X (accessible), a store of %02X then reads back %02X", k, idx, before, v, after), nil)
				return
			}
			w.tick(3)
			if got := w.m.Mem.Read(0xfe00 + idx); before != 0xff && got != v {
				c.Violate("oam-store-lost-after-dma", fmt.Sprintf("%d cycles after the FF46 write (LCD off) a store of %02X to OAM[%02X] reads back %02X three cycles later", k, v, idx, got), nil)
				return
			}
		}
		c.Exact(1)
	})
}
