// C06 — address space and I/O registers read back as on a DMG.
//
// Oracle: a reference memory map (plain RAM regions, echo mirror, unused OAM tail, unmapped
// I/O, per-register read-back masks). Events: Mapper.Write / Mapper.Read histories without
// and with elapsed machine cycles. A location is compared only once the history has written
// it (power-on values are not part of the statement). JOYP, SB/SC, the sound registers and
// wave RAM are judged by C22, C23 and C18 and are skipped here.
package main

import (
	"fmt"

	"verif/internal/rig"
)

type memref struct {
	val   [0x10000]uint8
	known [0x10000]bool
	lcdOn bool
	tac   uint8
	// after a DMA start OAM is unknown until rewritten; busy counts cycles until reads are judged again
	dmaBusy int
}

func isSkipped(a uint16) bool {
	switch {
	case a == 0xff00, a == 0xff01, a == 0xff02:
		return true
	case a >= 0xff10 && a <= 0xff3f:
		return true
	}
	return false
}

func unmappedIO(a uint16) bool {
	switch {
	case a == 0xff03, a >= 0xff08 && a <= 0xff0e, a >= 0xff4c && a <= 0xff7f:
		return true
	}
	return false
}

// write applies a guest write to the reference.
func (r *memref) write(a uint16, v uint8) {
	set := func(x uint16, y uint8) { r.val[x], r.known[x] = y, true }
	switch {
	case a < 0x8000: // cartridge control: ROM-only cartridge, no effect
	case a < 0xa000:
		if r.lcdOn {
			r.known[a] = false // VRAM is claimed plain only with the LCD off
		} else {
			set(a, v)
		}
	case a < 0xc000: // no cartridge RAM
	case a < 0xde00:
		set(a, v)
		set(a+0x2000, v)
	case a < 0xe000:
		set(a, v)
	case a < 0xfe00:
		set(a, v)
		set(a-0x2000, v)
	case a < 0xfea0:
		if r.lcdOn || r.dmaBusy > 0 {
			r.known[a] = false
		} else {
			set(a, v)
		}
	case a < 0xff00: // unused: ignored
	case isSkipped(a), unmappedIO(a):
	case a == 0xff04: // DIV: any write clears it
		set(a, 0)
	case a == 0xff05: // TIMA: judged only while the timer is stopped
		if r.tac&4 == 0 {
			set(a, v)
		} else {
			r.known[a] = false
		}
	case a == 0xff07:
		r.tac = v
		set(a, v|0xf8)
		r.known[0xff05] = false // a TAC write can produce a falling edge
	case a == 0xff0f:
		set(a, v|0xe0)
	case a == 0xff40:
		on := v&0x80 != 0
		if on != r.lcdOn {
			r.known[0xff44] = false
		}
		r.lcdOn = on
		set(a, v)
		if !on {
			set(0xff44, 0) // LCD off: LY reads 0
		}
	case a == 0xff41:
		set(a, 0x80|v&0x78) // low three bits are live and masked at comparison
	case a == 0xff44: // LY: never takes the written value; judged by the paired-run part
	case a == 0xff46:
		set(a, v)
		for i := 0xfe00; i < 0xfea0; i++ {
			r.known[i] = false
		}
		r.dmaBusy = 170
	case a >= 0xff42 && a <= 0xff4b: // SCY SCX LYC BGP OBP0 OBP1 WY WX: all eight bits
		set(a, v)
	case a == 0xff06:
		set(a, v)
	case a >= 0xff80:
		set(a, v)
	}
}

// expect returns (value, mask, judged).
func (r *memref) expect(a uint16) (uint8, uint8, bool) {
	switch {
	case isSkipped(a):
		return 0, 0, false
	case unmappedIO(a):
		return 0xff, 0xff, true
	case a >= 0xa000 && a < 0xc000:
		return 0xff, 0xff, true // ROM-only cartridge
	case a >= 0xfe00 && a < 0xff00 && r.dmaBusy > 0:
		return 0, 0, false // C16 judges OAM during a transfer
	case a >= 0xfe00 && a < 0xfea0 && r.lcdOn:
		return 0, 0, false
	case a >= 0xfea0 && a < 0xff00:
		if r.lcdOn {
			return 0, 0, false
		}
		return 0x00, 0xff, true
	case a >= 0x8000 && a < 0xa000 && r.lcdOn:
		return 0, 0, false
	case a == 0xff41:
		if !r.known[a] {
			return 0, 0, false
		}
		if r.lcdOn {
			return r.val[a], 0xf8, true
		}
		return r.val[a], 0xfb, true // mode reads 0 while off; the coincidence bit is not stated
	case a == 0xff44:
		if !r.lcdOn && r.known[a] {
			return 0, 0xff, true
		}
		return 0, 0, false
	}
	if !r.known[a] {
		return 0, 0, false
	}
	return r.val[a], 0xff, true
}

func (r *memref) tick(n int) {
	r.known[0xff04] = false
	if r.tac&4 != 0 {
		r.known[0xff05] = false
	}
	if r.dmaBusy > 0 {
		r.dmaBusy -= n
		if r.dmaBusy < 0 {
			r.dmaBusy = 0
		}
	}
}

type world struct {
	c   *rig.Ctx
	m   *rig.Machine
	ref *memref
	rom []byte
}

var worldsBuilt int

func newWorld(c *rig.Ctx, r *rig.Rng) *world {
	rom := rig.SignatureROM(0x00, 0, 0)
	// every third machine is built with the LCD debug option (a debug picture, nothing a guest
	// may notice at the registers)
	worldsBuilt++
	m := rig.MustNew(rom, rig.Opts{DebugLCD: worldsBuilt%3 == 2})
	if worldsBuilt%3 == 2 {
		c.Count("worlds_with_debug_lcd", 1)
	}
	w := &world{c: c, m: m, ref: &memref{lcdOn: true}, rom: rom}
	for a := 0; a < 0x8000; a++ {
		w.ref.val[a], w.ref.known[a] = rom[a], true
	}
	w.write(0xff40, 0x11) // LCD off
	w.write(0xff07, 0x00) // timer stopped
	return w
}

func (w *world) write(a uint16, v uint8) {
	w.m.Mem.Write(a, v)
	w.ref.write(a, v)
}

func regionOf(a uint16) string {
	switch {
	case a < 0x8000:
		return "rom"
	case a < 0xa000:
		return "vram"
	case a < 0xc000:
		return "cartram-none"
	case a < 0xe000:
		return "wram"
	case a < 0xfe00:
		return "echo"
	case a < 0xfea0:
		return "oam"
	case a < 0xff00:
		return "oam-unused"
	case a < 0xff80:
		return fmt.Sprintf("io-%04X", a)
	case a < 0xffff:
		return "hram"
	}
	return "ie"
}

func (w *world) check(a uint16, ctxt string) bool {
	want, mask, ok := w.ref.expect(a)
	if !ok {
		return true
	}
	got := w.m.Mem.Read(a)
	if got&mask != want&mask {
		w.c.Violate("readback-"+regionOf(a), fmt.Sprintf("%s: [%04X] reads %02X, expected %02X (mask %02X)", ctxt, a, got, want, mask),
			map[string]any{"addr": fmt.Sprintf("%04X", a), "got": got, "want": want, "mask": mask})
		return false
	}
	return true
}

func (w *world) tick(n int) {
	m := w.m
	for i := 0; i < n; i++ {
		// hardware only: the CPU executes nothing in these histories
		m.PPU.EndMachineCycle()
		m.Mem.EndMachineCycle()
		m.Audio.EndMachineCycle()
		if m.Timer.EndMachineCycle() {
			m.IRQ.RequestTimer()
			w.ref.known[0xff0f] = false
		}
	}
	if w.ref.lcdOn {
		w.ref.known[0xff0f] = false // VBlank/STAT requests may be raised
	}
	w.ref.tick(n)
}

func mirror(a uint16) (uint16, bool) {
	switch {
	case a >= 0xc000 && a < 0xde00:
		return a + 0x2000, true
	case a >= 0xe000 && a < 0xfe00:
		return a - 0x2000, true
	}
	return 0, false
}

func run(c *rig.Ctx) {
	c.Require("single_writes", "sweeps", "history_ops", "ly_pairs", "unmapped_reads", "echo_checks", "dma_readbacks")

	// (1) exhaustive single writes: every address x every value, LCD off
	c.Part("single", 256, func(i int64, r *rig.Rng) {
		w := newWorld(c, r)
		for lo := 0; lo < 256; lo++ {
			a := uint16(i)<<8 | uint16(lo)
			for v := 0; v < 256; v++ {
				val := uint8(v)
				w.write(a, val)
				ctxt := fmt.Sprintf("write %02X to %04X (LCD off)", val, a)
				ok := w.check(a, ctxt)
				if ma, has := mirror(a); has {
					ok = w.check(ma, ctxt+" then read the mirror") && ok
					c.Count("echo_checks", 1)
				}
				if unmappedIO(a) {
					c.Count("unmapped_reads", 1)
				}
				switch a {
				case 0xff40:
					if val&0x80 != 0 {
						w.write(0xff40, val&0x7f) // keep the LCD off for the following cases
					}
				case 0xff46:
					c.Count("dma_readbacks", 1)
					w.tick(170) // let the transfer finish
				case 0xff07:
					w.write(0xff07, 0)
				}
				if !ok {
					break
				}
			}
			c.Exact(256)
			c.Count("single_writes", 256)
			// cross-effects: everything written so far must still read as the reference says
			if lo%32 == 31 {
				for b := 0; b < 0x10000; b++ {
					if !w.check(uint16(b), fmt.Sprintf("sweep after the writes to %04X", a)) {
						break
					}
				}
				c.Count("sweeps", 1)
			}
		}
		if i == 0xc0 || i == 0xff {
			c.Sample(map[string]any{"class": "single", "page": fmt.Sprintf("%02Xxx", i), "cases": "every address of the page x every value: write, read back address and mirror"})
		}
	})
	c.MarkExhaustive("every address x every value single write/read-back with the LCD off")

	// (2) random histories from randomised states
	nh := c.N(1500, 40000)
	c.Part("histories", nh, func(i int64, r *rig.Rng) {
		w := newWorld(c, r)
		nops := 200
		for k := 0; k < nops; k++ {
			var a uint16
			switch r.Intn(10) {
			case 0, 1, 2:
				a = 0xff00 + uint16(r.Intn(0x100))
			case 3:
				a = 0xfe00 + uint16(r.Intn(0x100))
			case 4:
				a = 0x8000 + uint16(r.Intn(0x2000))
			case 5:
				a = r.Pick16([]uint16{0xc000, 0xddff, 0xde00, 0xdfff, 0xe000, 0xfdff, 0xfe00, 0xfe9f, 0xfea0, 0xfeff, 0xff7f, 0xff80, 0xfffe, 0xffff, 0x9fff, 0xa000, 0xbfff, 0x7fff})
			default:
				a = 0xc000 + uint16(r.Intn(0x3e00))
			}
			if w.ref.lcdOn && a >= 0xfe00 && a < 0xff00 {
				continue // no OAM traffic while the LCD is on (the OAM bug is C17's business)
			}
			switch r.Intn(8) {
			case 0, 1, 2, 3:
				v := r.U8()
				w.write(a, v)
				w.check(a, fmt.Sprintf("history op %d: write %02X to %04X", k, v, a))
				if ma, has := mirror(a); has {
					w.check(ma, fmt.Sprintf("history op %d: write %02X to %04X, read mirror", k, v, a))
				}
			case 4, 5, 6:
				w.check(a, fmt.Sprintf("history op %d: read %04X", k, a))
			case 7:
				w.tick(r.PickInt([]int{1, 2, 5, 64, 114, 200, 1000}))
			}
			c.Count("history_ops", 1)
		}
		for b := 0; b < 0x10000; b++ {
			if w.ref.lcdOn && b >= 0xfe00 && b < 0xff00 {
				continue
			}
			if !w.check(uint16(b), "final sweep of a history") {
				break
			}
		}
		c.Case(rig.Hash(uint64(i), r.U64()))
	})

	// (2b) read-back at every hardware phase: registers whose read-back does not depend on
	// hardware state are written and read back at every cycle offset around a TIMA overflow
	// and through two LCD lines, with the LCD on or switched off at that offset
	plain := []uint16{0xff06, 0xff42, 0xff43, 0xff45, 0xff47, 0xff48, 0xff49, 0xff4a, 0xff4b, 0xffff, 0xff80, 0xc000, 0xe001}
	c.Part("phases", 260*2, func(i int64, r *rig.Rng) {
		off := int(i / 2)
		lcdOffFirst := i%2 == 1
		w := newWorld(c, r)
		// timer running at the fastest rate, TIMA about to overflow after a few cycles
		w.m.Mem.Write(0xff04, 0)
		w.m.Mem.Write(0xff06, 0x23)
		w.m.Mem.Write(0xff05, 0xfe)
		w.m.Mem.Write(0xff07, 0x05)
		w.ref.tac = 0x05
		w.write(0xff40, 0x91)
		w.tick(off)
		if lcdOffFirst {
			w.write(0xff40, 0x11)
		}
		for _, a := range plain {
			v := r.U8()
			w.write(a, v)
			w.check(a, fmt.Sprintf("%d cycles after LCD-on / timer start (LCD switched off first: %v): write %02X to %04X", off, lcdOffFirst, v, a))
		}
		// and once more a few cycles later: a store made in one hardware phase must not get in
		// the way of the next store to the same register
		w.tick(1 + int(i%3))
		for _, a := range plain {
			v := r.U8()
			if a == 0xff4b || a == 0xff4a {
				v = r.Pick8([]uint8{0, 1, 3, 6, 7, 166, 167, 200, 255, r.U8()}) // window positions off both ends
			}
			w.write(a, v)
			w.check(a, fmt.Sprintf("%d(+%d) cycles after LCD-on / timer start (LCD switched off first: %v): second write %02X to %04X", off, 1+int(i%3), lcdOffFirst, v, a))
		}
		// ... and they still hold these values after the video hardware has drawn with them for
		// two lines (window and objects enabled in every other case)
		if !lcdOffFirst && off%2 == 1 {
			w.write(0xff40, 0xb3)
		}
		w.tick(2*114 + 7)
		for _, a := range plain {
			w.check(a, fmt.Sprintf("%d cycles after LCD-on: two lines after the second write to %04X", off, a))
		}
		// stopping the timer at this very offset (possibly in the middle of an overflow/reload)
		// leaves TIMA and TMA as plain latches from then on
		w.m.Mem.Write(0xff07, 0x00)
		w.ref.tac = 0x00
		// (the stop itself may still count one falling edge, which may overflow TIMA, and the
		// overflow's two reload cycles still run: four cycles settle all of it)
		w.tick(4)
		for k := 0; k < 3; k++ {
			v := r.U8()
			w.m.Mem.Write(0xff05, v)
			w.tick(k)
			if got := w.m.Mem.Read(0xff05); got != v {
				c.Violate("readback-io-FF05-timer-stopped", fmt.Sprintf("timer stopped %d cycles after it was started with TIMA=FE: TIMA written %02X reads %02X %d cycles later", off, v, got, k), nil)
				break
			}
			c.Count("tima_readbacks_timer_stopped", 1)
		}
		// the same on a machine of its own, where the stop falls exactly `off` cycles after the
		// start (right into the overflow and its two reload cycles for the first offsets; the
		// machine above has meanwhile drawn two lines)
		{
			w2 := newWorld(c, r)
			w2.m.Mem.Write(0xff04, 0)
			w2.m.Mem.Write(0xff06, 0x23)
			w2.m.Mem.Write(0xff05, r.Pick8([]uint8{0xfe, 0xfe, 0xff, 0xfd}))
			w2.m.Mem.Write(0xff07, 0x05)
			w2.tick(off % 24)
			w2.m.Mem.Write(0xff07, 0x00)
			w2.tick(4)
			for k := 0; k < 3; k++ {
				v := r.U8()
				w2.m.Mem.Write(0xff05, v)
				w2.tick(k)
				if got := w2.m.Mem.Read(0xff05); got != v {
					c.Violate("readback-io-FF05-timer-stopped", fmt.Sprintf("timer stopped exactly %d cycles after it was started with TIMA about to overflow: TIMA written %02X reads %02X %d cycles later", off%24, v, got, k), nil)
					break
				}
				c.Count("tima_readbacks_timer_stopped", 1)
			}
		}
		if lcdOffFirst {
			// VRAM and OAM are plain memory once the LCD is off, whenever it was switched off
			for k := 0; k < 8; k++ {
				a := 0x8000 + uint16(r.Intn(0x2000))
				if k%2 == 1 {
					a = 0xfe00 + uint16(r.Intn(0xa0))
				}
				v := r.U8()
				w.write(a, v)
				w.check(a, fmt.Sprintf("LCD switched off %d cycles after switch-on: write %02X to %04X", off, v, a))
			}
		}
		c.Exact(1)
		c.Count("phase_cases", 1)
	})

	// (2c) FF46 reads back the last value written, whatever the spacing of the writes: three
	// writes with every gap 0..170 between the first two (a transfer lasts 162 cycles, so the
	// second write restarts, ends or follows the first transfer), a short or long second gap,
	// and reads after every following cycle
	c.Part("dmareg", 171*4, func(i int64, r *rig.Rng) {
		g1 := int(i / 4)
		g2 := []int{0, 1 + r.Intn(4), 5 + r.Intn(200), 161}[i%4]
		w := newWorld(c, r)
		vals := []uint8{uint8(r.Intn(0xf2)), uint8(r.Intn(0xf2)), uint8(r.Intn(0xf2)), r.U8()}
		rd := func(ctxt string) {
			w.check(0xff46, ctxt)
			c.Count("dma_readbacks", 1)
		}
		w.write(0xff46, vals[0])
		rd("right after the first FF46 write")
		for k := 0; k < g1; k++ {
			w.tick(1)
			rd(fmt.Sprintf("%d cycles after the first FF46 write", k+1))
		}
		w.write(0xff46, vals[1])
		rd(fmt.Sprintf("right after a second FF46 write %d cycles after the first", g1))
		for k := 0; k < g2; k++ {
			w.tick(1)
			rd(fmt.Sprintf("%d cycles after a second FF46 write (%d after the first)", k+1, g1))
		}
		for n := 2; n < 4; n++ {
			w.write(0xff46, vals[n])
			for k := 0; k < 170; k++ {
				rd(fmt.Sprintf("%d cycles after FF46 write number %d (gaps before: %d, %d)", k, n+1, g1, g2))
				w.tick(1)
			}
		}
		c.Exact(1)
		c.Count("dma_register_sequences", 1)
	})

	dispatchPart(c)

	// (3) LY never takes a written value: paired runs that differ only in the value written
	np := c.N(300, 6000)
	c.Part("ly", np, func(i int64, r *rig.Rng) {
		at := r.Intn(17556 * 2)
		v1, v2 := r.U8(), r.U8()
		trace := func(v uint8, write bool) []uint16 {
			w := newWorld(c, r)
			w.m.Mem.Write(0xff40, 0x91)
			var out []uint16
			for t := 0; t < at+17556+300; t++ {
				if t == at && write {
					w.m.Mem.Write(0xff44, v)
					ly := w.m.Mem.Read(0xff44)
					if ly == v && v > 153 {
						c.Violate("ly-takes-written-value", fmt.Sprintf("LY reads %02X right after %02X was written to it", ly, v), nil)
					}
				}
				w.m.PPU.EndMachineCycle()
				if t > at {
					out = append(out, uint16(w.m.Mem.Read(0xff44))<<8|uint16(w.m.Mem.Read(0xff41)))
				}
			}
			return out
		}
		t1, t2 := trace(v1, true), trace(v2, true)
		for k := range t1 {
			if t1[k] != t2[k] {
				c.Violate("ly-depends-on-written-value", fmt.Sprintf("writing %02X vs %02X to LY at cycle %d gives different LY/STAT %d cycles later: %04X vs %04X", v1, v2, at, k+1, t1[k], t2[k]), nil)
				break
			}
		}
		c.Case(rig.Hash(uint64(at), uint64(v1), uint64(v2)))
		c.Count("ly_pairs", 1)
	})
}

func main() {
	rig.Main(rig.Spec{
		ID:  "C06",
		Run: run,
		Rule: "single-write cases: (address, value) enumerated completely from power-on with the LCD off, each distinct; history cases: random 200-operation write/read/tick histories " +
			"over the whole address space (distinct by seed-derived history); LY cases: paired runs differing only in the value written to LY",
		Assumptions: []string{"ROM-only cartridge (cartridge windows are C08/C09's business)", "JOYP, SB/SC, NR10-NR52 and wave RAM are judged by C22/C23/C18",
			"a location is judged only after the history wrote it; STAT bit 2 with the LCD off and TIMA while the timer runs are not judged here"},
	})
}
