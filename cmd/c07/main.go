// C07 — a write changes only the state documented for its address.
//
// Events: the complete 64 KiB read image before and after one Mapper.Write with no machine
// cycle in between. Oracle: diff(before, after) must be a subset of the documented effect set
// of (address, cartridge type). Machine states are randomised by running a generated program
// and by the writes themselves; every few hundred writes more cycles are run.
package main

import (
	"fmt"

	"github.com/scottyw/tetromino/gameboy/controller"

	"verif/internal/lockstep"
	"verif/internal/prog"
	"verif/internal/rig"
)

type span struct{ lo, hi uint16 } // inclusive

func in(a uint16, s []span) bool {
	for _, x := range s {
		if a >= x.lo && a <= x.hi {
			return true
		}
	}
	return false
}

// effect returns the set of addresses whose read value may change when addr is written.
func effect(addr uint16, cart uint8) []span {
	own := span{addr, addr}
	switch {
	case addr < 0x8000:
		return []span{{0x0000, 0x7fff}, {0xa000, 0xbfff}}
	case addr < 0xa000:
		return []span{own}
	case addr < 0xc000:
		if cart == 0x05 || cart == 0x06 {
			// MBC2: 512 half-bytes repeated across the window
			var s []span
			for a := 0xa000 + int(addr&0x1ff); a < 0xc000; a += 0x200 {
				s = append(s, span{uint16(a), uint16(a)})
			}
			return s
		}
		return []span{own}
	case addr < 0xde00:
		return []span{own, {addr + 0x2000, addr + 0x2000}}
	case addr < 0xe000:
		return []span{own}
	case addr < 0xfe00:
		return []span{own, {addr - 0x2000, addr - 0x2000}}
	case addr < 0xfea0:
		return []span{own}
	case addr < 0xff00:
		return nil
	}
	switch addr {
	case 0xff00:
		return []span{own}
	case 0xff01, 0xff02:
		return nil
	case 0xff04, 0xff05, 0xff07, 0xff0f, 0xffff:
		return []span{own}
	case 0xff06: // TMA: in the reload cycle a TMA write also loads TIMA
		return []span{own, {0xff05, 0xff05}}
	case 0xff10: // sweep register: leaving negate mode can switch channel 1 off
		return []span{own, {0xff26, 0xff26}}
	case 0xff12, 0xff17, 0xff21: // envelope / DAC
		return []span{own, {0xff26, 0xff26}}
	case 0xff14, 0xff19, 0xff23: // trigger / length enable
		return []span{own, {0xff26, 0xff26}}
	case 0xff1a, 0xff1e: // channel 3 DAC / trigger: wave RAM visibility depends on channel 3
		return []span{own, {0xff26, 0xff26}, {0xff30, 0xff3f}}
	case 0xff26: // power
		return []span{{0xff10, 0xff26}, {0xff30, 0xff3f}}
	case 0xff40: // LCDC: LY and the STAT mode/coincidence bits follow the LCD enable
		return []span{own, {0xff41, 0xff41}, {0xff44, 0xff44}}
	case 0xff45: // LYC: the coincidence bit may follow
		return []span{own, {0xff41, 0xff41}}
	case 0xff46: // DMA: OAM becomes inaccessible
		return []span{own, {0xfe00, 0xfeff}}
	}
	switch {
	case addr >= 0xff30 && addr <= 0xff3f:
		return []span{{0xff30, 0xff3f}}
	case addr >= 0xff10 && addr <= 0xff25:
		return []span{own}
	case addr >= 0xff41 && addr <= 0xff4b:
		return []span{own}
	case addr >= 0xff80:
		return []span{own}
	}
	return nil // unmapped I/O
}

// nr52Bits returns the NR52 bits a write to addr may change (FF = no restriction beyond the
// effect set: the power register itself and addresses that cannot change NR52 at all).
func nr52Bits(addr uint16) uint8 {
	switch {
	case addr >= 0xff10 && addr <= 0xff14:
		return 0x01
	case addr >= 0xff16 && addr <= 0xff19:
		return 0x02
	case addr >= 0xff1a && addr <= 0xff1e:
		return 0x04
	case addr >= 0xff20 && addr <= 0xff23:
		return 0x08
	}
	return 0xff
}

func sweep(m *rig.Machine, img *[0x10000]byte) {
	for a := 0; a < 0x10000; a++ {
		img[a] = lockstep.Peek(m, uint16(a))
	}
}

func className(addr uint16) string {
	switch {
	case addr < 0x8000:
		return "cart-control"
	case addr < 0xa000:
		return "vram"
	case addr < 0xc000:
		return "cart-ram"
	case addr < 0xe000:
		return "wram"
	case addr < 0xfe00:
		return "echo"
	case addr < 0xfea0:
		return "oam"
	case addr < 0xff00:
		return "oam-unused"
	case addr < 0xff80:
		return fmt.Sprintf("io-%04X", addr)
	case addr < 0xffff:
		return "hram"
	}
	return "ie"
}

func run(c *rig.Ctx) {
	c.Require("writes_checked", "writes_io", "writes_cart_control", "states", "writes_with_lcd_on", "writes_with_sound_off", "writes_with_visible_effect", "states_with_buttons_held", "writes_with_channels_playing")
	nstates := c.N(48, 480)
	c.Part("states", nstates, func(i int64, r *rig.Rng) {
		carts := []int{0x00, 0x01, 0x03, 0x05, 0x13, 0x10, 0x1b}
		cart := carts[int(i)%len(carts)]
		p := prog.Generate(r, prog.Options{Interrupts: i%2 == 0, Hardware: true, MBCWrites: true, CartType: cart, AllOpcodes: i%3 == 0})
		cart = int(p.CartType)
		// the CGB flag byte of the header is no business of a DMG's
		p.ROM[0x143] = []byte{0x00, 0x80, 0xc0}[i%3]
		m := rig.MustNew(p.ROM, rig.Opts{})
		cpuAlive := true
		cpuRan, cpuHeld := false, false // the guest ran since the wave pattern was stored; hardware-only ticking
		tick := func(n int) {
			for k := 0; k < n; k++ {
				if cpuAlive && m.CPU.XAtBoundary() && !m.CPU.XHalted() {
					if m.CPU.XStopped() || rig.IsUndefinedOpcode(m.PeekOpcode()) {
						cpuAlive = false
					}
				}
				if cpuAlive && !(cpuHeld && m.CPU.XAtBoundary()) {
					m.Step()
					cpuRan = true
				} else {
					m.PPU.EndMachineCycle()
					m.Mem.EndMachineCycle()
					m.Audio.EndMachineCycle()
					if m.Timer.EndMachineCycle() {
						m.IRQ.RequestTimer()
					}
				}
			}
		}
		tick(r.Intn(60000))
		c.Count("states", 1)
		// buttons are held in most states (a JOYP write must not do anything but select)
		press := func() {
			for b := controller.Up; b <= controller.Select; b++ {
				if r.Chance(1, 3) {
					m.Ctl.ButtonAction(b, r.Bool())
				}
			}
			if m.Ctl.ReadJOYP()&0x0f != 0x0f || i%4 != 0 {
				c.Count("states_with_buttons_held", 1)
			}
		}
		if i%4 != 0 {
			press()
		}
		dmaBurst := 0
		var wavePat [16]uint8
		waveArmed, waveAddr, waveVal := false, uint16(0), uint8(0)
		var before, after [0x10000]byte
		nw := int(c.N(5200, 40000))
		sweep(m, &before)
		for k := 0; k < nw; k++ {
			if k%211 == 210 {
				tick(1 + r.Intn(3000))
				if i%4 != 0 {
					press()
				}
				sweep(m, &before)
			}
			var addr uint16
			switch {
			case k < 2048:
				addr = 0xff00 + uint16(k%256)
			case k < 2048+256:
				addr = 0xfe00 + uint16(k%256)
			case k < 2048+256+800:
				// sound registers written while all four channels are playing (set up afresh,
				// with random parameters, before every such write)
				mw := m.Mem.Write
				// channel 3 is stopped first: wave RAM must still hold the pattern stored before
				// the previous round (unless that round's write was to wave RAM, to channel 3's
				// DAC/trigger or to the power register)
				mw(0xff1a, 0x00)
				if waveArmed && !cpuRan {
					for q := 0; q < 16; q++ {
						if got := m.Mem.Read(0xff30 + uint16(q)); got != wavePat[q] {
							c.Violate("write-"+className(waveAddr)+"-changes-wave-ram",
								fmt.Sprintf("cart %02X: wave RAM held % X while channel 3 played; %02X was written to %04X; with channel 3 stopped again [FF3%X] reads %02X", cart, wavePat, waveVal, waveAddr, q, got),
								map[string]any{"addr": fmt.Sprintf("%04X", waveAddr), "value": waveVal, "program": p.Describe()})
							break
						}
					}
					c.Count("wave_ram_rechecked_after_stop", 1)
				}
				mw(0xff26, 0x80)
				for q := 0; q < 16; q++ {
					wavePat[q] = r.U8()
					mw(0xff30+uint16(q), wavePat[q])
				}
				// (the guest program, which may store anywhere, is held at an instruction boundary
				// in two rounds out of three, so that the pattern is known to be the harness's)
				cpuRan, cpuHeld = false, m.CPU.XAtBoundary() && k%3 != 0
				mw(0xff10, r.U8())
				// length counters are often about to expire (one or two ticks left)
				ln := func() uint8 { return r.Pick8([]uint8{0x3f, 0xff, 0x3e, r.U8(), r.U8()}) }
				mw(0xff11, ln())
				mw(0xff12, 0xf0|r.U8()&7)
				mw(0xff13, r.U8())
				mw(0xff14, 0x80|r.U8()&0x47)
				mw(0xff16, ln())
				mw(0xff17, 0xf0|r.U8()&7)
				mw(0xff18, r.U8())
				mw(0xff19, 0x80|r.U8()&0x47)
				mw(0xff1a, 0x80)
				mw(0xff1b, ln())
				mw(0xff1c, r.U8())
				mw(0xff1d, r.U8())
				mw(0xff1e, 0x80|r.U8()&0x47)
				mw(0xff20, ln())
				mw(0xff21, 0xf0|r.U8()&7)
				mw(0xff22, r.U8())
				mw(0xff23, 0x80|r.U8()&0x40)
				if r.Chance(1, 2) {
					tick(r.Intn(5000))
					sweep(m, &before)
				} else {
					for a := 0xff00; a < 0xff80; a++ {
						before[a] = lockstep.Peek(m, uint16(a))
					}
				}
				if before[0xff26]&0x0f != 0 {
					c.Count("writes_with_channels_playing", 1)
				}
				addr = 0xff10 + uint16(r.Intn(0x17))
				if r.Chance(1, 8) {
					addr = 0xff30 + uint16(r.Intn(0x10))
				}
				if r.Chance(1, 10) {
					// the timer registers while channels are about to expire: their side effects
					// stay inside the timer
					addr = r.Pick16([]uint16{0xff04, 0xff04, 0xff07, 0xff05})
				}
			default:
				switch r.Intn(8) {
				case 0, 1:
					addr = uint16(r.Intn(0x8000))
				case 2:
					addr = 0xa000 + uint16(r.Intn(0x2000))
				case 3:
					addr = 0x8000 + uint16(r.Intn(0x2000))
				case 4:
					addr = 0xff00 + uint16(r.Intn(0x100))
				default:
					addr = r.U16()
				}
			}
			if dmaBurst > 0 {
				// stores to memory of every kind while the transfer is in flight
				dmaBurst--
				addr = r.Pick16([]uint16{0xc000 + uint16(r.Intn(0x2000)), 0xe000 + uint16(r.Intn(0x1e00)), 0x8000 + uint16(r.Intn(0x2000)), 0xa000 + uint16(r.Intn(0x2000)), 0xff80 + uint16(r.Intn(0x7f)), uint16(r.Intn(0x8000))})
			}
			val := r.U8()
			switch r.Intn(6) {
			case 0:
				val = 0x00
			case 1:
				val = 0xff
			case 2:
				val = r.Pick8([]uint8{0x0a, 0x80, 0x7f, 0x01, 0x40, 0xc0})
			}
			if k >= 2048+256 && k < 2048+256+800 && (addr == 0xff14 || addr == 0xff19 || addr == 0xff1e || addr == 0xff23) && r.Chance(1, 2) {
				// length enabled without a trigger (the extra length clock may expire this
				// channel - and only this channel)
				val = r.Pick8([]uint8{0x40, 0x47, 0x41, 0x00})
			}
			lcdOn := before[0xff40]&0x80 != 0
			soundOn := before[0xff26]&0x80 != 0
			// the saved image of cartridge RAM (what the host writes to the battery file) is part
			// of what a store may or may not change
			var dump0 []byte
			dumped := addr < 0xc000 || k%16 == 0
			if dumped {
				dump0 = m.Mem.DumpRAM()
			}
			m.Mem.Write(addr, val)
			sweep(m, &after)
			if dumped {
				dump1 := m.Mem.DumpRAM()
				ndiff, at := 0, -1
				for q := range dump1 {
					if q < len(dump0) && dump0[q] != dump1[q] {
						ndiff++
						at = q
					}
				}
				c.Count("saved_ram_images_compared", 1)
				bad := ""
				switch {
				case len(dump0) != len(dump1):
					bad = fmt.Sprintf("the saved cartridge RAM image changed its length (%d -> %d bytes)", len(dump0), len(dump1))
				case ndiff > 0 && !(addr >= 0xa000 && addr < 0xc000):
					bad = fmt.Sprintf("%d bytes of the saved cartridge RAM image changed (e.g. offset %04X %02X -> %02X)", ndiff, at, dump0[at], dump1[at])
				case ndiff > 1:
					bad = fmt.Sprintf("%d bytes of the saved cartridge RAM image changed", ndiff)
				case ndiff == 1 && (at&0x1ff != int(addr)&0x1ff || after[addr]&0x0f != dump1[at]&0x0f):
					bad = fmt.Sprintf("offset %04X of the saved cartridge RAM image changed %02X -> %02X, yet [%04X] now reads %02X: the store went to a byte that is not the one mapped at the address", at, dump0[at], dump1[at], addr, after[addr])
				}
				if bad != "" {
					c.Violate("write-"+className(addr)+"-changes-saved-ram",
						fmt.Sprintf("cart %02X: writing %02X to %04X: %s", cart, val, addr, bad),
						map[string]any{"cart": cart, "addr": fmt.Sprintf("%04X", addr), "value": val, "write_index": k, "program": p.Describe()})
				}
			}
			allowed := effect(addr, uint8(cart))
			if addr >= 0xff30 && addr <= 0xff3f && before[0xff26]&0x04 == 0 {
				// channel 3 is off: wave RAM is plain memory, the write reaches its own byte only
				allowed = []span{{addr, addr}}
			}
			changed := 0
			if m52 := nr52Bits(addr); m52 != 0xff && (before[0xff26]^after[0xff26])&^m52 != 0 {
				c.Violate("write-"+className(addr)+"-changes-another-channel-status",
					fmt.Sprintf("cart %02X, sound on=%v: writing %02X to %04X changed NR52 %02X -> %02X: a channel's registers may switch only that channel's status bit", cart, soundOn, val, addr, before[0xff26], after[0xff26]),
					map[string]any{"addr": fmt.Sprintf("%04X", addr), "value": val, "write_index": k, "program": p.Describe()})
			}
			for a := 0; a < 0x10000; a++ {
				if before[a] != after[a] {
					changed++
					if !in(uint16(a), allowed) {
						c.Violate("write-"+className(addr)+"-changes-"+className(uint16(a)),
							fmt.Sprintf("cart %02X, LCD on=%v, sound on=%v: writing %02X to %04X changed [%04X] %02X -> %02X, outside the documented effect set", cart, lcdOn, soundOn, val, addr, a, before[a], after[a]),
							map[string]any{"cart": cart, "addr": fmt.Sprintf("%04X", addr), "value": val, "changed": fmt.Sprintf("%04X", a), "write_index": k, "program": p.Describe()})
						break
					}
				}
			}
			before = after
			waveArmed = k >= 2048+256 && k < 2048+256+800 && !(addr >= 0xff30 && addr <= 0xff3f) && addr != 0xff1a && addr != 0xff1e && addr != 0xff26
			waveAddr, waveVal = addr, val
			cpuHeld = false
			if addr == 0xff46 && k%2 == 0 {
				// let the transfer get under way: the following stores happen while it runs
				tick(2 + r.Intn(150))
				sweep(m, &before)
				dmaBurst = 6
				c.Count("stores_following_a_dma_start", 1)
			}
			c.Count("writes_checked", 1)
			if changed > 0 {
				c.Count("writes_with_visible_effect", 1)
			}
			if addr >= 0xff00 {
				c.Count("writes_io", 1)
			}
			if addr < 0x8000 {
				c.Count("writes_cart_control", 1)
			}
			if lcdOn {
				c.Count("writes_with_lcd_on", 1)
			}
			if !soundOn {
				c.Count("writes_with_sound_off", 1)
			}
			c.Case(rig.Hash(uint64(i), uint64(k), uint64(addr)<<8|uint64(val)))
		}
		if i < 2 {
			c.Sample(map[string]any{"class": "state", "cart": cart, "program": p.Describe(), "writes": nw})
		}
	})

	phaseWrites(c)
}

func main() {
	rig.Main(rig.Spec{
		ID:  "C07",
		Run: run,
		Rule: "one case = one Mapper.Write (address, value) from a randomised machine state (generated program + earlier writes + elapsed cycles; cart types 00/01/03/05/10/13/1B; LCD and sound on and off); " +
			"every address of FF00-FFFF x 8 values and of FE00-FEFF per state plus random addresses; the full 64 KiB read image before/after is compared with the documented effect set",
		Assumptions: []string{"effect sets as listed in DESIGN.md §4 C07 (which bytes inside a permitted window change is C08/C09/C18's business)",
			"OAM is observed through a side-effect-free snapshot hook with the mapper's DMA/unused-area semantics so the harness never arms the emulated OAM bug"},
	})
}
