package main

// Writes at exact hardware phases: the timer registers are written in every machine cycle
// around a TIMA overflow (the cycle in which TIMA reads 00, the reload cycle, the cycles before
// and after), with the timer request pending or not; the LCD registers at every cycle of a line.
// Only the documented effect set may change.

import (
	"fmt"

	"verif/internal/lockstep"
	"verif/internal/rig"
)

func phaseWrites(c *rig.Ctx) {
	c.Require("phase_writes_checked")
	targets := []uint16{0xff04, 0xff05, 0xff06, 0xff07, 0xff0f, 0xffff, 0xff41, 0xff45, 0xff40, 0xff44}
	c.Part("phases", 40*int64(len(targets)), func(i int64, r *rig.Rng) {
		off := int(i / int64(len(targets)))
		addr := targets[i%int64(len(targets))]
		for rep := 0; rep < 6; rep++ {
			m := rig.MustNew(rig.BlankROM(0, 0, 0), rig.Opts{})
			tick := func(n int) {
				for k := 0; k < n; k++ {
					m.PPU.EndMachineCycle()
					m.Mem.EndMachineCycle()
					m.Audio.EndMachineCycle()
					if m.Timer.EndMachineCycle() {
						m.IRQ.RequestTimer()
					}
				}
			}
			tick(4 + r.Intn(200))
			// fastest timer rate, TIMA a few increments away from overflowing
			m.Mem.Write(0xff06, r.U8())
			m.Mem.Write(0xff05, 0xfc|r.U8()&3)
			m.Mem.Write(0xff07, 0x05)
			if rep%2 == 1 {
				m.Mem.Write(0xff0f, 0x00)
			}
			tick(off)
			var before, after [0x10000]byte
			sweep(m, &before)
			val := r.U8()
			if rep == 0 {
				val = 0x00
			}
			m.Mem.Write(addr, val)
			sweep(m, &after)
			allowed := effect(addr, 0)
			for a := 0; a < 0x10000; a++ {
				if before[a] != after[a] && !in(uint16(a), allowed) {
					c.Violate("phase-write-"+className(addr)+"-changes-"+className(uint16(a)),
						fmt.Sprintf("%d cycles after the timer was started with TIMA=FC+: writing %02X to %04X changed [%04X] %02X -> %02X, outside the documented effect set (IF before: %02X, TIMA before: %02X)", off, val, addr, a, before[a], after[a], before[0xff0f], before[0xff05]),
						map[string]any{"addr": fmt.Sprintf("%04X", addr), "value": val, "offset": off})
					break
				}
			}
			c.Count("phase_writes_checked", 1)
			c.Exact(1)
		}
	})
	_ = lockstep.Peek
}
