package main

// A bystander cartridge: one more machine, built once per worker process from an image whose
// bytes differ from every signature image, left alone while the worker builds and drives all
// its other cartridges. Its windows must keep showing its own bytes ("writes never change ROM
// contents" includes writes and loads made through another cartridge in the same process).

import (
	"fmt"

	"verif/internal/ref"
	"verif/internal/rig"
)

const bystanderSalt = 0x5a

type bystanderWorld struct {
	m      *rig.Machine
	img    []byte
	lo, hi int
}

var bystander *bystanderWorld

func bystanderInit() {
	if bystander != nil {
		return
	}
	img := rig.SignatureROM(0x19, 2, 0) // MBC5, 8 banks
	for k := range img {
		if k < 0x147 || k > 0x149 {
			img[k] ^= bystanderSalt
		}
	}
	keep := append([]byte{}, img...)
	m := rig.MustNew(img, rig.Opts{})
	m.Mem.Write(0x2000, 5)
	_ = ref.MBC5
	bystander = &bystanderWorld{m: m, img: keep, lo: 0, hi: 5}
}

func bystanderCheck(c *rig.Ctx, when string) {
	b := bystander
	if b == nil {
		return
	}
	c.Count("bystander_checks", 1)
	for off := 0; off < 0x4000; off += 0x25 {
		if got, want := b.m.Mem.Read(uint16(off)), b.img[b.lo*0x4000+off]; got != want {
			c.Violate("bystander-rom-low-window", fmt.Sprintf("%s: a second cartridge (MBC5, 8 banks) that nobody touched reads %02X at %04X, its image holds %02X", when, got, off, want), nil)
			return
		}
		if got, want := b.m.Mem.Read(uint16(0x4000+off)), b.img[b.hi*0x4000+off]; got != want {
			c.Violate("bystander-rom-high-window", fmt.Sprintf("%s: a second cartridge (MBC5, 8 banks, bank 5 selected) that nobody touched reads %02X at %04X, its image holds %02X", when, got, 0x4000+off, want), nil)
			return
		}
	}
}
