// C08 — cartridge ROM banking follows each controller's register semantics.
//
// Oracle: reference controllers (internal/ref/mbc.go) that keep raw registers and compute the
// bank at read time. Every 16 KiB page of the ROM image carries a signature, so the page visible
// in each window is identified exactly. Workload: cartridge type x every ROM size the
// controller supports x (exhaustive single writes of every value to representative addresses of
// every control region, from reset and from a scrambled state; exhaustive MBC1 register
// triples; random control-write sequences) with both windows read after every write, and a
// final pass that re-reads every page to show that writes never changed ROM contents.
package main

import (
	"fmt"

	"verif/internal/ref"
	"verif/internal/rig"
)

type cfg struct {
	cart, romCode uint8
	// logo: the image carries the boot logo and a plausible header at the start of every
	// 256 KiB block, as multi-game cartridges do (ROM contents must play no part in banking)
	logo bool
	// tail: the last quarter of the image is erased flash (all FF), as in padded images
	tail bool
}

var bootLogo = []byte{0xce, 0xed, 0x66, 0x66, 0xcc, 0x0d, 0x00, 0x0b, 0x03, 0x73, 0x00, 0x83, 0x00, 0x0c, 0x00, 0x0d, 0x00, 0x08, 0x11, 0x1f, 0x88, 0x89, 0x00, 0x0e,
	0xdc, 0xcc, 0x6e, 0xe6, 0xdd, 0xdd, 0xd9, 0x99, 0xbb, 0xbb, 0x67, 0x63, 0x6e, 0x0e, 0xec, 0xcc, 0xdd, 0xdc, 0x99, 0x9f, 0xbb, 0xb9, 0x33, 0x3e}

var probeOffs = []int{0x0000, 0x0001, 0x0150, 0x0151, 0x2000, 0x2001, 0x3ffe, 0x3fff, 0x0007, 0x1234, 0x2fff, 0x3abc}

type world struct {
	c       *rig.Ctx
	cf      cfg
	ramCode uint8
	m       *rig.Machine
	ref     *ref.MBC
	hist    []string
	checks  int
	stored  [8]uint16 // the control-area addresses stored to most recently
	nstored int
}

var imgCache = map[uint32][]byte{}

// image returns the signature image for a configuration. The emulator copies the pages out
// of it (or only reads it, for ROM-only), so one slice per configuration is shared by all
// machines of that configuration.
func image(cart, romCode, ramCode uint8, logo ...bool) []byte {
	key := uint32(cart)<<16 | uint32(romCode)<<8 | uint32(ramCode)
	withLogo := len(logo) > 0 && logo[0]
	if withLogo {
		key |= 1 << 24
	}
	withTail := len(logo) > 1 && logo[1]
	if withTail {
		key |= 1 << 25
	}
	if img, ok := imgCache[key]; ok {
		return img
	}
	img := rig.SignatureROM(cart, romCode, ramCode)
	if withLogo {
		for base := 0; base < len(img); base += 0x40000 {
			copy(img[base+0x104:], bootLogo)
			copy(img[base+0x134:], []byte("GAME"))
			img[base+0x147], img[base+0x148], img[base+0x149] = cart, romCode, ramCode
		}
	}
	if withTail {
		for a := len(img) - len(img)/4; a < len(img); a++ {
			img[a] = 0xff
		}
	}
	imgCache = map[uint32][]byte{key: img} // keep only one image in memory
	return img
}

// toReset writes the controller registers back to their power-on values.
func (w *world) toReset() {
	switch w.ref.Kind {
	case ref.MBC1:
		w.write(0x0000, 0)
		w.write(0x2000, 1)
		w.write(0x4000, 0)
		w.write(0x6000, 0)
	case ref.MBC2:
		w.write(0x0000, 0)
		w.write(0x0100, 1)
	case ref.MBC3:
		w.write(0x0000, 0)
		w.write(0x2000, 1)
		w.write(0x4000, 0)
	case ref.MBC5:
		w.write(0x0000, 0)
		w.write(0x2000, 1)
		w.write(0x3000, 0)
		w.write(0x4000, 0)
	}
	w.hist = w.hist[:0]
}

func newWorld(c *rig.Ctx, cf cfg, ramCode uint8) *world {
	m, err := rig.New(image(cf.cart, cf.romCode, ramCode, cf.logo, cf.tail), rig.Opts{})
	if err != nil {
		c.Violate(fmt.Sprintf("cart%02X-rom%d-load", cf.cart, cf.romCode), fmt.Sprintf("cartridge type %02X with ROM size code %d and RAM size code %d does not load: %v", cf.cart, cf.romCode, ramCode, err), nil)
		return nil
	}
	return &world{c: c, cf: cf, ramCode: ramCode, m: m, ref: ref.NewMBC(cf.cart, cf.romCode, ramCode)}
}

func (w *world) expectByte(page, off int) byte {
	if w.cf.logo || w.cf.tail {
		return image(w.cf.cart, w.cf.romCode, w.ramCode, w.cf.logo, w.cf.tail)[page*0x4000+off]
	}
	return rig.ROMByte(page, off, w.cf.cart, w.cf.romCode, w.ramCode)
}

func (w *world) write(addr uint16, v uint8) {
	w.m.Mem.Write(addr, v)
	w.ref.Write(addr, v)
	if addr < 0x8000 {
		w.stored[w.nstored%len(w.stored)] = addr
		w.nstored++
	}
	if len(w.hist) < 12 {
		w.hist = append(w.hist, fmt.Sprintf("%04X<-%02X", addr, v))
	} else {
		copy(w.hist, w.hist[1:])
		w.hist[len(w.hist)-1] = fmt.Sprintf("%04X<-%02X", addr, v)
	}
}

func kindName(k ref.MBCKind) string {
	return [...]string{"romonly", "mbc1", "mbc2", "mbc3", "mbc5"}[k]
}

// check reads both windows and compares with the page the reference selects.
func (w *world) check(what string) bool {
	// cartridge RAM accesses between a control write and the next ROM access must not matter
	w.checks++
	switch w.checks % 4 {
	case 1:
		_ = w.m.Mem.Read(0xa000 + uint16(w.checks*37)&0x1fff)
		w.c.Count("ram_accesses_before_rom_reads", 1)
	case 3:
		a := 0xa000 + uint16(w.checks*53)&0x1fff
		w.m.Mem.Write(a, uint8(w.checks))
		w.ref.Write(a, uint8(w.checks))
		w.c.Count("ram_accesses_before_rom_reads", 1)
	}
	if w.checks%5 == 2 {
		// the host saves cartridge RAM (the battery file) whenever it likes: not a guest action,
		// and nothing a ROM access may notice
		_ = w.m.Mem.DumpRAM()
		w.c.Count("host_ram_dumps_before_rom_reads", 1)
	}
	lo, hi := w.ref.LowPage(), w.ref.HighPage()
	// "writes never change ROM contents": the very bytes that were stored to most recently
	for k := 0; k < len(w.stored) && k < w.nstored; k++ {
		a := w.stored[k]
		off, page, win := int(a&0x3fff), lo, "low"
		if a >= 0x4000 {
			page, win = hi, "high"
		}
		if off >= 0x147 && off <= 0x149 {
			continue
		}
		w.c.Count("stored_to_bytes_reread", 1)
		if got, want := w.m.Mem.Read(a), w.expectByte(page, off); got != want {
			w.fail(win, page, off, got, want, what+"; the byte at an address that was stored to")
			return false
		}
	}
	for _, off := range probeOffs {
		if off >= 0x147 && off <= 0x149 {
			continue
		}
		if got, want := w.m.Mem.Read(uint16(off)), w.expectByte(lo, off); got != want {
			w.fail("low", lo, off, got, want, what)
			return false
		}
		if got, want := w.m.Mem.Read(uint16(0x4000+off)), w.expectByte(hi, off); got != want {
			w.fail("high", hi, off, got, want, what)
			return false
		}
	}
	return true
}

func (w *world) fail(win string, page, off int, got, want byte, what string) {
	// identify the page actually visible, for the report
	base := 0
	if win == "high" {
		base = 0x4000
	}
	seen := int(w.m.Mem.Read(uint16(base))) | int(w.m.Mem.Read(uint16(base+1)))<<8
	w.c.Violate(fmt.Sprintf("%s-rom%d-%s-window", kindName(w.ref.Kind), w.cf.romCode, win),
		fmt.Sprintf("cart %02X, %d ROM banks, after %v (%s): %s window shows page %d (byte +%04X = %02X), the registers select page %d (%02X)",
			w.cf.cart, w.ref.ROMBanks, w.hist, what, win, seen, off, got, page, want),
		map[string]any{"cart": w.cf.cart, "rom_banks": w.ref.ROMBanks, "history": fmt.Sprint(w.hist), "window": win, "visible_page": seen, "selected_page": page})
}

// regions returns representative addresses of every control region of the controller.
func regions(k ref.MBCKind) []uint16 {
	switch k {
	case ref.MBCNone:
		return []uint16{0x0000, 0x2000, 0x4000, 0x6000, 0x7fff}
	case ref.MBC2:
		return []uint16{0x0000, 0x00ff, 0x0100, 0x01ff, 0x2000, 0x2100, 0x3eff, 0x3fff, 0x3e00, 0x4000, 0x4100, 0x6000, 0x7fff}
	case ref.MBC5:
		return []uint16{0x0000, 0x1fff, 0x2000, 0x2fff, 0x3000, 0x3fff, 0x4000, 0x5fff, 0x6000, 0x7fff}
	}
	return []uint16{0x0000, 0x1fff, 0x2000, 0x3fff, 0x4000, 0x5fff, 0x6000, 0x7fff}
}

func (w *world) scramble(r *rig.Rng) {
	regs := regions(w.ref.Kind)
	for k := 0; k < 12; k++ {
		w.write(regs[r.Intn(len(regs))], r.U8())
	}
}

func (w *world) verifyAllPages(quick bool) {
	// select every bank through the controller's own registers and compare contents
	n := w.ref.ROMBanks
	step := 1
	if quick && n > 64 {
		step = n / 64
	}
	for p := 0; p < n; p += step {
		switch w.ref.Kind {
		case ref.MBCNone:
		case ref.MBC1:
			w.write(0x6000, 0)
			w.write(0x2000, uint8(p&0x1f))
			w.write(0x4000, uint8(p>>5))
		case ref.MBC2:
			w.write(0x2100, uint8(p))
		case ref.MBC3:
			w.write(0x2000, uint8(p))
		case ref.MBC5:
			w.write(0x2000, uint8(p))
			w.write(0x3000, uint8(p>>8))
		}
		hi := w.ref.HighPage()
		nOff := 0x4000
		stride := 1
		if quick {
			stride = 61
		}
		for off := 0; off < nOff; off += stride {
			if hi == 0 && off >= 0x147 && off <= 0x149 && !w.cf.logo && !w.cf.tail {
				continue
			}
			if got, want := w.m.Mem.Read(uint16(0x4000+off)), w.expectByte(hi, off); got != want {
				w.c.Violate(fmt.Sprintf("%s-rom%d-contents", kindName(w.ref.Kind), w.cf.romCode),
					fmt.Sprintf("cart %02X: after the write sequences page %d byte +%04X reads %02X, image has %02X", w.cf.cart, hi, off, got, want), nil)
				return
			}
		}
		w.c.Count("pages_reread", 1)
	}
}

func run(c *rig.Ctx) {
	c.Require("configs", "single_writes", "mbc1_triples", "sequence_writes", "pages_reread", "remap_0_to_1_cases", "modulo_cases", "bystander_checks", "ram_accesses_before_rom_reads", "stores_outside_the_cartridge")
	var cfgs []cfg
	for _, cart := range []uint8{0x00, 0x01, 0x02, 0x03, 0x05, 0x06, 0x0f, 0x10, 0x11, 0x12, 0x13, 0x19, 0x1a, 0x1b, 0x1c, 0x1d, 0x1e} {
		k, _ := ref.KindOf(cart)
		for code := uint8(0); code <= ref.MaxROMCode(k); code++ {
			cfgs = append(cfgs, cfg{cart, code, false, false})
			if code >= 2 && code%2 == cart%2 {
				cfgs = append(cfgs, cfg{cart, code, false, true})
			}
			if code >= 4 {
				cfgs = append(cfgs, cfg{cart, code, true, false})
			}
		}
	}
	// a ROM-only cartridge whose image is larger than 32 KiB has no registers either: the first
	// two banks stay where they are whatever is stored
	cfgs = append(cfgs, cfg{0x00, 1, false, false}, cfg{0x00, 2, false, true}, cfg{0x00, 3, true, false})
	// largest images last within a shard keeps peak memory low
	c.Part("configs", int64(len(cfgs)), func(i int64, r *rig.Rng) {
		cf := cfgs[i]
		ramCode := r.Pick8([]uint8{0, 2, 3, 4, 5, 1}) // the RAM size declared must play no part in ROM banking
		bystanderInit()
		defer bystanderCheck(c, fmt.Sprintf("after cartridge type %02X with ROM size code %d was loaded and driven in the same process", cf.cart, cf.romCode))
		w := newWorld(c, cf, ramCode)
		if w == nil {
			return
		}
		c.Count("configs", 1)
		if !w.check("power-on") {
			return
		}
		kind := w.ref.Kind
		// exhaustive single writes from reset and from a scrambled state
		for pass := 0; pass < 2; pass++ {
			for _, a := range regions(kind) {
				for v := 0; v < 256; v++ {
					if pass == 0 {
						// a fresh machine per case for images up to 512 KiB; for larger images a
						// fresh machine per address and a register reset per value
						if cf.romCode <= 4 || v == 0 {
							w = newWorldQuiet(c, cf, ramCode)
						} else {
							w.toReset()
						}
					} else if v%16 == 0 {
						w.scramble(r)
					}
					w.write(a, uint8(v))
					c.Exact(1)
					c.Count("single_writes", 1)
					// coverage of the two documented special rules
					if (kind == ref.MBC1 && a >= 0x2000 && a < 0x4000 && v&0x1f == 0) || (kind == ref.MBC3 && a >= 0x2000 && a < 0x4000 && v&0x7f == 0) || (kind == ref.MBC2 && a&0x100 != 0 && a < 0x4000 && v&0xf == 0) {
						c.Count("remap_0_to_1_cases", 1)
					}
					if v >= w.ref.ROMBanks {
						c.Count("modulo_cases", 1)
					}
					if !w.check(fmt.Sprintf("single write pass %d", pass)) {
						return
					}
				}
			}
		}
		// exhaustive MBC1 register triples
		if kind == ref.MBC1 {
			for b1 := 0; b1 < 32; b1++ {
				for b2 := 0; b2 < 4; b2++ {
					for mode := 0; mode < 2; mode++ {
						order := r.Intn(6)
						ws := [][2]uint16{{0x2000 + uint16(r.Intn(0x2000)), uint16(b1) | uint16(r.Intn(8))<<5}, {0x4000 + uint16(r.Intn(0x2000)), uint16(b2) | uint16(r.Intn(64))<<2}, {0x6000 + uint16(r.Intn(0x2000)), uint16(mode) | uint16(r.Intn(128))<<1}}
						perm := [][3]int{{0, 1, 2}, {0, 2, 1}, {1, 0, 2}, {1, 2, 0}, {2, 0, 1}, {2, 1, 0}}[order]
						for _, k := range perm {
							w.write(ws[k][0], uint8(ws[k][1]))
						}
						c.Exact(1)
						c.Count("mbc1_triples", 1)
						if !w.check("MBC1 register triple") {
							return
						}
					}
				}
			}
		} else {
			c.Count("mbc1_triples", 0)
		}
		// stores that look like flash-chip command sequences (unlock cycles, program, erase,
		// ID mode - the patterns of the common command sets): a cartridge ROM is not a flash
		// chip, nothing is programmed or erased, and they are ordinary control stores
		for _, fl := range [][][2]uint16{
			{{0x0aaa, 0xaa}, {0x0555, 0x55}, {0x0aaa, 0xa0}, {0x4123, 0x00}},
			{{0x5555, 0xaa}, {0x2aaa, 0x55}, {0x5555, 0xa0}, {0x0100, 0x00}},
			{{0x0aaa, 0xaa}, {0x0555, 0x55}, {0x0aaa, 0x80}, {0x0aaa, 0xaa}, {0x0555, 0x55}, {0x0aaa, 0x10}},
			{{0x5555, 0xaa}, {0x2aaa, 0x55}, {0x5555, 0x90}, {0x0000, 0xf0}},
			{{0x0aaa, 0xaa}, {0x0555, 0x55}, {0x4000, 0x30}},
		} {
			for _, st := range fl {
				w.write(st[0], uint8(st[1]))
			}
			c.Count("flash_command_sequences", 1)
			if !w.check("flash-style command sequence") {
				return
			}
		}
		// an OAM DMA transfer from the cartridge is running while control stores are made
		for k := 0; k < 6; k++ {
			w.m.Mem.Write(0xff46, r.Pick8([]uint8{0x00, 0x3f, 0x40, 0x7f, 0xa0, 0xbf}))
			for t := r.Intn(40); t > 0; t-- {
				w.m.Mem.EndMachineCycle()
			}
			regs := regions(kind)
			w.write(regs[r.Intn(len(regs))], r.U8())
			w.write(regs[r.Intn(len(regs))], uint8(r.Intn(8)))
			c.Count("control_stores_during_dma", 2)
			if !w.check("control stores while an OAM DMA from the cartridge runs") {
				return
			}
			for t := 0; t < 170; t++ {
				w.m.Mem.EndMachineCycle()
			}
		}
		// random control-write sequences
		nseq := int(c.N(6, 120))
		for s := 0; s < nseq; s++ {
			n := 50 + r.Intn(451)
			for k := 0; k < n; k++ {
				var a uint16
				if r.Chance(1, 3) {
					regs := regions(kind)
					a = regs[r.Intn(len(regs))]
				} else {
					a = uint16(r.Intn(0x8000))
				}
				if r.Chance(1, 16) {
					// a store somewhere else altogether (I/O incl. unmapped registers such as
					// FF50, high RAM, work RAM): writes never change what the ROM windows show
					o := r.Pick16([]uint16{0xff50, 0xff50, 0xff4d, 0xff70, 0xff4f, 0xff00 + uint16(r.Intn(0x100)), 0xc000 + uint16(r.Intn(0x2000))})
					if o != 0xff46 && o != 0xff40 {
						w.m.Mem.Write(o, r.U8())
						c.Count("stores_outside_the_cartridge", 1)
					}
				}
				v := r.U8()
				switch r.Intn(5) {
				case 0:
					v = uint8(r.Intn(4))
				case 1:
					v = uint8(w.ref.ROMBanks-1) & uint8(r.U8())
				}
				w.write(a, v)
				c.Count("sequence_writes", 1)
				if !w.check(fmt.Sprintf("sequence %d write %d", s, k)) {
					return
				}
			}
			c.Case(rig.Hash(uint64(i), uint64(s), r.U64()))
		}
		w.verifyAllPages(c.Quick())
		if i%9 == 0 {
			c.Sample(map[string]any{"cart": fmt.Sprintf("%02X", cf.cart), "rom_banks": w.ref.ROMBanks, "controller": kindName(kind)})
		}
	})
	c.MarkExhaustive("every supported cartridge type x ROM size x (every value to every representative control address, from reset and scrambled; MBC1 BANK1 x BANK2 x MODE)")
}

// newWorldQuiet is newWorld for configurations already known to load.
func newWorldQuiet(c *rig.Ctx, cf cfg, ramCode uint8) *world {
	m := rig.MustNew(image(cf.cart, cf.romCode, ramCode, cf.logo, cf.tail), rig.Opts{})
	return &world{c: c, cf: cf, ramCode: ramCode, m: m, ref: ref.NewMBC(cf.cart, cf.romCode, ramCode)}
}

func main() {
	rig.Main(rig.Spec{
		ID:  "C08",
		Run: run,
		Rule: "configurations = supported cartridge type x every ROM size code the controller addresses; per configuration: exhaustive single control writes (address class x value, from reset and scrambled), " +
			"MBC1 register triples, random write sequences (distinct by seed-derived sequence); after every write both ROM windows are identified by page signature",
		Assumptions: []string{"reference controllers follow the register semantics in the statement (MBC1 5+2 bit with mode, MBC2 A8, MBC3 7 bit, MBC5 9 bit, 0->1 remap except MBC5, modulo ROM size)",
			"ROM size limits: MBC1/MBC3 2 MiB, MBC2 256 KiB, MBC5 8 MiB, ROM-only 32 KiB; larger declared sizes are exercised by C11 only"},
	})
}
