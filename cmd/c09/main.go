// C09 — cartridge RAM is gated, banked and retained per controller.
//
// Oracle: the RAM side of the reference controllers (internal/ref/mbc.go): enable gate (low
// nibble A), bank selection per controller taken modulo the bank count, one 8 KiB bank when the
// header declares none, contents persistent across disable/enable and bank switches, disabled
// reads FF, MBC2 512 x 4 bit mirrored with the upper nibble reading 1, ROM-only reads FF, and
// DumpRAM = concatenation of the banks' stored bytes. A cell is compared once the history has
// written it (initial RAM contents are not part of the statement).
package main

import (
	"fmt"

	"verif/internal/ref"
	"verif/internal/rig"
)

type cfg struct{ cart, ramCode uint8 }

type world struct {
	c     *rig.Ctx
	cf    cfg
	m     *rig.Machine
	ref   *ref.MBC
	known [][]bool
	hist  []string
	// another cartridge alive in the same process: it has its own RAM (or none), and whatever
	// it stores stays its own
	other  *rig.Machine
	otherN int
}

// otherCart loads a second cartridge (no RAM declared, or a small RAM) and enables its RAM.
func otherCart(n int) *rig.Machine {
	cart := []uint8{0x01, 0x11, 0x19, 0x00, 0x03, 0x13, 0x1b}[n%7]
	ramCode := uint8(0)
	if cart == 0x03 || cart == 0x13 || cart == 0x1b {
		ramCode = 2
	}
	romCode := uint8(1)
	if cart == 0x00 {
		romCode = 0
	}
	m := rig.MustNew(append([]byte{}, romImage(cart, romCode, ramCode)...), rig.Opts{})
	m.Mem.Write(0x0000, 0x0a)
	return m
}

func kindName(k ref.MBCKind) string {
	return [...]string{"romonly", "mbc1", "mbc2", "mbc3", "mbc5"}[k]
}

func (w *world) log(s string) {
	if len(w.hist) >= 14 {
		copy(w.hist, w.hist[1:])
		w.hist = w.hist[:13]
	}
	w.hist = append(w.hist, s)
}

func (w *world) write(addr uint16, v uint8) {
	w.m.Mem.Write(addr, v)
	if w.other != nil && addr >= 0xa000 && addr < 0xc000 {
		w.otherN++
		switch {
		case w.otherN%3 == 0:
			w.other.Mem.Write(addr, ^v) // the other cartridge stores something else at the same address
			w.c.Count("stores_by_the_other_cartridge", 1)
		case w.otherN%37 == 5:
			w.other = otherCart(w.otherN) // ... or is replaced by a freshly loaded one
			w.c.Count("other_cartridges_loaded", 1)
		}
	}
	b := w.ref.RAMBank()
	if w.ref.Write(addr, v) {
		if w.ref.Kind == ref.MBC2 {
			w.known[0][addr&0x1ff] = true
		} else {
			w.known[b][addr-0xa000] = true
		}
	}
	w.log(fmt.Sprintf("%04X<-%02X", addr, v))
}

func (w *world) class(what string) string {
	return fmt.Sprintf("%s-ram%d-%s", kindName(w.ref.Kind), w.cf.ramCode, what)
}

func (w *world) read(addr uint16) bool {
	got := w.m.Mem.Read(addr)
	want, defined := w.ref.ReadRAM(addr)
	if !defined {
		w.c.Count("reads_clock_or_unmapped_selected", 1)
		return true
	}
	w.c.Count("reads", 1)
	mask := uint8(0xff)
	if w.ref.RAMG && w.ref.Kind != ref.MBCNone {
		if w.ref.Kind == ref.MBC2 {
			if !w.known[0][addr&0x1ff] {
				mask = 0xf0
			}
		} else if !w.known[w.ref.RAMBank()][addr-0xa000] {
			w.c.Count("reads_of_unwritten_cells", 1)
			return true
		}
		w.c.Count("reads_enabled", 1)
	} else {
		w.c.Count("reads_disabled", 1)
	}
	if got&mask != want&mask {
		state := "enabled"
		if !w.ref.RAMG {
			state = "disabled"
		}
		w.c.Violate(w.class("read-"+state), fmt.Sprintf("cart %02X RAM code %d (%d banks), after %v: [%04X] reads %02X, expected %02X (mask %02X; RAM %s, bank %d)",
			w.cf.cart, w.cf.ramCode, w.ref.RAMCount, w.hist, addr, got, want, mask, state, w.ref.RAMBank()),
			map[string]any{"cart": w.cf.cart, "ram_code": w.cf.ramCode, "history": fmt.Sprint(w.hist), "addr": fmt.Sprintf("%04X", addr)})
		return false
	}
	return true
}

func (w *world) dump() bool {
	d := w.m.Mem.DumpRAM()
	w.c.Count("dumps", 1)
	switch w.ref.Kind {
	case ref.MBCNone:
		if len(d) != 0 {
			w.c.Violate(w.class("dump-length"), fmt.Sprintf("ROM-only cartridge dumps %d bytes of RAM", len(d)), nil)
			return false
		}
		return true
	case ref.MBC2:
		if len(d) != 512 {
			w.c.Violate(w.class("dump-length"), fmt.Sprintf("MBC2 dump has %d bytes, want 512", len(d)), nil)
			return false
		}
		for i := 0; i < 512; i++ {
			if w.known[0][i] && d[i]&0x0f != w.ref.RAM[0][i] {
				w.c.Violate(w.class("dump-contents"), fmt.Sprintf("MBC2 after %v: dump[%03X]=%02X, stored nibble %X", w.hist, i, d[i], w.ref.RAM[0][i]), nil)
				return false
			}
		}
		return true
	}
	if len(d) != w.ref.RAMCount*0x2000 {
		w.c.Violate(w.class("dump-length"), fmt.Sprintf("cart %02X RAM code %d: dump has %d bytes, want %d banks x 8 KiB", w.cf.cart, w.cf.ramCode, len(d), w.ref.RAMCount), nil)
		return false
	}
	for b := 0; b < w.ref.RAMCount; b++ {
		for o := 0; o < 0x2000; o++ {
			if w.known[b][o] && d[b*0x2000+o] != w.ref.RAM[b][o] {
				w.c.Violate(w.class("dump-contents"), fmt.Sprintf("cart %02X after %v: dump bank %d offset %04X = %02X, stored %02X", w.cf.cart, w.hist, b, o, d[b*0x2000+o], w.ref.RAM[b][o]), nil)
				return false
			}
		}
	}
	return true
}

func ramAddr(r *rig.Rng) uint16 {
	switch r.Intn(6) {
	case 0:
		return r.Pick16([]uint16{0xa000, 0xa001, 0xa1ff, 0xa200, 0xa3ff, 0xbdff, 0xbe00, 0xbffe, 0xbfff, 0xafff, 0xb000})
	case 1: // a small set, so cells are revisited often
		return 0xa000 + uint16(r.Intn(16))*0x0201
	}
	return 0xa000 + uint16(r.Intn(0x2000))
}

// romImage returns a signature image of the given size with the header set; images are
// cached per size (every controller copies its pages, and a ROM-only cartridge has one size).
var romImages = map[uint8][]byte{}

func romImage(cart, romCode, ramCode uint8) []byte {
	img := romImages[romCode]
	if img == nil {
		img = rig.SignatureROM(cart, romCode, ramCode)
		romImages[romCode] = img
	}
	img[0x147], img[0x148], img[0x149] = cart, romCode, ramCode
	return img
}

func run(c *rig.Ctx) {
	c.Require("histories", "reads_enabled", "reads_disabled", "dumps", "bank_selects_out_of_range", "enable_disable_toggles", "writes_stored", "writes_while_disabled", "histories_with_rom_of_1MiB_or_more")
	var cfgs []cfg
	for _, cart := range []uint8{0x00, 0x01, 0x02, 0x03, 0x05, 0x06, 0x0f, 0x10, 0x11, 0x12, 0x13, 0x19, 0x1a, 0x1b, 0x1c, 0x1d, 0x1e} {
		for _, rc := range []uint8{0, 2, 3, 4, 5} {
			k, _ := ref.KindOf(cart)
			if (k == ref.MBCNone || k == ref.MBC2) && rc != 0 {
				continue
			}
			cfgs = append(cfgs, cfg{cart, rc})
		}
	}
	per := c.N(60, 2000)
	c.Part("histories", int64(len(cfgs))*per, func(i int64, r *rig.Rng) {
		cf := cfgs[i/per]
		// ROM sizes vary too: RAM banking must not depend on how large the ROM is
		romCode := []uint8{1, 1, 2, 1, 4, 1, 5, 6}[(i%per)%8]
		kk, _ := ref.KindOf(cf.cart)
		if romCode > ref.MaxROMCode(kk) {
			romCode = ref.MaxROMCode(kk)
		}
		if kk == ref.MBCNone {
			romCode = 0
		}
		if romCode >= 5 {
			c.Count("histories_with_rom_of_1MiB_or_more", 1)
		}
		img := romImage(cf.cart, romCode, cf.ramCode)
		m, err := rig.New(img, rig.Opts{})
		if err != nil {
			c.Violate(fmt.Sprintf("cart%02X-ram%d-load", cf.cart, cf.ramCode), fmt.Sprintf("cartridge type %02X with RAM size code %d does not load: %v", cf.cart, cf.ramCode, err), nil)
			return
		}
		w := &world{c: c, cf: cf, m: m, ref: ref.NewMBC(cf.cart, img[0x148], cf.ramCode)}
		if i%2 == 1 {
			w.other = otherCart(int(i / 2))
		}
		for b := 0; b < len(w.ref.RAM); b++ {
			w.known = append(w.known, make([]bool, len(w.ref.RAM[b])))
		}
		kind := w.ref.Kind
		nops := 80 + r.Intn(240)
		ok := true
		for k := 0; k < nops && ok; k++ {
			if r.Chance(1, 14) {
				// two control stores of the same value to neighbouring addresses of one block
				// (for an MBC2, bit 8 of the address makes them two different registers)
				a := uint16(r.Intn(0x6000))
				v := r.Pick8([]uint8{0x0a, 0x0a, 0x00, 0x01, r.U8()})
				w.write(a, v)
				w.write(a^0x100, v)
				c.Count("same_value_store_pairs", 1)
				continue
			}
			switch r.Intn(16) {
			case 0: // enable
				a := uint16(r.Intn(0x2000))
				if kind == ref.MBC2 {
					a = uint16(r.Intn(0x4000)) &^ 0x100
				}
				w.write(a, 0x0a|r.U8()&0xf0)
				c.Count("enable_disable_toggles", 1)
			case 1: // disable: any value whose low nibble is not A
				a := uint16(r.Intn(0x2000))
				if kind == ref.MBC2 {
					a = uint16(r.Intn(0x4000)) &^ 0x100
				}
				v := r.U8()
				if v&0x0f == 0x0a {
					v ^= 0x01
				}
				w.write(a, v)
				c.Count("enable_disable_toggles", 1)
			case 2, 3: // RAM bank select, including out-of-range numbers
				v := r.U8()
				if r.Chance(1, 2) {
					v &= 0x0f
				}
				if kind == ref.MBC3 && r.Chance(2, 3) {
					v &= 0x07
				}
				if int(v&0x0f) >= w.ref.RAMCount {
					c.Count("bank_selects_out_of_range", 1)
				}
				w.write(0x4000+uint16(r.Intn(0x2000)), v)
			case 4: // mode (MBC1) / latch (MBC3) / ignored
				w.write(0x6000+uint16(r.Intn(0x2000)), uint8(r.Intn(2))|r.U8()&0xfe*uint8(r.Intn(2)))
			case 5: // ROM bank writes must not disturb RAM
				w.write(0x2000+uint16(r.Intn(0x2000)), r.U8())
			case 6, 7, 8, 9, 10: // data write
				a := ramAddr(r)
				before := w.ref.RAMG
				w.write(a, r.U8())
				if before && kind != ref.MBCNone {
					c.Count("writes_stored", 1)
				} else {
					c.Count("writes_while_disabled", 1)
				}
				ok = w.read(a)
			case 11, 12, 13, 14:
				ok = w.read(ramAddr(r))
			case 15:
				ok = w.dump()
			}
		}
		if ok {
			// final: every written cell of every bank is still there
			ok = w.dump()
		}
		c.Count("histories", 1)
		c.Case(rig.Hash(uint64(i), r.U64()))
		if i%per == 0 {
			c.Sample(map[string]any{"cart": fmt.Sprintf("%02X", cf.cart), "ram_code": cf.ramCode, "banks": w.ref.RAMCount, "last_ops": fmt.Sprint(w.hist)})
		}
	})
}

func main() {
	rig.Main(rig.Spec{
		ID:  "C09",
		Run: run,
		Rule: "one case = a random history of 80-320 operations {enable, disable, RAM bank select incl. out-of-range, mode/latch, ROM bank write, data write, read, dump} on one (cartridge type, RAM size code) configuration; " +
			"all 17 supported types x RAM codes {0,2,3,4,5}; distinct by seed-derived history",
		Assumptions: []string{"reference RAM semantics as in the statement; MBC3 clock registers (banks 08-0C) are judged by C10 and bank numbers 0D-0F and RAM size code 1 only by C11",
			"initial RAM contents are not compared (only cells the history wrote)"},
	})
}
