// C10 — the MBC3 real-time clock keeps time and latches correctly.
//
// Oracle: a reference clock (1 048 576 machine cycles per second while not halted; carries at
// 60/60/24/512 with the day-carry flag; counters written outside their range wrap at their bit
// width without carrying; latch on a 00-then-01 write; reads come from the latch, masked;
// writes set the live counters; a seconds write restarts the sub-second count; halt freezes).
//
// (a) one-step exhaustive, through the hook: every (s<64, m<64, h<32, d<512, carry) state with
// the sub-second count on the last cycle of the second, one Mapper.EndMachineCycle, compare.
// (b) random histories through the guest-visible path only (Mapper.Write 0000/4000/6000/A000,
// Mapper.Read A000) interleaved with real elapsed time; the hook is used only to move the
// sub-second count to just before a rollover. (c) the time base itself: exactly 2^20 cycles.
package main

import (
	"fmt"

	"verif/internal/rig"
)

type clock struct {
	s, m, h     uint8
	d           uint16
	carry, halt bool
	sub         int
	// latch
	ls, lm, lh uint8
	ld         uint16
	lcarry     bool
	lhalt      bool
	latched    bool
	sawZero    bool
}

func (k *clock) second() {
	k.s = (k.s + 1) & 0x3f
	if k.s != 60 {
		return
	}
	k.s = 0
	k.m = (k.m + 1) & 0x3f
	if k.m != 60 {
		return
	}
	k.m = 0
	k.h = (k.h + 1) & 0x1f
	if k.h != 24 {
		return
	}
	k.h = 0
	k.d++
	if k.d == 512 {
		k.d = 0
		k.carry = true
	}
}

func (k *clock) tick(n int) {
	if k.halt {
		return
	}
	k.sub += n
	for k.sub >= 1048576 {
		k.sub -= 1048576
		k.second()
	}
}

func (k *clock) latch(v uint8) {
	if v == 0 {
		k.sawZero = true
		return
	}
	if v == 1 && k.sawZero {
		k.ls, k.lm, k.lh, k.ld, k.lcarry, k.lhalt = k.s, k.m, k.h, k.d, k.carry, k.halt
		k.latched = true
	}
	k.sawZero = false
}

func (k *clock) read(reg uint8) uint8 {
	switch reg {
	case 0x08:
		return k.ls & 0x3f
	case 0x09:
		return k.lm & 0x3f
	case 0x0a:
		return k.lh & 0x1f
	case 0x0b:
		return uint8(k.ld)
	}
	v := uint8(k.ld>>8) & 1
	if k.lhalt {
		v |= 0x40
	}
	if k.lcarry {
		v |= 0x80
	}
	return v
}

func (k *clock) write(reg, v uint8) {
	switch reg {
	case 0x08:
		k.s = v & 0x3f
		k.sub = 0
	case 0x09:
		k.m = v & 0x3f
	case 0x0a:
		k.h = v & 0x1f
	case 0x0b:
		k.d = k.d&0x100 | uint16(v)
	case 0x0c:
		k.d = k.d&0xff | uint16(v&1)<<8
		k.halt = v&0x40 != 0
		k.carry = v&0x80 != 0
	}
}

// newMachine builds a cartridge with a clock: both cartridge types that have one (0F without
// RAM, 10 with RAM), ROM and RAM sizes varied, in rotation.
var machines int

func newMachine() *rig.Machine {
	machines++
	cart, ram := uint8(0x10), uint8(3)
	switch machines % 4 {
	case 1:
		cart, ram = 0x0f, 0
	case 2:
		ram = 2
	}
	m := rig.MustNew(rig.SignatureROM(cart, uint8(1+machines%3), ram), rig.Opts{})
	m.Quiet()
	return m
}

func run(c *rig.Ctx) {
	c.Require("one_step_states", "history_ops", "latches", "rollovers_seen", "halted_stretches", "timebase_runs", "out_of_range_states", "timebase_dma_starts")

	// (a) one-step exhaustive
	c.Part("step", 512, func(i int64, _ *rig.Rng) {
		m := newMachine()
		d := uint16(i)
		var n, oor int64
		for carry := 0; carry < 2; carry++ {
			for h := 0; h < 32; h++ {
				for mi := 0; mi < 64; mi++ {
					for s := 0; s < 64; s++ {
						k := clock{s: uint8(s), m: uint8(mi), h: uint8(h), d: d, carry: carry == 1, sub: 1048575}
						m.Mem.XRTCSetLive(uint8(s), uint8(mi), uint8(h), d, carry == 1, false)
						m.Mem.XRTCSetTicks(1048575)
						m.Mem.EndMachineCycle()
						k.tick(1)
						g := m.Mem.XRTC()
						if g.S != k.s || g.M != k.m || g.H != k.h || g.D != k.d || g.Carry != k.carry || g.Ticks != k.sub {
							c.Violate(fmt.Sprintf("step-s%d-m%d-h%d", b2i(s >= 59), b2i(mi >= 59), b2i(h >= 23)),
								fmt.Sprintf("one second from %dd %02d:%02d:%02d carry=%v gives %dd %02d:%02d:%02d carry=%v (sub %d), documented %dd %02d:%02d:%02d carry=%v",
									d, h, mi, s, carry == 1, g.D, g.H, g.M, g.S, g.Carry, g.Ticks, k.d, k.h, k.m, k.s, k.carry), nil)
						}
						n++
						if s >= 60 || mi >= 60 || h >= 24 {
							oor++
						}
					}
				}
			}
		}
		c.Exact(n)
		c.Count("one_step_states", n)
		c.Count("out_of_range_states", oor)
		// halted: the same instant must not advance
		m.Mem.XRTCSetLive(59, 59, 23, d, false, true)
		m.Mem.XRTCSetTicks(1048575)
		m.Mem.EndMachineCycle()
		if g := m.Mem.XRTC(); g.S != 59 || g.M != 59 || g.H != 23 || g.D != d || g.Ticks != 1048575 {
			c.Violate("step-halted-advances", fmt.Sprintf("halted clock advanced: %+v", g), nil)
		}
		if i == 511 {
			c.Sample(map[string]any{"class": "step", "day": d, "states": n, "note": "every (s<64, m<64, h<32, carry) for this day value, one rollover step each"})
		}
	})
	c.MarkExhaustive("every clock counter state (s, m, h in their bit widths, 9-bit day, carry) x one second step")

	// (b) random histories through the guest-visible path
	nh := c.N(160, 4000)
	c.Part("histories", nh, func(i int64, r *rig.Rng) {
		m := newMachine()
		k := &clock{}
		var hist []string
		log := func(s string) {
			if len(hist) >= 16 {
				copy(hist, hist[1:])
				hist = hist[:15]
			}
			hist = append(hist, s)
		}
		sel := uint8(0)
		enabled := false
		wr := func(a uint16, v uint8) { m.Mem.Write(a, v); log(fmt.Sprintf("%04X<-%02X", a, v)) }
		elapse := func(n int) {
			for t := 0; t < n; t++ {
				m.Mem.EndMachineCycle()
			}
			before := k.s
			k.tick(n)
			if k.s != before {
				c.Count("rollovers_seen", 1)
			}
			if k.halt {
				c.Count("halted_stretches", 1)
			}
			log(fmt.Sprintf("+%d cycles", n))
		}
		nops := 60 + r.Intn(120)
		for op := 0; op < nops; op++ {
			switch r.Intn(12) {
			case 0:
				wr(0x0000+uint16(r.Intn(0x2000)), 0x0a)
				enabled = true
			case 1:
				if r.Chance(1, 4) {
					wr(0x0000, 0x00)
					enabled = false
				}
			case 2, 3: // select a clock register
				sel = 0x08 + uint8(r.Intn(5))
				wr(0x4000+uint16(r.Intn(0x2000)), sel)
			case 4, 5: // latch: exactly 00 then 01, sometimes only half of the pair
				switch r.Intn(5) {
				case 0:
					wr(0x6000, 0x01)
					k.latch(1)
				case 1:
					wr(0x6000, 0x00)
					k.latch(0)
				default:
					wr(0x6000+uint16(r.Intn(0x2000)), 0x00)
					k.latch(0)
					wr(0x6000+uint16(r.Intn(0x2000)), 0x01)
					k.latch(1)
					c.Count("latches", 1)
				}
			case 6, 7: // write the selected register
				if enabled && sel >= 8 {
					v := r.U8()
					switch r.Intn(4) {
					case 0:
						v = r.Pick8([]uint8{58, 59, 60, 61, 63, 22, 23, 24, 31, 0xff, 0xfe, 0x00, 0x01, 0x40, 0x80, 0xc1})
					}
					wr(0xa000+uint16(r.Intn(0x2000)), v)
					k.write(sel, v)
				}
			case 8: // elapse real time
				elapse(r.PickInt([]int{1, 2, 3, 100, 5000, 70000, 1048576, 1048577, 2000000}))
			case 9: // jump to just before a rollover (hook), mirrored in the reference
				if !k.halt {
					left := 1 + r.Intn(4)
					m.Mem.XRTCSetTicks(1048576 - left)
					k.sub = 1048576 - left
					log(fmt.Sprintf("(sub-second count set %d cycles before the next second)", left))
					elapse(left - 1 + r.Intn(3))
				}
			default: // read the selected register
				if sel >= 8 {
					got := m.Mem.Read(0xa000 + uint16(r.Intn(0x2000)))
					want := uint8(0xff)
					judged := true
					if enabled {
						want = k.read(sel)
						judged = k.latched
					}
					if judged && got != want {
						c.Violate(fmt.Sprintf("history-read-reg%02X", sel), fmt.Sprintf("after %v: clock register %02X reads %02X, expected %02X (reference live %dd %02d:%02d:%02d carry=%v halt=%v sub=%d)",
							hist, sel, got, want, k.d, k.h, k.m, k.s, k.carry, k.halt, k.sub), map[string]any{"history": fmt.Sprint(hist)})
						return
					}
				}
			}
			c.Count("history_ops", 1)
		}
		c.Case(rig.Hash(uint64(i), r.U64()))
		if i < 2 {
			c.Sample(map[string]any{"class": "history", "last_ops": fmt.Sprint(hist)})
		}
	})

	// (b2) carry chains through the guest-visible path: counters written at (or not at) their
	// carry boundary with every combination of unused high bits set in the written bytes, then
	// one second elapses and all five registers are read back through a latch
	c.Part("chains", 16*16*4, func(i int64, r *rig.Rng) {
		m := newMachine()
		k := &clock{}
		// atBoundary: bit0 s=59, bit1 m=59, bit2 h=23, bit3 day low=FF
		// garbage: which written bytes carry unused high bits
		// dayHi: bit0 day bit 8, bit1 carry flag already set
		atBoundary := int(i) & 15
		garbage := int(i>>4) & 15
		dayHi := int(i>>8) & 3
		m.Mem.Write(0x0000, 0x0a)
		vals := [5]uint8{uint8(r.Intn(59)), uint8(r.Intn(59)), uint8(r.Intn(23)), uint8(r.Intn(255)), uint8(dayHi&1) | uint8(dayHi&2)<<6}
		if atBoundary&1 != 0 {
			vals[0] = 59
		}
		if atBoundary&2 != 0 {
			vals[1] = 59
		}
		if atBoundary&4 != 0 {
			vals[2] = 23
		}
		if atBoundary&8 != 0 {
			vals[3] = 0xff
		}
		hi := [5]uint8{0xc0, 0xc0, 0xe0, 0x00, 0x3e}
		// seconds last: its write restarts the sub-second count
		for _, reg := range []int{1, 2, 3, 4, 0} {
			v := vals[reg]
			if garbage&(1<<uint(reg%4)) != 0 {
				if r.Bool() {
					v |= hi[reg]
				} else {
					v |= hi[reg] & r.U8()
				}
			}
			m.Mem.Write(0x4000, 0x08+uint8(reg))
			m.Mem.Write(0xa000, v)
			k.write(0x08+uint8(reg), v)
		}
		m.Mem.XRTCSetTicks(1048576 - 2)
		k.sub = 1048576 - 2
		for t := 0; t < 3; t++ {
			m.Mem.EndMachineCycle()
		}
		k.tick(3)
		m.Mem.Write(0x6000, 0)
		m.Mem.Write(0x6000, 1)
		k.latch(0)
		k.latch(1)
		for reg := uint8(0x08); reg <= 0x0c; reg++ {
			m.Mem.Write(0x4000, reg)
			if got, want := m.Mem.Read(0xa000), k.read(reg); got != want {
				c.Violate(fmt.Sprintf("chain-reg%02X", reg), fmt.Sprintf("written s=%02X m=%02X h=%02X dl=%02X dh=%02X (garbage mask %X), one second later register %02X reads %02X, expected %02X",
					vals[0], vals[1], vals[2], vals[3], vals[4], garbage, reg, got, want), nil)
			}
		}
		c.Exact(1)
		c.Count("chain_cases", 1)
	})

	// (c) the time base through the guest-visible path only: after a seconds write the next
	// second arrives after exactly 1 048 576 machine cycles
	nt := c.N(16, 200)
	c.Part("timebase", nt, func(i int64, r *rig.Rng) {
		m := newMachine()
		m.Mem.Write(0x0000, 0x0a)
		m.Mem.Write(0x4000, 0x08)
		pre := r.Intn(300000)
		for t := 0; t < pre; t++ {
			m.Mem.EndMachineCycle()
		}
		s0 := uint8(r.Intn(58))
		m.Mem.Write(0xa000, s0) // restarts the sub-second count
		readS := func() uint8 {
			m.Mem.Write(0x6000, 0)
			m.Mem.Write(0x6000, 1)
			return m.Mem.Read(0xa000)
		}
		// in every other run the rest of the machine is busy meanwhile: OAM DMA transfers, LCD
		// switching, ROM bank switches, timer and sound activity (a second is 2^20 machine
		// cycles whatever else happens in them)
		busy := i%2 == 1
		for t := 0; t < 1048575; t++ {
			if busy {
				if t%1021 == 0 {
					switch r.Intn(5) {
					case 0, 1:
						m.Mem.Write(0xff46, uint8(r.Intn(0xf2)))
						c.Count("timebase_dma_starts", 1)
					case 2:
						m.Mem.Write(0xff40, r.U8())
					case 3:
						m.Mem.Write(0x2000, r.U8())
					case 4:
						m.Mem.Write(0xff07, r.U8())
					}
				}
				m.PPU.EndMachineCycle()
				m.Audio.EndMachineCycle()
				if m.Timer.EndMachineCycle() {
					m.IRQ.RequestTimer()
				}
			}
			m.Mem.EndMachineCycle()
		}
		if got := readS(); got != s0 {
			c.Violate("timebase-early", fmt.Sprintf("seconds advanced to %d before 1 048 576 cycles had elapsed since the seconds write (%d)", got, s0), nil)
		}
		m.Mem.EndMachineCycle()
		if got := readS(); got != s0+1 {
			c.Violate("timebase-late", fmt.Sprintf("seconds read %d after exactly 1 048 576 cycles since writing %d", got, s0), nil)
		}
		// halted: no advance over more than a second
		m.Mem.Write(0x4000, 0x0c)
		m.Mem.Write(0xa000, 0x40)
		m.Mem.Write(0x4000, 0x08)
		for t := 0; t < 1100000; t++ {
			m.Mem.EndMachineCycle()
		}
		if got := readS(); got != s0+1 {
			c.Violate("halted-clock-advances", fmt.Sprintf("seconds went from %d to %d while halted", s0+1, got), nil)
		}
		c.Case(rig.Hash(uint64(pre), uint64(s0)))
		c.Count("timebase_runs", 1)
	})
}

func b2i(b bool) int {
	if b {
		return 1
	}
	return 0
}

func main() {
	rig.Main(rig.Spec{
		ID:  "C10",
		Run: run,
		Rule: "step cases: every counter state x one second step, enumerated completely through the hook; history cases: random latch/read/write/halt/enable operations interleaved with elapsed machine cycles through the guest-visible path " +
			"(distinct by seed-derived history); time-base cases: exact 2^20-cycle second after a seconds write",
		Assumptions: []string{"out-of-range counter values (60-63, 24-31) wrap at their bit width without carrying", "latch pairs use exactly 00 then 01; reads before the first latch are not judged",
			"the hook is used to set counters/sub-second count, never to read the values that are judged in the history and time-base parts"},
	})
}
