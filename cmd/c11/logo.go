package main

// Images that look like multi-game cartridges (boot logo and a header at the start of every
// 256 KiB block) and like ordinary ones (logo in block 0 only), for every MBC type and ROM size,
// also with ROM-size codes that do not match the image length: every bank-register combination
// is written and both ROM windows and the RAM window are read.

import "verif/internal/rig"

var bootLogo = []byte{0xce, 0xed, 0x66, 0x66, 0xcc, 0x0d, 0x00, 0x0b, 0x03, 0x73, 0x00, 0x83, 0x00, 0x0c, 0x00, 0x0d, 0x00, 0x08, 0x11, 0x1f, 0x88, 0x89, 0x00, 0x0e,
	0xdc, 0xcc, 0x6e, 0xe6, 0xdd, 0xdd, 0xd9, 0x99, 0xbb, 0xbb, 0x67, 0x63, 0x6e, 0x0e, 0xec, 0xcc, 0xdd, 0xdc, 0x99, 0x9f, 0xbb, 0xb9, 0x33, 0x3e}

func logoImages(c *rig.Ctx) {
	c.Require("logo_image_cases")
	c.Part("logo-images", int64(len(supported))*8*2, func(i int64, r *rig.Rng) {
		cart := supported[i/16]
		romCode := uint8(i/2) % 8
		every := i%2 == 1
		if romCode > 6 {
			romCode = 5
		}
		img := make([]byte, 0x8000<<romCode)
		copy(img, r.Bytes(0x4000))
		for base := 0; base < len(img); base += 0x40000 {
			if base == 0 || every {
				copy(img[base+0x104:], bootLogo)
				img[base+0x147], img[base+0x148], img[base+0x149] = cart, romCode, uint8(r.Intn(6))
			}
		}
		declared := romCode
		if r.Chance(1, 3) {
			declared = uint8(r.Intn(9)) // the header may lie about the size
		}
		img[0x147], img[0x148], img[0x149] = cart, declared, uint8(r.Intn(6))
		m, err := rig.New(img, rig.Opts{})
		if err != nil {
			c.Count("constructions_failed", 1)
			return
		}
		c.Count("constructions_ok", 1)
		settle(m)
		for mode := 0; mode < 2; mode++ {
			m.Mem.Write(0x6000, uint8(mode))
			for b2 := 0; b2 < 4; b2++ {
				m.Mem.Write(0x4000, uint8(b2))
				for b1 := 0; b1 < 32; b1 += 1 + r.Intn(3) {
					m.Mem.Write(0x2000, uint8(b1))
					m.Mem.Write(0x3000, uint8(b2))
					m.Mem.Write(0x2100, uint8(b1))
					probe(m)
				}
			}
		}
		c.Count("logo_image_cases", 1)
		c.Exact(1)
	})
}
