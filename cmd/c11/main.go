// C11 — no cartridge image or guest program can crash the emulator.
//
// Events: Go panics raised inside the emulator while a monitor case drives it (recovered per
// case by the framework and reported with the stack), deaths of worker processes (runtime
// fatal errors, os.Exit), and the deliberate stop on an undefined opcode observed in dedicated
// child processes. Oracle: a panic during construction is a legal outcome; after construction
// succeeded any panic or death is a violation, except exit status 1 with the "is not a valid
// instruction" message when, and only when, the opcode fetched was one of the 11 undefined ones.
package main

import (
	"bytes"
	"fmt"
	"io"
	"os"
	"os/exec"
	"strings"

	"verif/internal/prog"
	"verif/internal/ref"
	"verif/internal/rig"
)

var supported = []uint8{0x00, 0x01, 0x02, 0x03, 0x05, 0x06, 0x0f, 0x10, 0x11, 0x12, 0x13, 0x19, 0x1a, 0x1b, 0x1c, 0x1d, 0x1e}

var undefinedOps = []uint8{0xd3, 0xdb, 0xdd, 0xe3, 0xe4, 0xeb, 0xec, 0xed, 0xf4, 0xfc, 0xfd}

func image(cart, romCode, ramCode uint8, r *rig.Rng) []byte {
	n := 0x8000 << romCode
	img := make([]byte, n)
	if r != nil {
		// random contents in the first two pages (code), zeros elsewhere
		copy(img, r.Bytes(0x8000))
	}
	img[0x147], img[0x148], img[0x149] = cart, romCode, ramCode
	return img
}

// stepGuarded advances one machine cycle unless the CPU is about to fetch an undefined opcode
// (the deliberate stop), in which case it reports false.
func stepGuarded(m *rig.Machine) bool {
	if m.CPU.XAtBoundary() && !m.CPU.XHalted() && !m.CPU.XStopped() {
		op := m.PeekOpcode()
		if rig.IsUndefinedOpcode(op) {
			// an interrupt dispatch would come first; only stop if none is due
			if !(m.IRQ.Enabled() && m.IRQ.Pending()) {
				return false
			}
		}
	}
	m.Step()
	return true
}

var windowProbes = []uint16{0x0000, 0x0100, 0x3fff, 0x4000, 0x4001, 0x5abc, 0x7fff, 0x8000, 0x9fff, 0xa000, 0xa001, 0xa1ff, 0xa200, 0xb000, 0xbfff, 0xc000, 0xfe00, 0xfe9f, 0xff00, 0xffff}

var probes int

func probe(m *rig.Machine) {
	for _, a := range windowProbes {
		_ = m.Mem.Read(a)
	}
	probes++
	if probes%64 == 0 {
		_ = m.Mem.DumpRAM()
	}
}

// settle runs the first machine cycles before the harness touches memory: a guest cannot
// access memory before the first PPU cycle either (the emulated OAM-bug state is only
// meaningful once the PPU has read OAM).
func settle(m *rig.Machine) {
	for k := 0; k < 4; k++ {
		if !stepGuarded(m) {
			m.PPU.EndMachineCycle()
		}
	}
}

func controlAddrs() []uint16 {
	var out []uint16
	for base := 0; base < 0x8000; base += 0x1000 {
		out = append(out, uint16(base), uint16(base+0x0100), uint16(base+0x0fff))
	}
	return out
}

func run(c *rig.Ctx) {
	c.Require("single_write_cases", "dma_cases", "history_ops", "program_cycles", "image_cases", "constructions_failed", "constructions_ok", "programs_ended_at_undefined_opcode", "programs_with_outputs_attached", "retriggers")

	// (v) deliberate stop: only run when asked for explicitly (each in its own child process)
	if c.OnlyPart == "undef" {
		c.Part("undef", int64(len(undefinedOps))+2, func(i int64, r *rig.Rng) {
			op := uint8(0x00)
			if int(i) < len(undefinedOps) {
				op = undefinedOps[i]
			}
			img := image(0x00, 0, 0, nil)
			rig.Put(img, 0x100, op, 0x18, 0xfe) // op; JR -2
			m := rig.MustNew(img, rig.Opts{})
			for k := 0; k < 64; k++ {
				m.Step()
			}
			fmt.Println("survived 64 cycles")
		})
		return
	}

	// (i) exhaustive single writes: type x ROM size x RAM size x value x control address
	type cfg struct{ cart, rom, ram uint8 }
	var cfgs []cfg
	for _, cart := range supported {
		for rom := uint8(0); rom <= 8; rom++ {
			for _, ram := range []uint8{0, 1, 2, 3, 4, 5} {
				if rom > 4 && ram != 0 && ram != 3 {
					continue
				}
				cfgs = append(cfgs, cfg{cart, rom, ram})
			}
		}
	}
	c.Part("single", int64(len(cfgs)), func(i int64, r *rig.Rng) {
		cf := cfgs[i]
		m, err := rig.New(image(cf.cart, cf.rom, cf.ram, nil), rig.Opts{})
		if err != nil {
			c.Count("constructions_failed", 1)
			c.Count(fmt.Sprintf("construction_failed_cart%02X_rom%d", cf.cart, cf.rom), 1)
			return
		}
		c.Count("constructions_ok", 1)
		settle(m)
		probe(m)
		for _, a := range controlAddrs() {
			for v := 0; v < 256; v++ {
				m.Mem.Write(a, uint8(v))
				probe(m)
				// and a RAM write/read with the banking just selected
				m.Mem.Write(0xa000+uint16(v)*31, uint8(v))
				_ = m.Mem.Read(0xa000 + uint16(v)*31)
			}
		}
		n := int64(len(controlAddrs()) * 256)
		c.Exact(n)
		c.Count("single_write_cases", n)
		if i%37 == 0 {
			c.Sample(map[string]any{"class": "single", "cart": fmt.Sprintf("%02X", cf.cart), "rom_code": cf.rom, "ram_code": cf.ram})
		}
	})
	c.MarkExhaustive("supported cartridge type x ROM size code 0-8 x RAM size code x every value to 24 control addresses, all windows read after each")

	// (ii) random multi-step histories over the whole address space
	nh := c.N(600, 20000)
	c.Part("histories", nh, func(i int64, r *rig.Rng) {
		cart := supported[r.Intn(len(supported))]
		rom := uint8(r.Intn(5))
		ram := uint8(r.Intn(6))
		m, err := rig.New(image(cart, rom, ram, r), rig.Opts{})
		if err != nil {
			c.Count("constructions_failed", 1)
			return
		}
		cpuAlive := true
		settle(m)
		for k := 0; k < 400; k++ {
			var a uint16
			switch r.Intn(10) {
			case 0, 1, 2:
				a = uint16(r.Intn(0x8000))
			case 3, 4:
				a = 0xa000 + uint16(r.Intn(0x2000))
			case 5:
				a = 0xff00 + uint16(r.Intn(0x100))
			case 6:
				a = 0xfe00 + uint16(r.Intn(0x100))
			default:
				a = r.U16()
			}
			switch r.Intn(5) {
			case 0, 1:
				v := r.U8()
				if a == 0xff46 && r.Chance(1, 2) {
					v = uint8(r.Intn(256)) // DMA from every page, including F2-FF
				}
				m.Mem.Write(a, v)
			case 2, 3:
				_ = m.Mem.Read(a)
			case 4:
				n := r.PickInt([]int{1, 3, 20, 200, 2000})
				for t := 0; t < n; t++ {
					if cpuAlive {
						cpuAlive = stepGuarded(m)
					} else {
						m.PPU.EndMachineCycle()
						m.Mem.EndMachineCycle()
						m.Audio.EndMachineCycle()
						m.Timer.EndMachineCycle()
					}
				}
			}
			c.Count("history_ops", 1)
		}
		probe(m)
		c.Case(rig.Hash(uint64(i), r.U64()))
	})

	// (ii-b) OAM DMA from every page (including F2-FF) on every supported cartridge type
	c.Part("dma", int64(len(supported))*256, func(i int64, r *rig.Rng) {
		cart := supported[i/256]
		page := uint8(i)
		rom := uint8(1)
		if cart == 0 {
			rom = 0
		}
		m, err := rig.New(image(cart, rom, uint8(r.Intn(4)), nil), rig.Opts{})
		if err != nil {
			c.Count("constructions_failed", 1)
			return
		}
		settle(m)
		if r.Bool() {
			m.Mem.Write(0x0000, 0x0a)
		}
		m.Mem.Write(0x4000, r.U8())
		m.Mem.Write(0xff46, page)
		for t := 0; t < 180; t++ {
			if t == 40 && r.Chance(1, 3) {
				m.Mem.Write(0xff46, r.U8()) // restart from another page
			}
			m.PPU.EndMachineCycle()
			m.Mem.EndMachineCycle()
			_ = m.Mem.Read(0xfe00 + uint16(t%0x100))
		}
		c.Exact(1)
		c.Count("dma_cases", 1)
	})

	// (iii) programs: random bytes and grammar, full machine stepping
	np := c.N(400, 12000)
	c.Part("programs", np, func(i int64, r *rig.Rng) {
		var p *prog.Program
		switch i % 4 {
		case 0, 1:
			p = prog.RandomBytes(r)
		case 2:
			p = prog.Generate(r, prog.Options{Interrupts: true, AllOpcodes: true, Hardware: true, MBCWrites: true, OAMFocus: r.Bool(), CartType: -1})
		default:
			p = prog.Generate(r, prog.Options{Interrupts: r.Bool(), Hardware: true, OAMFocus: true, Serial: true, CartType: -1})
		}
		// half the programs run with sample outputs and a serial writer attached, so the sample
		// mixer and the serial path see the hostile register values too
		opts := rig.Opts{}
		if i%8 >= 4 {
			opts = rig.Opts{AudioOut: true, SerialWriter: io.Discard}
			c.Count("programs_with_outputs_attached", 1)
		}
		m, err := rig.New(p.ROM, opts)
		if err != nil {
			c.Violate("program-image-does-not-load", fmt.Sprintf("harness-built image of cart type %02X does not load: %v", p.CartType, err), nil)
			return
		}
		budget := int(c.N(20000, 60000))
		ran := 0
		for ran < budget && stepGuarded(m) {
			ran++
		}
		if ran < budget {
			c.Count("programs_ended_at_undefined_opcode", 1)
		}
		c.Count("program_cycles", int64(ran))
		c.Eval(int64(ran))
		c.DistinctOnly(p.Hash)
		if i < 3 {
			c.Sample(map[string]any{"class": "program", "program": p.Describe(), "cycles": ran})
		}
	})

	// (iii-b) re-triggering at every phase: each channel at very short periods is triggered
	// again after every delay of 0..4 periods (+ wave RAM accesses while channel 3 plays), with
	// sample outputs attached
	freqs := []int{2047, 2046, 2045, 2044, 2040, 2032, 2016, 1984, 1920, 1792}
	c.Part("retrigger", 4*int64(len(freqs)), func(i int64, r *rig.Rng) {
		ch := int(i % 4)
		f := freqs[i/4]
		m := rig.MustNew(image(0x00, 0, 0, nil), rig.Opts{AudioOut: true})
		nrx4 := []uint16{0xff14, 0xff19, 0xff1e, 0xff23}[ch]
		tick := func(n int) {
			for k := 0; k < n; k++ {
				m.Audio.EndMachineCycle()
				m.Drain()
			}
		}
		m.Mem.Write(0xff26, 0x80)
		m.Mem.Write(0xff25, 0xff)
		m.Mem.Write(0xff24, 0x77)
		switch ch {
		case 0:
			m.Mem.Write(0xff10, r.U8())
			m.Mem.Write(0xff12, 0xf3)
			m.Mem.Write(0xff13, uint8(f))
		case 1:
			m.Mem.Write(0xff17, 0xf3)
			m.Mem.Write(0xff18, uint8(f))
		case 2:
			m.Mem.Write(0xff1a, 0x80)
			m.Mem.Write(0xff1c, 0x20)
			m.Mem.Write(0xff1d, uint8(f))
		case 3:
			m.Mem.Write(0xff21, 0xf3)
			m.Mem.Write(0xff22, uint8((2047-f)&0xf7)) // short noise periods, both widths
		}
		hi := 0x80 | uint8(f>>8)&7
		period := 16 * (2048 - f)
		if period > 600 {
			period = 600
		}
		tick(r.Intn(100))
		for d := 0; d <= 4*period+8; d++ {
			m.Mem.Write(nrx4, hi)
			tick(d)
			m.Mem.Write(nrx4, hi|uint8(r.Intn(2))<<6)
			if ch == 2 {
				_ = m.Mem.Read(0xff30 + uint16(r.Intn(16)))
				m.Mem.Write(0xff30+uint16(r.Intn(16)), r.U8())
			}
			tick(1 + r.Intn(3))
			c.Count("retriggers", 1)
		}
		c.Exact(1)
	})

	whole(c)
	storm(c)
	logoImages(c)
	oddStackDispatches(c)
	haltBugPrefixed(c)

	// (iv) arbitrary images: odd lengths, and every (type, size) header pair on small images
	lengths := []int{0, 1, 0x100, 0x147, 0x148, 0x149, 0x14a, 0x150, 0x3fff, 0x4000, 0x7fff, 0x8000, 0x8001, 0xc000, 0x10000, 0x10001, 0x20000}
	c.Part("lengths", int64(len(lengths))*8, func(i int64, r *rig.Rng) {
		n := lengths[i/8]
		img := r.Bytes(n)
		if n > 0x149 {
			img[0x147] = supported[r.Intn(len(supported))]
			if i%2 == 0 {
				img[0x148] = uint8(r.Intn(9))
			}
			img[0x149] = uint8(r.Intn(6))
		}
		exercise(c, img, r)
		c.Case(rig.Hash(uint64(n), uint64(i)))
		c.Count("image_cases", 1)
	})
	bufs := map[int][]byte{}
	buf := func(n int) []byte {
		if bufs[n] == nil {
			bufs[n] = make([]byte, n)
		}
		return bufs[n]
	}
	c.Part("headers", 256*16, func(i int64, r *rig.Rng) {
		cart := uint8(i / 16)
		for sz := int(i%16) * 16; sz < int(i%16)*16+16; sz++ {
			size := uint8(sz)
			for variant := 0; variant < 3; variant++ {
				var img []byte
				switch variant {
				case 0: // 32 KiB image whatever the header says
					img = buf(0x8000)
				case 1: // right-sized image when that is at most 256 KiB
					if size > 3 {
						continue
					}
					img = buf(0x8000 << size)
				case 2: // 64 KiB image
					img = buf(0x10000)
				}
				img[0x147], img[0x148], img[0x149] = cart, size, uint8(r.Intn(8))
				rig.Put(img, 0x100, 0x3e, 0x0a, 0xea, 0x00, 0x00, 0x21, 0x00, 0xa0, 0x36, 0x55, 0x7e, 0x18, 0xf3)
				exercise(c, img, r)
				c.Exact(1)
				c.Count("image_cases", 1)
			}
		}
	})
	c.MarkExhaustive("all 256 x 256 (cartridge type, ROM size) header pairs on 32 KiB, right-sized (<= 256 KiB) and 64 KiB images")
}

// exercise tries to construct a machine from img and, if that succeeds, drives it.
func exercise(c *rig.Ctx, img []byte, r *rig.Rng) {
	m, err := rig.New(img, rig.Opts{})
	if err != nil {
		c.Count("constructions_failed", 1)
		return
	}
	c.Count("constructions_ok", 1)
	settle(m)
	probe(m)
	for k := 0; k < 300; k++ {
		if !stepGuarded(m) {
			break
		}
	}
	for k := 0; k < 64; k++ {
		a := uint16(r.Intn(0x8000))
		if k%3 == 0 {
			a = 0xa000 + uint16(r.Intn(0x2000))
		}
		m.Mem.Write(a, r.U8())
		probe(m)
	}
	for k := 0; k < 300; k++ {
		if !stepGuarded(m) {
			break
		}
	}
}

// finish runs in the parent: the deliberate stop, one child process per opcode.
func finish(c *rig.Ctx) {
	if c.OnlyPart != "" {
		return
	}
	for i := 0; i < len(undefinedOps)+2; i++ {
		cmd := exec.Command(os.Args[0], "case", fmt.Sprintf("undef:%d", i), "--tier", c.Tier)
		var out bytes.Buffer
		cmd.Stdout = &out
		cmd.Stderr = &out
		err := cmd.Run()
		code := 0
		if ee, ok := err.(*exec.ExitError); ok {
			code = ee.ExitCode()
		} else if err != nil {
			c.Note("could not run the undefined-opcode child: %v", err)
			continue
		}
		c.Eval(1)
		if i < len(undefinedOps) {
			op := undefinedOps[i]
			want := fmt.Sprintf("0x%02X is not a valid instruction", op)
			if code != 1 || !strings.Contains(out.String(), want) {
				c.Violate(fmt.Sprintf("undefined-opcode-%02X-no-deliberate-stop", op), fmt.Sprintf("executing undefined opcode %02X: exit status %d, output %q; expected exit status 1 with %q", op, code, tail(out.String()), want), nil)
			} else {
				c.Count("deliberate_stops_observed", 1)
			}
		} else {
			// control: a defined opcode in the same harness must not stop the process
			if code != 0 || !strings.Contains(out.String(), "survived 64 cycles") {
				c.Violate("defined-opcode-stops-process", fmt.Sprintf("control program (NOP; JR -2) ended with exit status %d, output %q", code, tail(out.String())), nil)
			} else {
				c.Count("control_children_survived", 1)
			}
		}
	}
	c.Require("deliberate_stops_observed", "control_children_survived")
	_ = ref.IsUndefined
}

func tail(s string) string {
	if len(s) > 300 {
		return s[len(s)-300:]
	}
	return s
}

func main() {
	rig.Main(rig.Spec{
		ID:               "C11",
		Run:              run,
		Finish:           finish,
		DeathIsViolation: true,
		Rule: "single-write cases enumerated completely (cartridge type x ROM/RAM size code x value x control address); header cases enumerated completely (256 x 256 header pairs x image shapes); " +
			"random write/read/step histories, random-byte and grammar programs (distinct by program hash) and odd-length images sampled; each undefined opcode once in its own child process",
		Assumptions: []string{"a panic during construction (rig.New = memory.New + cpu.New as gameboy.New calls them) is a legal outcome",
			"the in-process runner peeks the next opcode and ends a program instead of executing an undefined opcode; the deliberate stop itself is observed in dedicated children",
			"workers journal each case before running it; a worker that dies while a case runs (runtime fatal error, os.Exit) is a violation naming that case, a harness panic is inconclusive"},
	})
}
