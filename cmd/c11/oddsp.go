package main

// Interrupt dispatches whose pushes land on IE, IF and the registers around them, from code
// anywhere in the address space (return addresses with every high-byte pattern), with every
// IE/IF combination: none may crash the emulator.

import "verif/internal/rig"

func oddStackDispatches(c *rig.Ctx) {
	c.Require("odd_stack_dispatch_runs")
	sps := []uint16{0x0000, 0x0001, 0x0002, 0xff10, 0xff11, 0xff12, 0xff0f, 0xfffe, 0xffff, 0xff01, 0xff47, 0xff41, 0xfea1, 0x8000, 0xa000}
	c.Part("odd-stack", int64(len(sps))*8, func(i int64, r *rig.Rng) {
		sp := sps[i/8]
		m := rig.MustNew(image(uint8(supported[int(i)%len(supported)]), 0, 2, nil), rig.Opts{})
		settle(m)
		for rep := 0; rep < 400; rep++ {
			m.CPU.XResetToBoundary()
			regs := m.CPU.XGetRegs()
			regs.PC = r.U16()
			if rep%4 == 0 {
				regs.PC = uint16(r.Intn(0x100))<<8 | 0xff
			}
			regs.SP = sp
			m.CPU.XSetRegs(regs)
			m.Mem.Write(0xffff, r.U8())
			m.Mem.Write(0xff0f, r.U8())
			m.IRQ.Enable()
			for k := 0; k < 12; k++ {
				if !stepGuarded(m) {
					break
				}
			}
			c.Count("odd_stack_dispatch_runs", 1)
		}
		c.Exact(1)
	})
}

// haltBugPrefixed: HALT executed with interrupts disabled and an enabled request pending (the
// "HALT bug"), followed by a CB-prefixed instruction and then ordinary opcodes. Whatever the
// repeated byte does, the program contains no undefined opcode: it must not stop the emulator.
func haltBugPrefixed(c *rig.Ctx) {
	c.Require("halt_bug_prefixed_runs")
	c.Part("halt-bug-prefixed", 64, func(i int64, r *rig.Rng) {
		rom := rig.BlankROM(0, 0, 0)
		rig.Put(rom, 0x100, 0x00, 0xc3, 0x50, 0x01)
		cb := []uint8{0x37, 0x00, 0xcb, 0x46, 0x86, 0xc7, 0xfe, 0x7e}[i%8]
		tail := []uint8{0x00, 0x04, 0x0c, 0x3c, 0x47, 0x80, 0xa7, 0x37}[(i/8)%8]
		// DI; LD SP; LD A,01; LDH (FF),A; LDH (0F),A; HALT; CB xx; tail; JR self
		rig.Put(rom, 0x150, 0xf3, 0x31, 0xf0, 0xdf, 0x3e, 0x01, 0xe0, 0xff, 0xe0, 0x0f, 0x76, 0xcb, cb, tail, 0x00, 0x00, 0x18, 0xfe)
		m := rig.MustNew(rom, rig.Opts{})
		for k := 0; k < 400; k++ {
			if !stepGuarded(m) {
				break
			}
		}
		c.Count("halt_bug_prefixed_runs", 1)
		c.Exact(1)
	})
}
