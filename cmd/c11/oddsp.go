package main

// Interrupt dispatches whose pushes land on IE, IF and the registers around them, from code
// anywhere in the address space (return addresses with every high-byte pattern), with every
// IE/IF combination: none may crash the emulator.

import "verif/internal/rig"

func oddStackDispatches(c *rig.Ctx) {
	c.Require("odd_stack_dispatch_runs")
	sps := []uint16{0x0000, 0x0001, 0x0002, 0xff10, 0xff11, 0xff12, 0xff0f, 0xfffe, 0xffff, 0xff01, 0xff47, 0xff41, 0xfea1, 0x8000, 0xa000}
	c.Part("odd-stack", int64(len(sps))*8, func(i int64, r *rig.Rng) {
		sp := sps[i/8]
		m := rig.MustNew(image(uint8(supported[int(i)%len(supported)]), 0, 2, nil), rig.Opts{})
		settle(m)
		for rep := 0; rep < 400; rep++ {
			m.CPU.XResetToBoundary()
			regs := m.CPU.XGetRegs()
			regs.PC = r.U16()
			if rep%4 == 0 {
				regs.PC = uint16(r.Intn(0x100))<<8 | 0xff
			}
			regs.SP = sp
			m.CPU.XSetRegs(regs)
			m.Mem.Write(0xffff, r.U8())
			m.Mem.Write(0xff0f, r.U8())
			m.IRQ.Enable()
			for k := 0; k < 12; k++ {
				if !stepGuarded(m) {
					break
				}
			}
			c.Count("odd_stack_dispatch_runs", 1)
		}
		c.Exact(1)
	})
}
