package main

// Register and OAM storms against the video hardware: with the LCD on (objects enabled, both
// object sizes, window on and off) a store lands in OAM, VRAM or a video register in about
// every third machine cycle - in every mode, between the OAM scan and the pixel output of the
// same line, with extreme coordinates and small and large tile numbers - while the PPU runs for
// several frames. Nothing a guest stores may crash the renderer.

import "verif/internal/rig"

func storm(c *rig.Ctx) {
	c.Require("storm_stores", "storm_frames")
	c.Part("storm", c.N(96, 1200), func(i int64, r *rig.Rng) {
		m := rig.MustNew(image(0x00, 0, 0, nil), rig.Opts{})
		settle(m)
		w := m.Mem.Write
		w(0xff40, 0x11)
		for k := 0; k < 0x2000; k += 1 + r.Intn(7) {
			w(0x8000+uint16(k), r.U8())
		}
		for k := 0; k < 40; k++ {
			w(0xfe00+uint16(k*4), uint8(r.Intn(176)))
			w(0xfe00+uint16(k*4+1), uint8(r.Intn(176)))
			w(0xfe00+uint16(k*4+2), r.Pick8([]uint8{0, 0, 1, 2, 0xfe, 0xff, r.U8()}))
			w(0xfe00+uint16(k*4+3), r.U8())
		}
		w(0xff40, 0x83|r.U8()&0x7c)
		ys := []uint8{0, 1, 8, 15, 16, 17, 100, 143, 144, 152, 159, 160, 200, 255}
		frames := 2 + r.Intn(3)
		if i%4 == 3 {
			// the LCD is restarted again and again before the vertical blank, window and objects
			// showing (whatever the video hardware counts per frame must not run away)
			w(0xff4a, uint8(r.Intn(8)))
			w(0xff4b, uint8(7+r.Intn(60)))
			for n := 0; n < 60; n++ {
				w(0xff40, 0xe3|r.U8()&0x1c)
				for t := 0; t < 114*(20+r.Intn(120)); t++ {
					m.PPU.EndMachineCycle()
					m.Mem.EndMachineCycle()
				}
				w(0xff40, 0x63)
				c.Count("storm_lcd_restarts", 1)
			}
			w(0xff40, 0xe3)
		}
		for t := 0; t < frames*17556; t++ {
			if r.Intn(3) == 0 {
				switch r.Intn(12) {
				case 0, 1, 2, 3:
					// an object's Y (or X) moves, often far
					k := r.Intn(40)
					v := r.Pick8(ys)
					if r.Chance(1, 3) {
						v = uint8(int(lockstepLY(m)) + 16 + r.Intn(40) - 20)
					}
					w(0xfe00+uint16(k*4+r.Intn(2)), v)
				case 4:
					w(0xfe00+uint16(r.Intn(160)), r.U8())
				case 5:
					v := r.U8()
					if r.Chance(7, 8) {
						v |= 0x80
					}
					w(0xff40, v)
				case 6:
					w(0xff42+uint16(r.Intn(2)), r.U8())
				case 7:
					w(0xff4a+uint16(r.Intn(2)), r.Pick8([]uint8{0, 1, 6, 7, 8, 143, 144, 165, 166, 167, 255, r.U8()}))
				case 8:
					w(0xff47+uint16(r.Intn(3)), r.U8())
				case 9:
					w(0xff41, r.U8())
					w(0xff45, r.U8())
				case 10:
					w(0x8000+uint16(r.Intn(0x2000)), r.U8())
				case 11:
					// (a transfer blocks OAM for 162 cycles: keep them rare)
					if r.Chance(1, 60) {
						w(0xff46, uint8(r.Intn(0xf2)))
					}
				}
				c.Count("storm_stores", 1)
			}
			m.PPU.EndMachineCycle()
			m.Mem.EndMachineCycle()
		}
		c.Count("storm_frames", int64(frames))
		c.Exact(1)
	})
}

func lockstepLY(m *rig.Machine) uint8 { return m.Mem.Read(0xff44) }
