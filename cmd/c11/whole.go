package main

// The whole emulator, as gameboy.New wires it, under hostile programs in every configuration:
// video output on (fake display, real display package) or off, audio output on (fake sound
// device, real speakers package) or off, DebugCPU, DebugLCD, key events at frame boundaries.
// Programs that reach an undefined opcode (the deliberate stop) are screened out on the
// component rig first.

import (
	"fmt"
	"os"

	"github.com/scottyw/tetromino/gameboy/controller"

	"verif/internal/emu"
	"verif/internal/prog"
	"verif/internal/rig"
)

func whole(c *rig.Ctx) {
	c.Require("whole_runs", "whole_runs_video", "whole_runs_audio", "whole_runs_debug_cpu", "whole_runs_debug_lcd")
	c.Part("whole", c.N(64, 640), func(i int64, r *rig.Rng) {
		var p *prog.Program
		switch i % 4 {
		case 0:
			p = prog.Generate(r, prog.Options{Interrupts: true, AllOpcodes: true, Hardware: true, MBCWrites: true, OAMFocus: r.Bool(), CartType: -1})
		case 1:
			p = prog.Sound(r)
		case 2:
			p = prog.Sprites(r)
		default:
			p = prog.Generate(r, prog.Options{Interrupts: r.Bool(), Hardware: true, OAMFocus: true, Serial: true, CartType: -1})
		}
		frames := 2 + r.Intn(4)
		m, err := rig.New(p.ROM, rig.Opts{})
		if err != nil {
			c.Violate("program-image-does-not-load", fmt.Sprintf("harness-built image of cart type %02X does not load: %v", p.CartType, err), nil)
			return
		}
		v := int(i/4) % 16
		s := emu.Scenario{ROM: p.ROM, Frames: frames, Video: v&1 != 0, Audio: v&2 != 0, DebugCPU: v&4 != 0 && frames <= 3, DebugLCD: v&8 != 0}
		for k := 0; k < 6; k++ {
			s.Keys = append(s.Keys, emu.KeyEvent{Frame: 1 + r.Intn(frames), Key: r.Intn(8), Press: r.Bool()})
		}
		// the screening run gets the same key events at the same frame boundaries (a key can
		// change what the program does)
		for k := 0; k < (frames+1)*17556; k++ {
			if k > 0 && k%17556 == 0 {
				for _, ev := range s.Keys {
					if ev.Frame == k/17556 {
						m.Ctl.ButtonAction(controller.Button([]int{6, 7, 5, 4, 0, 1, 2, 3}[ev.Key]), ev.Press)
						m.CPU.OnInput()
					}
				}
			}
			if !stepGuarded(m) {
				c.Count("whole_programs_screened_out", 1)
				return
			}
		}
		path := emu.TempROM(p.ROM, "c11w")
		defer os.Remove(path)
		tr := emu.Run(s, path)
		c.Count("whole_runs", 1)
		if s.Video {
			c.Count("whole_runs_video", 1)
		}
		if s.Audio {
			c.Count("whole_runs_audio", 1)
		}
		if s.DebugCPU {
			c.Count("whole_runs_debug_cpu", 1)
		}
		if s.DebugLCD {
			c.Count("whole_runs_debug_lcd", 1)
		}
		if len(tr.FrameHashes) < frames {
			c.Violate("whole-run-ended-early", fmt.Sprintf("%s (video=%v audio=%v debugCPU=%v debugLCD=%v): %d of %d frames", p.Describe(), s.Video, s.Audio, s.DebugCPU, s.DebugLCD, len(tr.FrameHashes), frames), nil)
		}
		c.Eval(int64(frames) * 17556)
		c.DistinctOnly(rig.Hash(p.Hash, uint64(v)))
	})
}
