// C12 — the timer counts, overflows and reloads as the DMG timer.
//
// Oracle: a reference timer at machine-cycle granularity. counter += 4 per tick, DIV = high
// byte, any DIV write clears the counter; the signal (TAC enable AND counter bit 9/3/5/7) is
// sampled at the end of each machine cycle and TIMA increments when two consecutive samples
// go 1 -> 0, whatever caused it (counting, DIV write, TAC write). On overflow TIMA reads 00 for
// the next cycle (A), is reloaded from TMA at the end of A unless TIMA was written in A; in the
// following cycle (B) TIMA writes are ignored and a TMA write also reaches TIMA by the end of B;
// all of it independent of the counter value and of DIV writes. One interrupt per overflow, no
// later than the reload.
//
// Workload: all operation sequences up to a bounded length over {tick, write DIV, write TIMA v,
// write TMA v, write TAC t} from start states covering every counter phase around each edge
// bit and around counter wrap; long random schedules; the mooneye timer ROMs.
package main

import (
	"fmt"

	"github.com/scottyw/tetromino/gameboy/timer"

	"verif/internal/rig"
	"verif/internal/romrun"
)

var bitMask = [4]uint16{1 << 9, 1 << 3, 1 << 5, 1 << 7}

type refTimer struct {
	counter        uint16
	tac, tima, tma uint8
	last           bool
	phase          int // 0, 1 = cycle A (TIMA reads 0), 2 = cycle B (reload cycle)
	timaWritten    bool
	tmaWritten     bool
	cancelled      bool // the reload of this overflow was cancelled by a TIMA write in A
	irqOwed        int  // 0 none, 1 = may still arrive with the next tick
	unspecified    string
}

func (t *refTimer) signal() bool { return t.tac&4 != 0 && t.counter&bitMask[t.tac&3] != 0 }

// tick returns (irqAllowed, irqRequired) for this tick.
func (t *refTimer) tick() (allowed, required bool) {
	t.counter += 4
	// the order of "reload" and "count" is only open where both happen at the same instant: at
	// the end of cycle A, and at the end of cycle B if TMA was written in it
	inPhaseTick := t.phase == 1 || (t.phase == 2 && t.tmaWritten)
	switch t.phase {
	case 1:
		if !t.timaWritten {
			t.tima = t.tma
		} else {
			t.cancelled = true
		}
		t.phase = 2
	case 2:
		if t.tmaWritten {
			if t.cancelled {
				t.unspecified = "TMA written in the cycle after a cancelled reload"
			}
			t.tima = t.tma
		}
		t.phase = 0
		t.cancelled = false
	}
	t.timaWritten, t.tmaWritten = false, false
	if t.irqOwed == 1 {
		// the request may arrive as late as the reload
		allowed, required = true, true
		t.irqOwed = 0
	}
	sig := t.signal()
	if t.last && !sig {
		if inPhaseTick {
			t.unspecified = "falling edge in the same machine cycle as a reload step"
		}
		t.tima++
		if t.tima == 0 {
			t.phase = 1
			t.cancelled = false
			if required {
				t.unspecified = "two overflows within two machine cycles"
			}
			allowed = true
			required = false
			t.irqOwed = 1
		}
	}
	t.last = sig
	return
}

func (t *refTimer) writeDIV()        { t.counter = 0 }
func (t *refTimer) writeTAC(v uint8) { t.tac = v }
func (t *refTimer) writeTMA(v uint8) { t.tma = v; t.tmaWritten = true }
func (t *refTimer) writeTIMA(v uint8) {
	if t.phase == 2 {
		if t.cancelled {
			t.unspecified = "TIMA written in the cycle after a cancelled reload"
		}
		return
	}
	t.tima = v
	t.timaWritten = true
}

type op struct {
	kind uint8 // 0 tick, 1 DIV, 2 TIMA, 3 TMA, 4 TAC
	v    uint8
}

func (o op) String() string {
	switch o.kind {
	case 0:
		return "tick"
	case 1:
		return "DIV<-x"
	case 2:
		return fmt.Sprintf("TIMA<-%02X", o.v)
	case 3:
		return fmt.Sprintf("TMA<-%02X", o.v)
	}
	return fmt.Sprintf("TAC<-%02X", o.v)
}

// timerFace is the timer as the checks drive it: directly, or through the memory bus of a
// whole machine (busTimer).
type timerFace interface {
	XSetCounter(uint16)
	EndMachineCycle() bool
	WriteDIV(uint8)
	WriteTIMA(uint8)
	WriteTMA(uint8)
	WriteTAC(uint8)
	ReadDIV() uint8
	ReadTIMA() uint8
	ReadTMA() uint8
	ReadTAC() uint8
}

// busTimer reaches the timer of a machine through Mapper.Write/Read at FF04-FF07; a machine
// cycle also advances the mapper (an OAM DMA transfer may be in flight).
type busTimer struct{ m *rig.Machine }

func (b busTimer) XSetCounter(v uint16) { b.m.Timer.XSetCounter(v) }
func (b busTimer) EndMachineCycle() bool {
	b.m.Mem.EndMachineCycle()
	return b.m.Timer.EndMachineCycle()
}
func (b busTimer) WriteDIV(v uint8)  { b.m.Mem.Write(0xff04, v) }
func (b busTimer) WriteTIMA(v uint8) { b.m.Mem.Write(0xff05, v) }
func (b busTimer) WriteTMA(v uint8)  { b.m.Mem.Write(0xff06, v) }
func (b busTimer) WriteTAC(v uint8)  { b.m.Mem.Write(0xff07, v) }
func (b busTimer) ReadDIV() uint8    { return b.m.Mem.Read(0xff04) }
func (b busTimer) ReadTIMA() uint8   { return b.m.Mem.Read(0xff05) }
func (b busTimer) ReadTMA() uint8    { return b.m.Mem.Read(0xff06) }
func (b busTimer) ReadTAC() uint8    { return b.m.Mem.Read(0xff07) }

type pair struct {
	real   timerFace
	ref    refTimer
	irqBug string
	owed   bool // the previous tick's overflow has not produced its request yet
}

type start struct {
	counter        uint16
	tac, tima, tma uint8
}

func newPair(s start) *pair { return newPairOn(timer.New(), s) }

func newPairOn(t timerFace, s start) *pair {
	p := &pair{real: t}
	// one warm-up tick so that the sampled signal of both sides is the one of the start state
	p.real.XSetCounter(s.counter - 4)
	p.ref.counter = s.counter - 4
	p.real.WriteTAC(s.tac)
	p.ref.tac = s.tac
	p.real.WriteTMA(s.tma)
	p.ref.tma = s.tma
	p.real.EndMachineCycle()
	p.ref.counter += 4
	p.ref.last = p.ref.signal()
	p.real.WriteTIMA(s.tima)
	p.ref.tima = s.tima
	// the warm-up tick may have incremented the real TIMA only before the write above; the
	// write flags it set are cleared by the next tick on both sides
	return p
}

// apply performs one operation on both sides and compares; returns a violation text or "".
func (p *pair) apply(o op) string {
	switch o.kind {
	case 0:
		got := p.real.EndMachineCycle()
		allowed, required := p.ref.tick()
		if p.ref.unspecified != "" {
			return ""
		}
		if got && !allowed {
			return "timer interrupt requested although no overflow is due"
		}
		if required && !got && p.owed {
			return "overflow produced no timer interrupt by the time of the reload"
		}
		if allowed && !required {
			// overflow in this tick: the request may come now or with the next tick
			p.owed = !got
			if got {
				p.ref.irqOwed = 0
			}
		} else if required {
			p.owed = false
		}
	case 1:
		p.real.WriteDIV(o.v)
		p.ref.writeDIV()
	case 2:
		p.real.WriteTIMA(o.v)
		p.ref.writeTIMA(o.v)
	case 3:
		p.real.WriteTMA(o.v)
		p.ref.writeTMA(o.v)
	case 4:
		p.real.WriteTAC(o.v)
		p.ref.writeTAC(o.v)
	}
	if p.ref.unspecified != "" {
		return ""
	}
	if g, w := p.real.ReadDIV(), uint8(p.ref.counter>>8); g != w {
		return fmt.Sprintf("DIV reads %02X, expected %02X", g, w)
	}
	if g, w := p.real.ReadTIMA(), p.ref.tima; g != w {
		return fmt.Sprintf("TIMA reads %02X, expected %02X", g, w)
	}
	if g, w := p.real.ReadTMA(), p.ref.tma; g != w {
		return fmt.Sprintf("TMA reads %02X, expected %02X", g, w)
	}
	if g, w := p.real.ReadTAC(), p.ref.tac|0xf8; g != w {
		return fmt.Sprintf("TAC reads %02X, expected %02X", g, w)
	}
	return ""
}

func classify(ops []op, k int, ref *refTimer) string {
	phase := [...]string{"normal", "cycleA", "cycleB"}[ref.phase]
	kinds := map[uint8]bool{}
	for _, o := range ops[:k+1] {
		kinds[o.kind] = true
	}
	s := "seq"
	for _, n := range []struct {
		k uint8
		n string
	}{{1, "div"}, {2, "tima"}, {3, "tma"}, {4, "tac"}} {
		if kinds[n.k] {
			s += "-" + n.n
		}
	}
	return s + "-" + phase
}

func run(c *rig.Ctx) {
	c.Require("sequence_runs", "overflows", "reloads_cancelled_by_tima_write", "tima_writes_ignored_in_reload_cycle", "tma_writes_in_reload_cycle",
		"div_writes_in_overflow_phases", "edges_caused_by_div_write", "edges_caused_by_tac_write", "random_ops", "rom_runs")
	// alphabet
	var alpha []op
	alpha = append(alpha, op{0, 0}, op{1, 0})
	for _, v := range []uint8{0x00, 0xfe, 0xff} {
		alpha = append(alpha, op{2, v})
	}
	for _, v := range []uint8{0x00, 0x7f, 0xff} {
		alpha = append(alpha, op{3, v})
	}
	for _, v := range []uint8{0x00, 0x04, 0x05, 0x06, 0x07} {
		alpha = append(alpha, op{4, v})
	}
	// start states
	var starts []start
	for tac := uint8(0); tac < 8; tac++ {
		period := bitMask[tac&3] << 1
		var counters []uint16
		for k := uint16(1); k <= 4; k++ {
			counters = append(counters, period-4*k, period/2-4*k) // before the fall, before the rise
		}
		counters = append(counters, 0xfff0, 0xfff4, 0xfff8, 0xfffc, 0x0000, 0x0004)
		for _, cn := range counters {
			for _, tima := range []uint8{0xfd, 0xfe, 0xff, 0x00} {
				for _, tma := range []uint8{0x00, 0x23, 0xff} {
					starts = append(starts, start{cn, tac, tima, tma})
				}
			}
		}
	}
	L := int(c.N(4, 6))
	nseq := int64(1)
	for k := 0; k < L; k++ {
		nseq *= int64(len(alpha))
	}
	// One Part case = one start state; all sequences of length L are run from it (every
	// shorter sequence is a prefix and is compared operation by operation).
	var overflows, cancelled, ignored, tmaInB, divInPhase, divEdges, tacEdges, unspec int64
	c.Part("sequences", int64(len(starts)), func(si int64, _ *rig.Rng) {
		st := starts[si]
		ops := make([]op, L)
		for s := int64(0); s < nseq; s++ {
			x := s
			for k := 0; k < L; k++ {
				ops[k] = alpha[x%int64(len(alpha))]
				x /= int64(len(alpha))
			}
			p := newPair(st)
			for k := 0; k < L; k++ {
				o := ops[k]
				// coverage bookkeeping from the reference's point of view
				switch {
				case o.kind == 2 && p.ref.phase == 1:
					cancelled++
				case o.kind == 2 && p.ref.phase == 2:
					ignored++
				case o.kind == 3 && p.ref.phase == 2:
					tmaInB++
				case o.kind == 1 && p.ref.phase != 0:
					divInPhase++
				}
				phaseBefore := p.ref.phase
				sigBefore := p.ref.last
				if msg := p.apply(o); msg != "" {
					c.Violate(classify(ops, k, &p.ref), fmt.Sprintf("start counter=%04X TAC=%02X TIMA=%02X TMA=%02X, ops %v: after op %d (%v) %s", st.counter, st.tac, st.tima, st.tma, ops[:k+1], k+1, o, msg),
						map[string]any{"start": fmt.Sprintf("%+v", st), "ops": fmt.Sprint(ops[:k+1])})
					break
				}
				if p.ref.unspecified != "" {
					unspec++
					break
				}
				if o.kind == 0 && p.ref.phase == 1 && phaseBefore != 1 {
					overflows++
				}
				if o.kind == 0 && k > 0 && sigBefore && !p.ref.last {
					switch ops[k-1].kind {
					case 1:
						divEdges++
					case 4:
						tacEdges++
					}
				}
			}
		}
		c.Exact(nseq)
		c.Count("sequence_runs", nseq)
		if si%97 == 0 {
			c.Sample(map[string]any{"class": "sequences", "start": fmt.Sprintf("%+v", st), "sequences_of_length": L, "count": nseq})
		}
	})
	c.MarkExhaustive(fmt.Sprintf("all operation sequences of length <= %d over a %d-operation alphabet from %d start states", L, len(alpha), len(starts)))
	c.Count("overflows", overflows)
	c.Count("reloads_cancelled_by_tima_write", cancelled)
	c.Count("tima_writes_ignored_in_reload_cycle", ignored)
	c.Count("tma_writes_in_reload_cycle", tmaInB)
	c.Count("div_writes_in_overflow_phases", divInPhase)
	c.Count("edges_caused_by_div_write", divEdges)
	c.Count("edges_caused_by_tac_write", tacEdges)
	c.Count("unspecified_histories", unspec)

	// long random schedules
	nr := c.N(200, 2000)
	c.Part("random", nr, func(i int64, r *rig.Rng) {
		st := start{counter: r.U16() &^ 3, tac: r.U8() & 7, tima: r.U8(), tma: r.U8()}
		p := newPair(st)
		n := int(c.N(20000, 100000))
		var hist []op
		for k := 0; k < n; k++ {
			var o op
			switch r.Intn(14) {
			case 0:
				o = op{1, r.U8()}
			case 1:
				o = op{2, r.U8()}
				if r.Chance(1, 2) {
					o.v = r.Pick8([]uint8{0xfd, 0xfe, 0xff, 0x00})
				}
			case 2:
				o = op{3, r.U8()}
			case 3:
				o = op{4, r.U8()}
			default:
				o = op{0, 0}
			}
			if len(hist) >= 24 {
				copy(hist, hist[1:])
				hist = hist[:23]
			}
			hist = append(hist, o)
			if msg := p.apply(o); msg != "" {
				c.Violate("random-"+[...]string{"normal", "cycleA", "cycleB"}[p.ref.phase], fmt.Sprintf("start %+v, after %d random ops (last %v): %s", st, k+1, hist, msg), nil)
				break
			}
			if p.ref.unspecified != "" {
				// re-synchronise: a TIMA write outside the reload phases defines TIMA again
				c.Count("unspecified_histories", 1)
				p = newPair(start{counter: p.ref.counter, tac: p.ref.tac, tima: r.U8(), tma: p.ref.tma})
			}
			c.Count("random_ops", 1)
		}
		c.Case(rig.Hash(uint64(i), r.U64()))
	})

	// the same random schedules through the memory bus of a whole machine (stores to FF04-FF07,
	// reads of the same), with OAM DMA transfers started now and then: a transfer in flight is no
	// business of the timer registers'
	c.Part("through-the-bus", c.N(60, 600), func(i int64, r *rig.Rng) {
		m := rig.MustNew(rig.BlankROM(0, 0, 0), rig.Opts{})
		for k := 0; k < 4; k++ {
			m.Step()
		}
		st := start{counter: r.U16() &^ 3, tac: r.U8() & 7, tima: r.U8(), tma: r.U8()}
		p := newPairOn(busTimer{m}, st)
		n := int(c.N(12000, 60000))
		var hist []op
		for k := 0; k < n; k++ {
			var o op
			switch r.Intn(14) {
			case 0:
				o = op{1, r.U8()}
			case 1:
				o = op{2, r.Pick8([]uint8{0xfd, 0xfe, 0xff, 0x00, r.U8()})}
			case 2:
				o = op{3, r.U8()}
			case 3:
				o = op{4, r.U8()}
			default:
				o = op{0, 0}
			}
			if r.Chance(1, 300) {
				m.Mem.Write(0xff46, uint8(0xc0+r.Intn(0x20)))
				c.Count("bus_dma_transfers_started", 1)
			}
			if run, _ := m.OAM.XDMA(); run && o.kind != 0 {
				c.Count("bus_timer_stores_during_dma", 1)
			}
			if len(hist) >= 24 {
				copy(hist, hist[1:])
				hist = hist[:23]
			}
			hist = append(hist, o)
			if msg := p.apply(o); msg != "" {
				run, _ := m.OAM.XDMA()
				c.Violate("bus-"+[...]string{"normal", "cycleA", "cycleB"}[p.ref.phase], fmt.Sprintf("through the memory bus (OAM DMA in flight: %v), start %+v, after %d random ops (last %v): %s", run, st, k+1, hist, msg), nil)
				break
			}
			if p.ref.unspecified != "" {
				c.Count("unspecified_histories", 1)
				// a fresh machine, as the direct part takes a fresh timer: the old one may be in the
				// middle of a reload the reference has stopped following
				m = rig.MustNew(rig.BlankROM(0, 0, 0), rig.Opts{})
				for q := 0; q < 4; q++ {
					m.Step()
				}
				p = newPairOn(busTimer{m}, start{counter: p.ref.counter, tac: p.ref.tac, tima: r.U8(), tma: p.ref.tma})
			}
			c.Count("bus_ops", 1)
		}
		c.Case(rig.Hash(uint64(i), r.U64()))
	})

	// long lives: the timer's behaviour must not depend on how long it has been running. With
	// TMA=FF every increment overflows, so an overflow (and its reload and request) falls on
	// every machine cycle of the right phase for more than two wraps of any 16-bit cycle count;
	// every phase of every rate is covered.
	type life struct {
		tac  uint8
		off  uint16
		tma  uint8
		long int
	}
	var lives []life
	for _, tac := range []uint8{5, 6, 7, 4} {
		period := map[uint8]int{5: 4, 6: 16, 7: 64, 4: 256}[tac]
		for ph := 0; ph < period; ph++ {
			lives = append(lives, life{tac, uint16(ph * 4), 0xff, 140000})
		}
	}
	lives = append(lives, life{5, 0, 0xfe, 140000}, life{5, 4, 0x00, 300000}, life{4, 0, 0xf0, 300000})
	c.Part("long-lives", int64(len(lives)), func(i int64, r *rig.Rng) {
		l := lives[i]
		st := start{counter: l.off, tac: l.tac, tima: 0xff, tma: l.tma}
		p := newPair(st)
		for k := 0; k < l.long; k++ {
			if msg := p.apply(op{0, 0}); msg != "" {
				c.Violate("long-life", fmt.Sprintf("start %+v, machine cycle %d of the timer's life: %s", st, k+1, msg), nil)
				return
			}
			if p.ref.unspecified != "" {
				p = newPair(start{counter: p.ref.counter, tac: p.ref.tac, tima: 0xff, tma: p.ref.tma})
			}
		}
		c.Count("long_life_cycles", int64(l.long))
		c.Exact(1)
	})

	// whole-machine path (runFrame-order stepping raises IF bit 2): the mooneye timer ROMs
	romrun.FollowROMs(c, "roms", romrun.Select("acceptance/timer/", "div_timing", "instr_timing"), romrun.FollowOpts{Verdict: true})
}

func main() {
	rig.Main(rig.Spec{
		ID:  "C12",
		Run: run,
		Rule: "sequence cases: every operation sequence of the bounded length over {tick, DIV write, TIMA<-{00,FE,FF}, TMA<-{00,7F,FF}, TAC<-{00,04..07}} from every start state " +
			"(8 TAC values x counter 1-4 ticks before each edge of the selected bit and around FFFC/0000 x TIMA {FD,FE,FF,00} x TMA {00,23,FF}), each distinct; DIV, TIMA, TMA, TAC and the tick's interrupt result compared after every operation; plus long random schedules",
		Assumptions: []string{"edges are sampled at the end of each machine cycle (the pinned unit tests require TIMA to stay unchanged right after a TAC enable + DIV reset with no cycle in between)",
			"not judged (counted as unspecified): writes to TIMA/TMA in the cycle after a cancelled reload, a falling edge at the very instant of the reload (end of cycle A, or end of cycle B with a TMA write in it), two overflows within two cycles",
			"the abstract TLA+ model check mentioned in the property's quantifier is a different technique and is not performed"},
	})
}
