package main

import (
	"context"
	"fmt"
	"os"

	"github.com/scottyw/tetromino/gameboy"
	"github.com/scottyw/tetromino/gameboy/controller"

	"verif/internal/emu"
	"verif/internal/lcdref"
	"verif/internal/prog"
	"verif/internal/rig"
)

// frames: the whole emulator, advanced by its own frame loop. Whatever the CPU is doing -
// running, halted, or in STOP mode waiting for a key - the LCD stays on and LY and the mode
// follow the frame schedule: after every frame (17 556 machine cycles) they are compared with
// the reference.
func frames(c *rig.Ctx) {
	c.Require("whole_emulator_frames")
	c.Part("frames", c.N(12, 120), func(i int64, r *rig.Rng) {
		var p *prog.Program
		switch i % 3 {
		case 0:
			p = prog.StopLoop(r)
			c.Count("whole_emulator_stop_programs", 1)
		case 1:
			p = prog.IdleLoops(r)
		default:
			p = prog.DMAStream(r)
		}
		n := 3 + r.Intn(6)
		if ok, _ := emu.Screen(emu.Scenario{ROM: p.ROM, Frames: n}); !ok {
			return
		}
		path := emu.TempROM(p.ROM, "c13")
		defer os.Remove(path)
		gb := gameboy.New(gameboy.Config{RomFilename: path, DisableVideoOutput: true, DisableAudioOutput: true})
		defer gb.Cleanup()
		var ref lcdref.LCD
		ref.On = true
		for f := 1; f <= n; f++ {
			gb.XRunFrame(context.Background())
			for k := 0; k < lcdref.FrameLen; k++ {
				ref.Tick()
			}
			if gb.XMapper().Read(0xff40)&0x80 == 0 {
				return // the program switched the LCD off: not this part's business
			}
			ly, mode := ref.Visible()
			if gly, gst := gb.XMapper().Read(0xff44), gb.XMapper().Read(0xff41); gly != ly || gst&3 != mode {
				c.Violate("ly-mode-after-whole-frames", fmt.Sprintf("%s: after %d frames of the emulator's own frame loop (LCD on throughout, CPU stopped=%v) LY=%d mode=%d, the schedule gives LY=%d mode=%d", p.Seed, f, gb.XCPU().XStopped(), gly, gst&3, ly, mode), nil)
				return
			}
			if f%2 == 0 {
				// a key press now and then lets a stopped CPU go on
				gb.XController().ButtonAction(controller.Button(0), true)
				gb.XCPU().OnInput()
				gb.XController().ButtonAction(controller.Button(0), false)
			}
			c.Count("whole_emulator_frames", 1)
		}
		c.Case(rig.Hash(uint64(i), p.Hash))
	})
}
