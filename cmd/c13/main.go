// C13 — LCD line and mode timing follow the frame schedule.
//
// Events: LY (FF44) and STAT mode bits (FF41 & 3) read through the Mapper after every machine
// cycle, and right after every LCDC write. Oracle: internal/lcdref, a pure function of the
// number of cycles since switch-on. Workload: several frames under LCD on/off schedules that
// switch at random cycles and at every cycle offset of selected lines, with redundant LCDC
// writes (on->on, off->off, other bits changing) that must not disturb the sequence.
package main

import (
	"fmt"
	"os"
	"path/filepath"

	"verif/internal/lcdref"
	"verif/internal/rig"
)

func workDir() string {
	if d := os.Getenv("VERIF_WORK"); d != "" {
		return d
	}
	return os.TempDir()
}

type world struct {
	c    *rig.Ctx
	m    *rig.Machine
	ref  lcdref.LCD
	t    int64
	hist []string
	seen *[lcdref.Lines][lcdref.LineLen]bool
}

func (w *world) log(s string) {
	if len(w.hist) >= 10 {
		copy(w.hist, w.hist[1:])
		w.hist = w.hist[:9]
	}
	w.hist = append(w.hist, fmt.Sprintf("t=%d %s", w.t, s))
}

func (w *world) check(when string) bool {
	ly, mode := w.ref.Visible()
	gly := w.m.Mem.Read(0xff44)
	gst := w.m.Mem.Read(0xff41)
	if gly != ly || gst&3 != mode {
		cls := "while-on"
		if !w.ref.On {
			cls = "while-off"
		} else if w.ref.N <= lcdref.FirstLineLen+1 {
			cls = "first-line-after-switch-on"
		}
		w.c.Violate("ly-mode-"+cls, fmt.Sprintf("%s, %d cycles after switch-on (on=%v): LY=%d mode=%d, expected LY=%d mode=%d; recent: %v", when, w.ref.N, w.ref.On, gly, gst&3, ly, mode, w.hist),
			map[string]any{"cycles_since_on": w.ref.N, "on": w.ref.On, "history": fmt.Sprint(w.hist)})
		return false
	}
	if gst&0x80 == 0 {
		w.c.Violate("stat-bit7", fmt.Sprintf("STAT reads %02X (bit 7 must read 1)", gst), nil)
		return false
	}
	return true
}

func (w *world) lcdc(v uint8) bool {
	w.m.Mem.Write(0xff40, v)
	w.ref.WriteLCDC(v)
	w.log(fmt.Sprintf("LCDC<-%02X", v))
	return w.check(fmt.Sprintf("right after LCDC<-%02X", v))
}

// other stores to a video register that plays no part in the line/mode schedule (STAT, LY,
// LYC, scroll, window, palettes): LY and the mode must go on as if nothing had been stored.
func (w *world) other(a uint16, v uint8) bool {
	w.m.Mem.Write(a, v)
	w.log(fmt.Sprintf("%04X<-%02X", a, v))
	w.c.Count("other_register_writes", 1)
	// judged after the machine cycle the store belongs to (a guest cannot read in between)
	return true
}

func (w *world) tick() bool {
	w.m.PPU.EndMachineCycle()
	w.m.Mem.EndMachineCycle()
	w.t++
	if p, on := w.ref.Tick(); on {
		w.seen[p.Line][p.Q] = true
		if p.FirstLine {
			w.c.Count("first_line_cycles", 1)
		}
	} else {
		w.c.Count("cycles_off", 1)
	}
	w.c.Count("cycles", 1)
	return w.check("after a machine cycle")
}

func run(c *rig.Ctx) {
	c.Require("cycles", "cycles_off", "first_line_cycles", "switch_offs", "switch_ons", "redundant_writes", "cells_visited", "other_register_writes")
	var seen [lcdref.Lines][lcdref.LineLen]bool
	worlds := 0
	newWorld := func() *world {
		// the LCD debug option (a 256x256 debug picture) is a display matter, not a timing one
		worlds++
		// (the header's colour-model flag is no business of a DMG's LCD timing either)
		img := rig.BlankROM(0, 0, 0)
		if worlds%5 >= 3 {
			img[0x143] = []byte{0x80, 0xc0}[worlds%5-3]
			c.Count("worlds_with_cgb_header_flag", 1)
		}
		m := rig.MustNew(img, rig.Opts{DebugLCD: worlds%4 == 3})
		if worlds%4 == 3 {
			c.Count("worlds_with_debug_lcd", 1)
		}
		// OAM contents must not matter for the timing: empty, random, or all objects on one line
		or := rig.NewRng(c.Seed, 0xc13, uint64(worlds), uint64(c.Shard))
		switch worlds % 3 {
		case 1:
			for k := 0; k < 160; k++ {
				m.OAM.XPoke(k, or.U8())
			}
			c.Count("worlds_with_random_oam", 1)
		case 2:
			line := uint8(or.Intn(144))
			for k := 0; k < 40; k++ {
				m.OAM.XPoke(k*4, line+16-uint8(or.Intn(8)))
				m.OAM.XPoke(k*4+1, uint8(8+or.Intn(160)))
				m.OAM.XPoke(k*4+2, or.U8())
				m.OAM.XPoke(k*4+3, or.U8())
			}
			c.Count("worlds_with_crowded_line", 1)
		}
		w := &world{c: c, m: m, seen: &seen}
		w.ref.On = true // power-on state: LCDC = 91
		w.ref.N = 0
		return w
	}
	// (1) systematic: switch off and on again at every cycle offset of selected lines and
	// around every mode transition
	lines := []int{0, 1, 2, 142, 143, 144, 145, 152, 153}
	c.Part("offsets", 2*int64(len(lines))*lcdref.LineLen, func(i int64, r *rig.Rng) {
		// every (line, offset) in the first frame (even i) and in a later frame (odd i)
		line := lines[(i/2)/lcdref.LineLen]
		off := int((i / 2) % lcdref.LineLen)
		w := newWorld()
		if !w.check("power-on") {
			return
		}
		// run into the second frame so that full-length line 0 is used too
		target := int64(lcdref.FrameLen-2) + int64(line)*lcdref.LineLen + int64(off)
		if i%4 == 3 {
			target += lcdref.FrameLen // the third frame
		}
		if i%2 == 0 {
			target = int64(lcdref.FirstLineLen) + int64(line-1)*lcdref.LineLen + int64(off)
			if line == 0 {
				target = int64(off)
			}
		}
		for w.t < target {
			if !w.tick() {
				return
			}
		}
		if !w.lcdc(0x11) {
			return
		}
		c.Count("switch_offs", 1)
		gap := r.Intn(300)
		for k := 0; k < gap; k++ {
			if !w.tick() {
				return
			}
		}
		if !w.lcdc(0x91 | r.U8()&0x7e) {
			return
		}
		c.Count("switch_ons", 1)
		for k := 0; k < 2*lcdref.FrameLen+200; k++ {
			if k == 5000 {
				// redundant write: already on, other bits change
				if !w.lcdc(0x80 | r.U8()&0x7f) {
					return
				}
				c.Count("redundant_writes", 1)
			}
			if !w.tick() {
				return
			}
		}
		c.Exact(1)
	})
	c.MarkExhaustive("LCD switched off at every cycle offset (0..113) of lines {0,1,2,142,143,144,145,152,153} in the first and in later frames")

	// (1b) long runs: the schedule must not depend on how many frames have gone by (300 and, in
	// the thorough tier, 70 000 uninterrupted frames: past any 8- or 16-bit frame count)
	c.Part("long", 2, func(i int64, r *rig.Rng) {
		w := newWorld()
		frames := int64(300)
		if i == 1 {
			frames = c.N(520, 70000)
		}
		for w.t < frames*lcdref.FrameLen {
			if !w.tick() {
				return
			}
		}
		c.Count("long_run_frames", frames)
		c.Exact(1)
	})

	// (2) random schedules
	ns := c.N(120, 3000)
	c.Part("schedules", ns, func(i int64, r *rig.Rng) {
		w := newWorld()
		total := int64(4+r.Intn(3)) * lcdref.FrameLen
		next := int64(r.Intn(30000))
		shotAt := int64(r.Intn(int(total)))
		for w.t < total {
			if w.t == next {
				var v uint8
				switch r.Intn(5) {
				case 0, 1: // toggle
					if w.ref.On {
						v = r.U8() & 0x7f
						c.Count("switch_offs", 1)
					} else {
						v = r.U8() | 0x80
						c.Count("switch_ons", 1)
					}
				default: // redundant: same enable bit, other bits random
					v = r.U8() & 0x7f
					if w.ref.On {
						v |= 0x80
					}
					c.Count("redundant_writes", 1)
				}
				if !w.lcdc(v) {
					return
				}
				switch r.Intn(4) {
				case 0:
					next = w.t + int64(r.Intn(4))
				case 1:
					next = w.t + int64(r.Intn(300))
				default:
					next = w.t + int64(r.Intn(40000))
				}
				if next == w.t {
					continue
				}
			}
			if i%4 == 3 && w.t == shotAt {
				// the host asks for a screenshot (PPU.Screenshot, the front end's screenshot
				// action): taking a picture is not a machine cycle
				w.m.PPU.Screenshot(filepath.Join(workDir(), fmt.Sprintf("c13-shot-%d-%d.png", c.Shard, i)))
				os.Remove(filepath.Join(workDir(), fmt.Sprintf("c13-shot-%d-%d.png", c.Shard, i)))
				w.log("screenshot")
				c.Count("screenshots_taken", 1)
				if !w.check("right after a screenshot") {
					return
				}
			}
			if i%2 == 1 && r.Chance(1, 500) {
				a := r.Pick16([]uint16{0xff41, 0xff41, 0xff44, 0xff44, 0xff45, 0xff42, 0xff43, 0xff4a, 0xff4b, 0xff47, 0xff48, 0xff49, 0xff46})
				v := r.U8()
				if a == 0xff46 {
					v = uint8(0xc0 + r.Intn(0x20)) // an OAM DMA transfer starts (and runs: see tick)
				}
				if a == 0xff45 && r.Chance(1, 2) {
					v = r.Pick8([]uint8{0, 1, 143, 144, 152, 153, 154}) // LYC on the first and last lines
				}
				if !w.other(a, v) {
					return
				}
			}
			if !w.tick() {
				return
			}
		}
		c.Case(rig.Hash(uint64(i), r.U64()))
		if i < 2 {
			c.Sample(map[string]any{"class": "schedule", "cycles": total, "last_events": fmt.Sprint(w.hist)})
		}
	})
	frames(c)
	var cells int64
	for l := range seen {
		for q := range seen[l] {
			if seen[l][q] {
				cells++
			}
		}
	}
	c.Count("cells_visited_by_shard", cells)
	c.Count("cells_visited", cells)
}

func main() {
	rig.Main(rig.Spec{
		ID:  "C13",
		Run: run,
		Rule: "one case = one LCD on/off schedule over several frames (systematic: off at every cycle offset of selected lines, then on again after a random gap; random: toggles and redundant LCDC writes at random cycles); " +
			"LY and the STAT mode are compared after every machine cycle and after every LCDC write",
		Assumptions: []string{"the reference counts machine cycles since switch-on: first line 112 cycles, mode 2 for 20 cycles, mode 3 until cycle 61, then mode 0; lines 144-153 mode 1",
			"only the PPU is stepped (the CPU plays no part in this property)"},
	})
}
