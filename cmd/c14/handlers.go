package main

import (
	"fmt"

	"verif/internal/rig"
)

// handlers: requests are raised by the LCD, whatever the CPU did with earlier ones. Machine A's
// guest enables interrupts, takes one (V-blank or STAT, by IE) and returns from the handler with
// a plain RET, so that interrupts stay disabled from then on; machine B's guest never enables
// them. From that point both are polled every machine cycle (IF bits 0 and 1 counted and
// cleared): the two request streams must be identical, cycle for cycle.
func handlers(c *rig.Ctx) {
	c.Require("handler_twin_cycles", "handler_twin_requests")
	ies := []uint8{0x01, 0x02, 0x03}
	srcs := []uint8{0x08, 0x10, 0x20, 0x40, 0x48, 0x78}
	c.Part("handlers", int64(len(ies)*len(srcs)), func(i int64, r *rig.Rng) {
		ie, src := ies[int(i)%len(ies)], srcs[int(i)/len(ies)]
		lycv := uint8(r.Intn(154))
		build := func(enable bool) *rig.Machine {
			rom := rig.BlankROM(0, 0, 0)
			rig.Put(rom, 0x40, 0x04, 0xc9) // INC B; RET
			rig.Put(rom, 0x48, 0x14, 0xc9) // INC D; RET
			rig.Put(rom, 0x100, 0x00, 0xc3, 0x50, 0x01)
			op := uint8(0xf3)
			if enable {
				op = 0xfb
			}
			rig.Put(rom, 0x150, 0xf3, 0xaf, 0xe0, 0x0f, 0x31, 0xf0, 0xdf, 0x3e, ie, 0xe0, 0xff, 0x3e, src, 0xe0, 0x41, 0x3e, lycv, 0xe0, 0x45, op, 0x00, 0x18, 0xfe)
			return rig.MustNew(rom, rig.Opts{})
		}
		a := build(true)
		b := build(false)
		// phase 1: until A has taken its interrupt and is back in the loop
		taken := false
		for k := 0; k < 40000 && !taken; k++ {
			a.Step()
			b.Step()
			x := a.CPU.XGetRegs()
			taken = (x.B != 0 || x.D != 0) && x.PC >= 0x150 && a.CPU.XAtBoundary()
		}
		if !taken {
			c.Violate("handler-twin-no-dispatch", fmt.Sprintf("IE=%02X STAT sources %02X: no interrupt was taken within 40000 cycles of EI", ie, src), nil)
			return
		}
		a.Mem.Write(0xff0f, 0)
		b.Mem.Write(0xff0f, 0)
		var na, nb [2]int
		n := 3*17556 + r.Intn(17556)
		for k := 0; k < n; k++ {
			a.Step()
			b.Step()
			fa, fb := a.IRQ.ReadIF()&3, b.IRQ.ReadIF()&3
			if fa != fb {
				c.Violate("handler-twin-requests-differ", fmt.Sprintf("IE=%02X STAT sources %02X: the guest took one interrupt and returned with RET (interrupts stay disabled); %d cycles later IF shows %02X, on a machine whose guest never enabled interrupts %02X (requests so far: V-blank %d/%d, STAT %d/%d)", ie, src, k+1, fa, fb, na[0], nb[0], na[1], nb[1]), nil)
				return
			}
			for bit := 0; bit < 2; bit++ {
				if fa&(1<<bit) != 0 {
					na[bit]++
					nb[bit]++
				}
			}
			if fa != 0 {
				a.Mem.Write(0xff0f, a.IRQ.ReadIF()&^3)
				b.Mem.Write(0xff0f, b.IRQ.ReadIF()&^3)
			}
		}
		if na[0] < 3 {
			c.Violate("handler-twin-too-few", fmt.Sprintf("only %d V-blank requests in %d cycles", na[0], n), nil)
			return
		}
		c.Count("handler_twin_cycles", int64(n))
		c.Count("handler_twin_requests", int64(na[0]+na[1]))
		c.Exact(1)
	})
}
