// C14 — VBlank and STAT interrupts are requested exactly at their conditions.
//
// Events: IF bits 0-1 read through the Mapper after every machine cycle and cleared after each
// observation, so every request is seen individually and exactly once. Oracle: derived from the
// reference line/mode counter (internal/lcdref): VBlank exactly in the first cycle of line 144,
// once per frame, never while off; with a single STAT source enabled, a STAT request exactly at
// each rising edge of its condition — entry to mode 0 on lines 0-143 (HBlank source), the start
// of line 144 (VBlank source), the start of each line 0-143 (OAM source; line 144 either), the
// start of the line whose number equals a constant LYC (coincidence source; LYC >= 154 never).
// At the switch-on line the OAM source and an LYC=0 coincidence are accepted either way.
package main

import (
	"fmt"

	"verif/internal/lcdref"
	"verif/internal/rig"
)

const (
	srcNone   = 0x00
	srcHBlank = 0x08
	srcVBlank = 0x10
	srcOAM    = 0x20
	srcLYC    = 0x40
)

func srcName(s uint8) string {
	switch s {
	case srcHBlank:
		return "hblank"
	case srcVBlank:
		return "vblank"
	case srcOAM:
		return "oam"
	case srcLYC:
		return "lyc"
	}
	return "none"
}

type world struct {
	c    *rig.Ctx
	m    *rig.Machine
	ref  lcdref.LCD
	src  uint8
	lyc  uint8
	t    int64
	hist []string

	cycles int64
	reads  bool
}

func (w *world) log(s string) {
	if len(w.hist) >= 8 {
		copy(w.hist, w.hist[1:])
		w.hist = w.hist[:7]
	}
	w.hist = append(w.hist, fmt.Sprintf("t=%d %s", w.t, s))
}

// expected returns (vblank must, stat must, stat may) for the cycle at position p.
func (w *world) expected(p lcdref.Pos, first bool) (vb, st, stMay bool) {
	vb = p.Line == 144 && p.Q == 0
	switch w.src {
	case srcHBlank:
		st = p.Line < 144 && p.Q == 61
	case srcVBlank:
		st = p.Line == 144 && p.Q == 0
	case srcOAM:
		st = p.Line < 144 && p.Q == 0
		if p.Line == 144 && p.Q == 0 {
			stMay = true
		}
		if first {
			st, stMay = false, true
		}
	case srcLYC:
		st = p.Q == 0 && p.Line == int(w.lyc)
		if first {
			stMay = st
			st = false
		}
	}
	return
}

func (w *world) tick() bool {
	if w.reads {
		// the guest polls STAT and LY in every cycle (a read has no effect on anything)
		_ = w.m.Mem.Read(0xff41)
		_ = w.m.Mem.Read(0xff44)
	}
	w.m.PPU.EndMachineCycle()
	w.m.Mem.EndMachineCycle()
	w.t++
	iff := w.m.Mem.Read(0xff0f) & 0x03
	if iff != 0 {
		w.m.Mem.Write(0xff0f, 0)
	}
	p, on := w.ref.Tick()
	var vb, st, may bool
	if on {
		vb, st, may = w.expected(p, w.ref.N == 1)
	}
	gotVB, gotST := iff&1 != 0, iff&2 != 0
	w.cycles++
	if w.cycles&0xffff == 0 {
		w.c.Count("cycles", 0x10000)
	}
	if vb {
		w.c.Count("vblank_expected", 1)
	}
	if st {
		w.c.Count("stat_expected_"+srcName(w.src), 1)
	}
	where := fmt.Sprintf("line %d cycle %d (%d cycles after switch-on, on=%v), source=%s LYC=%d", p.Line, p.Q, w.ref.N, on, srcName(w.src), w.lyc)
	if gotVB != vb {
		cls := "vblank-missing"
		if gotVB {
			cls = "vblank-spurious"
			if !on {
				cls = "vblank-while-off"
			}
		}
		w.c.Violate(cls, fmt.Sprintf("%s: VBlank request %v, expected %v; recent %v", where, gotVB, vb, w.hist), nil)
		return false
	}
	if gotST != st && !(may && gotST) {
		cls := fmt.Sprintf("stat-%s-missing", srcName(w.src))
		if gotST {
			cls = fmt.Sprintf("stat-%s-spurious", srcName(w.src))
			if !on {
				cls = "stat-while-off"
			}
		} else if w.src == srcOAM && p.Line == 0 {
			cls = "stat-oam-missing-line0"
		}
		w.c.Violate(cls, fmt.Sprintf("%s: STAT request %v, expected %v; recent %v", where, gotST, st, w.hist), nil)
		return false
	}
	return true
}

func (w *world) lcdc(v uint8) {
	w.m.Mem.Write(0xff40, v)
	w.ref.WriteLCDC(v)
	w.log(fmt.Sprintf("LCDC<-%02X", v))
	// a write must not raise anything by itself
	if iff := w.m.Mem.Read(0xff0f) & 3; iff != 0 {
		w.c.Violate("request-on-lcdc-write", fmt.Sprintf("LCDC<-%02X raised IF bits %02X", v, iff), nil)
		w.m.Mem.Write(0xff0f, 0)
	}
}

var worlds int

func newWorld(c *rig.Ctx, src, lyc uint8) *world {
	m := rig.MustNew(rig.BlankROM(0, 0, 0), rig.Opts{})
	// OAM contents and the object enable bit must not matter for the requests
	worlds++
	or := rig.NewRng(c.Seed, 0xc14, uint64(worlds), uint64(c.Shard))
	onValue = 0x91
	switch worlds % 3 {
	case 1:
		for k := 0; k < 160; k++ {
			m.OAM.XPoke(k, or.U8())
		}
		onValue = 0x93
		c.Count("worlds_with_random_oam", 1)
	case 2:
		line := uint8(or.Intn(144))
		for k := 0; k < 40; k++ {
			m.OAM.XPoke(k*4, line+16-uint8(or.Intn(8)))
			m.OAM.XPoke(k*4+1, uint8(8+or.Intn(160)))
		}
		onValue = 0x93 | or.U8()&0x04
		c.Count("worlds_with_crowded_line", 1)
	}
	w := &world{c: c, m: m, src: src, lyc: lyc}
	// configure with the LCD off, then switch on: the schedule starts at a known point
	m.Mem.Write(0xff40, 0x11)
	m.Mem.Write(0xff45, lyc)
	m.Mem.Write(0xff41, src)
	m.Mem.Write(0xff0f, 0)
	w.lcdc(onValue)
	return w
}

var onValue uint8 = 0x91

func run(c *rig.Ctx) {
	c.Require("cycles", "vblank_expected", "stat_expected_hblank", "stat_expected_vblank", "stat_expected_oam", "stat_expected_lyc", "runs_source_none", "switch_offs", "neutral_register_writes", "source_changes")
	srcs := []uint8{srcNone, srcHBlank, srcVBlank, srcOAM, srcLYC}
	var lycs []uint8
	for v := 0; v < 154; v++ {
		lycs = append(lycs, uint8(v))
	}
	lycs = append(lycs, 154, 200, 255)
	// (1) each single source x LYC x 3 frames
	c.Part("sources", int64(len(srcs)*len(lycs)), func(i int64, r *rig.Rng) {
		src := srcs[i%int64(len(srcs))]
		lyc := lycs[i/int64(len(srcs))]
		w := newWorld(c, src, lyc)
		w.reads = (i/int64(len(srcs)))%2 == 1
		if w.reads {
			c.Count("runs_polling_stat_every_cycle", 1)
		}
		for k := 0; k < 3*lcdref.FrameLen+50; k++ {
			if !w.tick() {
				return
			}
		}
		if src == srcNone {
			c.Count("runs_source_none", 1)
		}
		c.Exact(1)
		if i%131 == 0 {
			c.Sample(map[string]any{"class": "sources", "source": srcName(src), "lyc": lyc, "frames": 3})
		}
	})
	c.MarkExhaustive("each single STAT source (and none) x LYC 0..153, 154, 200, 255 x 3 frames from switch-on")

	// (1a) the LCD is switched off in every cycle around each event (and everywhere on the
	// lines concerned): from the store on nothing may be requested, in that cycle either
	offLines := []int{0, 1, 142, 143, 144, 145, 153}
	c.Part("switch-off", int64(len(srcs)*len(offLines))*lcdref.LineLen, func(i int64, r *rig.Rng) {
		off := int(i % lcdref.LineLen)
		k := int(i / lcdref.LineLen)
		src := srcs[k%len(srcs)]
		line := offLines[k/len(srcs)]
		lyc := uint8(line)
		if r.Chance(1, 3) {
			lyc = uint8(r.Intn(154))
		}
		w := newWorld(c, src, lyc)
		target := int64(lcdref.FrameLen-2) + int64(line)*lcdref.LineLen + int64(off)
		for w.t < target {
			if !w.tick() {
				return
			}
		}
		w.lcdc(onValue & 0x7f)
		c.Count("switch_offs", 1)
		for k := 0; k < 400; k++ {
			if !w.tick() {
				return
			}
		}
		w.lcdc(onValue)
		for k := 0; k < lcdref.FrameLen+300; k++ {
			if !w.tick() {
				return
			}
		}
		c.Exact(1)
	})
	c.MarkExhaustive("LCD switched off at every cycle offset of lines {0,1,142,143,144,145,153} x each single source")

	// (1b) long runs: VBlank once per frame and the STAT edges whatever the number of frames
	c.Part("long", 5, func(i int64, r *rig.Rng) {
		w := newWorld(c, srcs[i%int64(len(srcs))], uint8(r.Intn(154)))
		frames := c.N(300, 3000)
		if i == 2 {
			// thorough tier: past 2^32 machine cycles (68 emulated minutes) of uninterrupted LCD-on
			frames = c.N(300, 246000)
		}
		for k := int64(0); k < frames*lcdref.FrameLen; k++ {
			if !w.tick() {
				return
			}
		}
		c.Count("long_run_frames", frames)
		c.Exact(1)
	})

	// (2) on/off schedules
	ns := c.N(150, 4000)
	c.Part("schedules", ns, func(i int64, r *rig.Rng) {
		src := srcs[r.Intn(len(srcs))]
		lyc := uint8(r.Intn(160))
		w := newWorld(c, src, lyc)
		total := int64(3+r.Intn(3)) * lcdref.FrameLen
		next := int64(r.Intn(30000))
		for w.t < total {
			if w.t == next {
				v := r.U8() & 0x7f
				switch r.Intn(4) {
				case 0, 1:
					if !w.ref.On {
						v |= 0x80 | onValue&0x02
					} else {
						c.Count("switch_offs", 1)
					}
				default:
					if w.ref.On {
						v |= 0x80
					}
				}
				w.lcdc(v)
				next = w.t + 1 + int64(r.PickInt([]int{1, 3, 113, 114, 115, 2000, 17556, 30000}))*int64(1+r.Intn(2))/2
			}
			// another single source is selected in mid-run: from then on the requests follow the
			// new source's rising edges (what the store itself raises, if the new condition
			// already holds, is not judged)
			if i%4 == 3 && r.Chance(1, 2500) {
				ns := srcs[r.Intn(len(srcs))]
				w.m.Mem.Write(0xff41, ns)
				w.m.Mem.Write(0xff0f, w.m.Mem.Read(0xff0f)&^0x02)
				w.src = ns
				w.log(fmt.Sprintf("STAT<-%02X", ns))
				c.Count("source_changes", 1)
			}
			// stores that change nothing the conditions depend on: the same constant LYC again,
			// anything to the read-only LY, scroll/window/palette registers
			if i%2 == 1 && r.Chance(1, 400) {
				a := r.Pick16([]uint16{0xff45, 0xff45, 0xff45, 0xff44, 0xff44, 0xff42, 0xff43, 0xff4a, 0xff4b, 0xff47, 0xff46})
				v := r.U8()
				if a == 0xff45 {
					v = lyc
				}
				if a == 0xff46 {
					v = uint8(0xc0 + r.Intn(0x20))
				}
				w.m.Mem.Write(a, v)
				w.log(fmt.Sprintf("%04X<-%02X", a, v))
				c.Count("neutral_register_writes", 1)
			}
			if !w.tick() {
				return
			}
		}
		c.Case(rig.Hash(uint64(i), r.U64()))
	})
	handlers(c)
}

func main() {
	rig.Main(rig.Spec{
		ID:  "C14",
		Run: run,
		Rule: "source cases: (single STAT source or none, constant LYC) enumerated completely, three frames each from switch-on; schedule cases: random LCD on/off schedules with a random source and LYC; " +
			"IF bits 0-1 are read and cleared after every machine cycle and compared with the reference's rising edges",
		Assumptions: []string{"only single STAT sources (STAT-line blocking between sources is outside the statement)", "LYC and the STAT enable bits are constant while the LCD is on",
			"at the switch-on line the OAM source and an LYC=0 coincidence are accepted either way; the OAM source at the start of line 144 is accepted either way"},
	})
}
