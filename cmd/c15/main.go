// C15 — rendered frames equal the DMG composition of VRAM, OAM and registers.
//
// Oracle: a per-pixel reference renderer written from first principles with signed
// coordinates: background from the selected map/addressing mode with SCX/SCY wrap, the window
// over it from (WX-7, WY), objects in OAM order (first opaque pixel wins), BG-priority objects
// hidden behind background/window colours 1-3, colour index = (high-plane bit << 1) | low-plane
// bit, BGP/OBP0/OBP1 palettes, shades FF/AA/77/33. Scenes obey the statement's side conditions
// (LCD and BG on, 8x8 objects, <= 10 objects per line, X non-decreasing in OAM order, WX 7-166,
// registers constant). A scene is written with the LCD off, the LCD switched on, two frames run
// and the second compared pixel by pixel.
package main

import (
	"fmt"
	"sort"

	"verif/internal/lcdref"
	"verif/internal/rig"
)

type scene struct {
	vram                           [0x2000]byte
	oam                            [160]byte
	lcdc, scx, scy, wx, wy         uint8
	bgp, obp0, obp1                uint8
	nobj                           int
	clipTop, clipBot, clipL, clipR int
}

var shades = [4]uint8{0xff, 0xaa, 0x77, 0x33}

func (s *scene) tilePixel(tile int, col, row int) uint8 {
	lo := s.vram[tile*16+row*2]
	hi := s.vram[tile*16+row*2+1]
	b := uint(7 - col)
	return (hi>>b&1)<<1 | lo>>b&1
}

func (s *scene) mapPixel(mapBase int, px, py int) uint8 {
	t := s.vram[mapBase+(py/8)*32+px/8]
	tile := int(t)
	if s.lcdc&0x10 == 0 {
		tile = 256 + int(int8(t))
	}
	return s.tilePixel(tile, px%8, py%8)
}

const (
	fromBG = iota
	fromWindow
	fromObject
	fromObjectBehindWins // BG-priority object over background colour 0
	fromBGOverObject     // background colour 1-3 hides a BG-priority object
)

// pixel returns the shade index (0-3) and where it came from.
func (s *scene) pixel(x, y int) (uint8, int) {
	// background
	bgMap := 0x1800
	if s.lcdc&0x08 != 0 {
		bgMap = 0x1c00
	}
	idx := s.mapPixel(bgMap, (x+int(s.scx))&255, (y+int(s.scy))&255)
	src := fromBG
	// window
	if s.lcdc&0x20 != 0 && int(s.wy) <= y && int(s.wy) <= 143 && x >= int(s.wx)-7 && s.wx <= 166 {
		wMap := 0x1800
		if s.lcdc&0x40 != 0 {
			wMap = 0x1c00
		}
		idx = s.mapPixel(wMap, x-(int(s.wx)-7), y-int(s.wy))
		src = fromWindow
	}
	// objects
	if s.lcdc&0x02 != 0 {
		for i := 0; i < 40; i++ {
			oy, ox := int(s.oam[i*4])-16, int(s.oam[i*4+1])-8
			if y < oy || y >= oy+8 || x < ox || x >= ox+8 {
				continue
			}
			attr := s.oam[i*4+3]
			col, row := x-ox, y-oy
			if attr&0x20 != 0 {
				col = 7 - col
			}
			if attr&0x40 != 0 {
				row = 7 - row
			}
			p := s.tilePixel(int(s.oam[i*4+2]), col, row)
			if p == 0 {
				continue
			}
			pal := s.obp0
			if attr&0x10 != 0 {
				pal = s.obp1
			}
			if attr&0x80 != 0 {
				if idx != 0 {
					return s.bgp >> (2 * idx) & 3, fromBGOverObject
				}
				return pal >> (2 * p) & 3, fromObjectBehindWins
			}
			return pal >> (2 * p) & 3, fromObject
		}
	}
	return s.bgp >> (2 * idx) & 3, src
}

func genScene(r *rig.Rng) *scene {
	s := &scene{}
	// tile data: dense, all four colours; a few uniform tiles so that transparency occurs
	copy(s.vram[:0x1800], r.Bytes(0x1800))
	for k := 0; k < 40; k++ {
		t := r.Intn(384)
		lo, hi := uint8(0), uint8(0)
		switch r.Intn(4) {
		case 1:
			lo = 0xff
		case 2:
			hi = 0xff
		case 3:
			lo, hi = r.U8(), r.U8()
		}
		for row := 0; row < 8; row++ {
			s.vram[t*16+row*2], s.vram[t*16+row*2+1] = lo, hi
			if r.Chance(1, 3) {
				lo, hi = r.U8()&r.U8(), r.U8()&r.U8()
			}
		}
	}
	copy(s.vram[0x1800:], r.Bytes(0x800))
	s.lcdc = 0x81 | r.U8()&0x7a // LCD on, BG on, 8x8 objects
	s.scx, s.scy = r.U8(), r.U8()
	if r.Chance(1, 4) {
		s.scx, s.scy = r.Pick8([]uint8{0, 1, 7, 8, 96, 97, 248, 255}), r.Pick8([]uint8{0, 1, 7, 112, 113, 255})
	}
	s.wx = 7 + uint8(r.Intn(160))
	if r.Chance(1, 3) {
		s.wx = r.Pick8([]uint8{7, 8, 14, 15, 159, 165, 166})
	}
	s.wy = uint8(r.Intn(144))
	if r.Chance(1, 4) {
		s.wy = r.Pick8([]uint8{0, 1, 142, 143, 144, 150, 255})
	}
	if r.Chance(1, 6) {
		// window and background aligned on tile boundaries, different maps
		s.scx, s.scy = uint8(r.Intn(32))*8, uint8(r.Intn(32))*8
		s.wx, s.wy = 7+uint8(r.Intn(20)), uint8(r.Intn(3))*8
		if r.Bool() {
			s.wx = 166 - s.scx/8*8 - uint8(r.Intn(8))
			if s.wx < 7 || s.wx > 166 {
				s.wx = 15
			}
		}
		s.lcdc |= 0x20
		if s.lcdc&0x08 != 0 {
			s.lcdc &^= 0x40
		} else {
			s.lcdc |= 0x40
		}
	}
	s.bgp, s.obp0, s.obp1 = r.U8(), r.U8(), r.U8()
	if r.Chance(1, 2) {
		s.bgp = 0xe4
	}
	// objects: X non-decreasing in OAM order, at most 10 per line
	type obj struct{ y, x, t, a uint8 }
	var objs []obj
	var perLine [160 + 16]int
	n := r.Intn(41)
	crowd := r.Chance(1, 5)
	for k := 0; k < n; k++ {
		var o obj
		switch r.Intn(8) {
		case 0: // crossing the top edge
			o.y = 1 + uint8(r.Intn(15))
		case 1: // crossing the bottom edge
			o.y = 145 + uint8(r.Intn(15))
		case 2: // hidden vertically
			o.y = r.Pick8([]uint8{0, 160, 161, 200, 255})
		default:
			o.y = 16 + uint8(r.Intn(137))
		}
		switch r.Intn(8) {
		case 0:
			o.x = 1 + uint8(r.Intn(7))
		case 1:
			o.x = 161 + uint8(r.Intn(7))
		case 2:
			o.x = r.Pick8([]uint8{0, 168, 169, 255})
		default:
			o.x = 8 + uint8(r.Intn(153))
		}
		if crowd {
			// many objects on the last and on the first visible line
			if k%2 == 0 {
				o.y = 152 + uint8(r.Intn(8)) // rows ending at or covering line 143
			} else {
				o.y = 9 + uint8(r.Intn(8)) // rows covering line 0
			}
			o.x = 8 + uint8(r.Intn(153))
		}
		o.t = r.U8()
		o.a = r.U8()
		ok := true
		for row := int(o.y); row < int(o.y)+8; row++ {
			if row < len(perLine) && perLine[row] >= 10 {
				ok = false
			}
		}
		if !ok {
			continue
		}
		for row := int(o.y); row < int(o.y)+8 && row < len(perLine); row++ {
			perLine[row]++
		}
		objs = append(objs, o)
	}
	sort.SliceStable(objs, func(a, b int) bool { return objs[a].x < objs[b].x })
	for i, o := range objs {
		s.oam[i*4], s.oam[i*4+1], s.oam[i*4+2], s.oam[i*4+3] = o.y, o.x, o.t, o.a
		if o.y >= 1 && o.y <= 15 {
			s.clipTop++
		}
		if o.y >= 145 && o.y <= 159 {
			s.clipBot++
		}
		if o.x >= 1 && o.x <= 7 {
			s.clipL++
		}
		if o.x >= 161 && o.x <= 167 {
			s.clipR++
		}
	}
	s.nobj = len(objs)
	// unused OAM entries stay at Y=0 (hidden)
	return s
}

func run(c *rig.Ctx) {
	c.Require("scenes", "pixels_bg", "pixels_window", "pixels_object", "pixels_object_behind_visible", "pixels_bg_over_object",
		"objects_clipped_top", "objects_clipped_bottom", "objects_clipped_left", "objects_clipped_right", "scenes_signed_addressing", "scenes_flipped_objects")
	ns := c.N(1600, 20000)
	c.Part("scenes", ns, func(i int64, r *rig.Rng) {
		s := genScene(r)
		m := rig.MustNew(rig.BlankROM(0, 0, 0), rig.Opts{})
		m.Mem.Write(0xff40, 0x11)
		*m.PPU.XVRAM() = s.vram
		for k := 0; k < 160; k++ {
			m.Mem.Write(0xfe00+uint16(k), s.oam[k])
		}
		m.Mem.Write(0xff42, s.scy)
		m.Mem.Write(0xff43, s.scx)
		m.Mem.Write(0xff4a, s.wy)
		m.Mem.Write(0xff4b, s.wx)
		m.Mem.Write(0xff47, s.bgp)
		m.Mem.Write(0xff48, s.obp0)
		m.Mem.Write(0xff49, s.obp1)
		m.Mem.Write(0xff40, s.lcdc)
		for k := 0; k < 2*lcdref.FrameLen-2; k++ {
			m.PPU.EndMachineCycle()
		}
		fr := m.PPU.Frame()
		var counts [5]int64
		bad := 0
		for y := 0; y < 144 && bad < 1; y++ {
			for x := 0; x < 160; x++ {
				sh, src := s.pixel(x, y)
				counts[src]++
				want := shades[sh]
				o := y*fr.Stride + x*4
				got := fr.Pix[o : o+4]
				if got[0] != want || got[1] != want || got[2] != want || got[3] != 0xff {
					cls := [...]string{"background", "window", "object", "object-behind-bg0", "bg-over-object"}[src]
					c.Violate("pixel-"+cls, fmt.Sprintf("scene %d pixel (%d,%d): frame has %02X%02X%02X%02X, composition gives shade %02X from %s (LCDC=%02X SCX=%d SCY=%d WX=%d WY=%d BGP=%02X OBP0=%02X OBP1=%02X, %d objects)",
						i, x, y, got[0], got[1], got[2], got[3], want, cls, s.lcdc, s.scx, s.scy, s.wx, s.wy, s.bgp, s.obp0, s.obp1, s.nobj),
						map[string]any{"lcdc": s.lcdc, "x": x, "y": y, "source": cls, "oam": fmt.Sprintf("% X", s.oam[:s.nobj*4])})
					bad++
					break
				}
			}
		}
		c.Count("scenes", 1)
		c.Count("pixels_bg", counts[fromBG])
		c.Count("pixels_window", counts[fromWindow])
		c.Count("pixels_object", counts[fromObject])
		c.Count("pixels_object_behind_visible", counts[fromObjectBehindWins])
		c.Count("pixels_bg_over_object", counts[fromBGOverObject])
		c.Count("objects_clipped_top", int64(s.clipTop))
		c.Count("objects_clipped_bottom", int64(s.clipBot))
		c.Count("objects_clipped_left", int64(s.clipL))
		c.Count("objects_clipped_right", int64(s.clipR))
		if s.lcdc&0x10 == 0 {
			c.Count("scenes_signed_addressing", 1)
		}
		for k := 0; k < s.nobj; k++ {
			if s.oam[k*4+3]&0x60 != 0 {
				c.Count("scenes_flipped_objects", 1)
				break
			}
		}
		c.Eval(160 * 144)
		h := rig.NewHasher()
		h.B(s.vram[:])
		h.B(s.oam[:])
		h.U(uint64(s.lcdc)<<32 | uint64(s.scx)<<24 | uint64(s.scy)<<16 | uint64(s.wx)<<8 | uint64(s.wy))
		c.DistinctOnly(h.Sum())
		if i < 2 {
			c.Sample(map[string]any{"class": "scene", "lcdc": fmt.Sprintf("%02X", s.lcdc), "scx": s.scx, "scy": s.scy, "wx": s.wx, "wy": s.wy, "objects": s.nobj, "oam_head": fmt.Sprintf("% X", s.oam[:16])})
		}
	})
	sequences(c)
}

func main() {
	rig.Main(rig.Spec{
		ID:  "C15",
		Run: run,
		Rule: "one case = one random scene (dense tile data with all four colours, both maps, both addressing modes, scrolls incl. wrap, window on/off incl. edge positions, up to 40 objects with <= 10 per line sorted by X, " +
			"edge-crossing positions on all four edges, flips, palettes, priority); evaluations count compared pixels, distinct counts distinct scenes",
		Assumptions: []string{"scenes obey the statement's side conditions; registers, VRAM and OAM are constant while the two frames run", "the second frame after switch-on is compared", "only the PPU is stepped"},
	})
}
