package main

// Scene sequences: the statement holds for every frame in which the scene is constant, not
// only for the first frames after switch-on. One machine shows a chain of scenes; each step
// changes a few things during the vertical blank (through the guest's own stores: only the
// bytes that change are written) and the first full frame rendered afterwards is compared with
// the reference composition of the new scene. State left over from earlier frames (objects that
// were on the last lines and are parked, a window that was off-screen and comes back through WY
// alone, ...) must not show.

import (
	"fmt"

	"verif/internal/lcdref"
	"verif/internal/rig"
)

type store struct {
	a uint16
	v uint8
}

func (s *scene) perLine() (n [176 + 8]int) {
	for i := 0; i < 40; i++ {
		y := int(s.oam[i*4])
		if y == 0 || y >= 160 {
			continue
		}
		for row := y; row < y+8; row++ {
			n[row]++
		}
	}
	return
}

// mutate changes the scene and returns the stores that bring the machine up to date.
func mutate(r *rig.Rng, s *scene, c *rig.Ctx) (ws []store) {
	set := func(a uint16, v uint8) { ws = append(ws, store{a, v}) }
	for k := 1 + r.Intn(3); k > 0; k-- {
		switch r.Intn(10) {
		case 9: // the LCD is switched off and on again (nothing else need be rewritten)
			set(0xff40, s.lcdc&0x7f)
			set(0xff40, s.lcdc)
			c.Count("sequence_lcd_off_on", 1)
		case 0: // park objects, those reaching the last or first lines first
			for i := 0; i < s.nobj; i++ {
				y := s.oam[i*4]
				if ((y >= 152 && y < 160 || y > 0 && y <= 16) && r.Chance(2, 3)) || r.Chance(1, 8) {
					s.oam[i*4] = r.Pick8([]uint8{0, 0, 0, 160, 255})
					set(0xfe00+uint16(i*4), s.oam[i*4])
					c.Count("sequence_objects_parked", 1)
				}
			}
		case 1: // window Y alone
			was := s.wy
			s.wy = uint8(r.Intn(144))
			if r.Chance(1, 2) {
				s.wy = r.Pick8([]uint8{0, 1, 100, 143, 144, 150, 200, 255})
			}
			set(0xff4a, s.wy)
			if was > 143 && s.wy <= 143 {
				c.Count("sequence_window_brought_back_by_wy", 1)
			}
		case 2:
			s.wx = 7 + uint8(r.Intn(160))
			set(0xff4b, s.wx)
		case 3:
			if r.Bool() {
				s.scx = r.U8()
				set(0xff43, s.scx)
			} else {
				s.scy = r.U8()
				set(0xff42, s.scy)
			}
		case 4:
			s.lcdc ^= uint8(1) << uint(r.PickInt([]int{1, 3, 4, 5, 6}))
			if r.Chance(1, 2) {
				// LCDC passes through other values first (background off, 8x16 objects, window
				// bit flipped ...): only the value in force while the frame is drawn counts
				set(0xff40, 0x80|r.U8()&0x7f)
				if r.Bool() {
					set(0xff40, s.lcdc&^0x21)
				}
				c.Count("sequence_transient_lcdc_values", 1)
			}
			set(0xff40, s.lcdc)
		case 5:
			switch r.Intn(3) {
			case 0:
				s.bgp = r.U8()
				set(0xff47, s.bgp)
			case 1:
				s.obp0 = r.U8()
				set(0xff48, s.obp0)
			case 2:
				s.obp1 = r.U8()
				set(0xff49, s.obp1)
			}
		case 6: // move objects vertically (X order and the ten-per-line limit are kept)
			for tries := 0; tries < 6 && s.nobj > 0; tries++ {
				i := r.Intn(s.nobj)
				old := s.oam[i*4]
				ny := uint8(1 + r.Intn(159))
				if r.Chance(1, 3) {
					ny = r.Pick8([]uint8{1, 8, 9, 15, 16, 145, 152, 153, 159})
				}
				s.oam[i*4] = 0
				n := s.perLine()
				ok := true
				for row := int(ny); row < int(ny)+8; row++ {
					if n[row] >= 10 {
						ok = false
					}
				}
				if !ok {
					s.oam[i*4] = old
					continue
				}
				s.oam[i*4] = ny
				set(0xfe00+uint16(i*4), ny)
			}
		case 7: // tile and map bytes
			for n := 0; n < 48; n++ {
				a := r.Intn(0x2000)
				s.vram[a] = r.U8()
				set(0x8000+uint16(a), s.vram[a])
			}
		case 8: // object tiles and attributes
			for n := 0; n < 4 && s.nobj > 0; n++ {
				i := r.Intn(s.nobj)
				s.oam[i*4+2], s.oam[i*4+3] = r.U8(), r.U8()
				set(0xfe00+uint16(i*4+2), s.oam[i*4+2])
				set(0xfe00+uint16(i*4+3), s.oam[i*4+3])
			}
		}
	}
	return
}

func compareFrame(c *rig.Ctx, m *rig.Machine, s *scene, label string) bool {
	fr := m.PPU.Frame()
	for y := 0; y < 144; y++ {
		for x := 0; x < 160; x++ {
			sh, src := s.pixel(x, y)
			want := shades[sh]
			o := y*fr.Stride + x*4
			got := fr.Pix[o : o+4]
			if got[0] != want || got[1] != want || got[2] != want || got[3] != 0xff {
				cls := [...]string{"background", "window", "object", "object-behind-bg0", "bg-over-object"}[src]
				c.Violate("sequence-pixel-"+cls, fmt.Sprintf("%s pixel (%d,%d): frame has %02X%02X%02X%02X, composition gives shade %02X from %s (LCDC=%02X SCX=%d SCY=%d WX=%d WY=%d BGP=%02X OBP0=%02X OBP1=%02X, %d objects)",
					label, x, y, got[0], got[1], got[2], got[3], want, cls, s.lcdc, s.scx, s.scy, s.wx, s.wy, s.bgp, s.obp0, s.obp1, s.nobj),
					map[string]any{"lcdc": s.lcdc, "x": x, "y": y, "source": cls, "oam": fmt.Sprintf("% X", s.oam[:s.nobj*4])})
				return false
			}
		}
	}
	return true
}

func sequences(c *rig.Ctx) {
	c.Require("sequence_frames_compared", "sequence_objects_parked", "sequence_window_brought_back_by_wy", "sequence_lcd_off_on", "sequence_first_frames_after_switch_on")
	ns := c.N(240, 3000)
	c.Part("sequences", ns, func(i int64, r *rig.Rng) {
		s := genScene(r)
		if i%3 == 0 {
			// a window that starts off-screen
			s.lcdc |= 0x20
			s.wy = r.Pick8([]uint8{144, 150, 200, 255})
		}
		uniform := -1
		if i%5 == 4 {
			// both maps show one tile everywhere, the window covers the right part of the screen
			// down to the last line: the last row fetched in a frame and the first one fetched in
			// the next are often the same row of the same tile
			uniform = r.Intn(256)
			for k := 0x1800; k < 0x2000; k++ {
				s.vram[k] = uint8(uniform)
			}
			s.lcdc |= 0x20
			s.wx = 7 + 40 + uint8(r.Intn(100))
			s.wy = uint8(r.Intn(140))
			s.scy = uint8((143-int(s.wy))%8) + uint8(r.Intn(32))*8
			for k := 0; k < 160; k += 4 {
				s.oam[k] = 0 // no objects in the way
			}
			s.nobj = 0
			c.Count("sequence_uniform_map_scenes", 1)
		}
		m := rig.MustNew(rig.BlankROM(0, 0, 0), rig.Opts{})
		m.Mem.Write(0xff40, 0x11)
		*m.PPU.XVRAM() = s.vram
		for k := 0; k < 160; k++ {
			m.Mem.Write(0xfe00+uint16(k), s.oam[k])
		}
		m.Mem.Write(0xff42, s.scy)
		m.Mem.Write(0xff43, s.scx)
		m.Mem.Write(0xff4a, s.wy)
		m.Mem.Write(0xff4b, s.wx)
		m.Mem.Write(0xff47, s.bgp)
		m.Mem.Write(0xff48, s.obp0)
		m.Mem.Write(0xff49, s.obp1)
		m.Mem.Write(0xff40, s.lcdc)
		tick := func(n int) {
			for k := 0; k < n; k++ {
				m.PPU.EndMachineCycle()
			}
		}
		tick(2*lcdref.FrameLen - 2) // now at the start of a frame
		if !compareFrame(c, m, s, fmt.Sprintf("sequence %d, first scene:", i)) {
			return
		}
		c.Count("sequence_frames_compared", 1)
		steps := 3 + r.Intn(4)
		for st := 1; st <= steps; st++ {
			rig.SiblingRun(40)                                         // another machine in the process rewrites its own palettes, scroll, window
			tick(144*lcdref.LineLen + 1 + r.Intn(10*lcdref.LineLen-8)) // somewhere in the vertical blank
			if mode := m.Mem.Read(0xff41) & 3; mode != 1 {
				c.Note("sequence harness: expected the vertical blank, STAT mode is %d", mode)
				return
			}
			var ws []store
			if uniform >= 0 && r.Chance(2, 3) {
				// only the odd (high bit plane) bytes of the one visible tile change
				for _, base := range []int{uniform * 16, 0x1000 + int(int8(uint8(uniform)))*16} {
					for row := 0; row < 8; row++ {
						a := base + row*2 + 1
						s.vram[a] = r.U8()
						ws = append(ws, store{0x8000 + uint16(a), s.vram[a]})
					}
				}
				c.Count("sequence_odd_byte_tile_stores", 1)
			} else {
				ws = mutate(r, s, c)
			}
			restarted := -1
			for k, w := range ws {
				m.Mem.Write(w.a, w.v)
				if w.a == 0xff40 && w.v&0x80 != 0 && k > 0 && ws[k-1].a == 0xff40 && ws[k-1].v&0x80 == 0 {
					restarted = k
				}
			}
			if restarted >= 0 && restarted == len(ws)-1 {
				// switched on by the last store: the very first frame after switch-on (two cycles
				// shorter) must already be the composition
				tick(lcdref.FrameLen - 2)
				c.Count("sequence_first_frames_after_switch_on", 1)
			} else {
				if restarted >= 0 {
					// stores followed the switch-on: they fell into line 0; start over in v-blank
					tick(144*lcdref.LineLen + 200)
					for _, w := range ws[restarted+1:] {
						m.Mem.Write(w.a, w.v)
					}
				}
				// finish this frame, run the next one completely
				for m.Mem.Read(0xff44) != 0 {
					tick(1)
				}
				// while the frame is drawn the guest may store to the read-only LY (nothing in
				// the scene changes by that)
				// (likewise to LYC and STAT, and the present value again to LCDC)
				done := 0
				for n := r.Intn(5); n > 0; n-- {
					k1 := r.Intn(lcdref.FrameLen - done)
					if r.Chance(1, 3) {
						abs := ((done+k1)/lcdref.LineLen)*lcdref.LineLen + lcdref.LineLen - 1 - r.Intn(3) // the last cycles of a line
						if abs >= done && abs < lcdref.FrameLen {
							k1 = abs - done
						}
					}
					tick(k1)
					done += k1
					switch r.Intn(4) {
					case 0:
						m.Mem.Write(0xff44, r.U8())
						c.Count("sequence_ly_stores_mid_frame", 1)
					case 1:
						m.Mem.Write(0xff40, s.lcdc)
						c.Count("sequence_lcdc_same_value_stores_mid_frame", 1)
					case 2:
						m.Mem.Write(0xff45, r.U8())
					case 3:
						m.Mem.Write(0xff41, r.U8())
					}
				}
				tick(lcdref.FrameLen - done)
			}
			if !compareFrame(c, m, s, fmt.Sprintf("sequence %d, scene %d (after %d stores in the vertical blank):", i, st+1, len(ws))) {
				return
			}
			c.Count("sequence_frames_compared", 1)
			c.Eval(160 * 144)
		}
		h := rig.NewHasher()
		h.B(s.vram[:])
		h.B(s.oam[:])
		h.U(uint64(i))
		c.DistinctOnly(h.Sum())
	})
}
