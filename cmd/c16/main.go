// C16 — an OAM DMA transfer copies 160 bytes and blocks OAM meanwhile.
//
// Events: Mapper.Read of FE00-FEFF after every machine cycle of a transfer, and the OAM
// contents afterwards (through the Mapper and through the snapshot hook). Oracle: from the
// FF46 write on, every FE00-FEFF read returns FF until completion; completion (OAM readable
// again) comes within 162 machine cycles of the write; afterwards OAM[i] is source[i] as it was
// when copied; a restart replaces the running transfer (only the new transfer's data and its
// own 162-cycle bound count). The harness knows the source contents because it wrote them.
package main

import (
	"fmt"

	"verif/internal/rig"
	"verif/internal/romrun"
)

type world struct {
	c            *rig.Ctx
	m            *rig.Machine
	rom          []byte
	vram         [0x2000]byte
	cram         [0x2000]byte
	wram         [0x2000]byte
	ramOn        bool
	bank         int
	lcdToggleAt  int
	bankSwitchAt int // -1 = none: cycle at which the guest selects another ROM bank mid-transfer
	newBank      int
}

var worlds int

func newWorld(c *rig.Ctx, r *rig.Rng, lcdOn bool) *world {
	rom := rig.BlankROM(0x03, 1, 2) // MBC1 + RAM, 4 ROM banks, 8 KiB RAM
	copy(rom, r.Bytes(len(rom)))
	rom[0x147], rom[0x148], rom[0x149] = 0x03, 1, 2
	worlds++
	clockCart := worlds%3 == 2
	if clockCart {
		rom[0x147] = 0x10 // MBC3 + clock + RAM: same banking registers for what is used here
	}
	m := rig.MustNew(rom, rig.Opts{})
	m.Quiet()
	w := &world{c: c, m: m, rom: rom, bank: 1, lcdToggleAt: -1, bankSwitchAt: -1}
	copy(w.vram[:], r.Bytes(0x2000))
	copy(w.cram[:], r.Bytes(0x2000))
	copy(w.wram[:], r.Bytes(0x2000))
	m.Mem.Write(0x0000, 0x0a)
	for i := 0; i < 0x2000; i++ {
		m.Mem.Write(0x8000+uint16(i), w.vram[i])
		m.Mem.Write(0xa000+uint16(i), w.cram[i])
		m.Mem.Write(0xc000+uint16(i), w.wram[i])
	}
	w.ramOn = true
	if r.Chance(1, 3) {
		m.Mem.Write(0x0000, 0x00)
		w.ramOn = false
	}
	w.bank = 1 + r.Intn(3)
	m.Mem.Write(0x2000, uint8(w.bank))
	if clockCart {
		// the cartridge's clock is halted (or not): no business of the transfer's
		m.Mem.Write(0x0000, 0x0a)
		m.Mem.Write(0x4000, 0x0c)
		m.Mem.Write(0xa000, uint8(r.Intn(2))<<6)
		m.Mem.Write(0x4000, 0x00)
		if !w.ramOn {
			m.Mem.Write(0x0000, 0x00)
		}
		c.Count("worlds_with_clock_cartridge", 1)
	}
	// OAM starts with known garbage different from FF
	for i := 0; i < 160; i++ {
		m.Mem.Write(0xfe00+uint16(i), 0x5a^uint8(i))
	}
	if lcdOn {
		m.Mem.Write(0xff40, 0x91)
	}
	return w
}

// src returns the byte a DMA from page reads at offset i.
func (w *world) src(page uint8, i int) uint8 {
	a := int(page)<<8 + i
	switch {
	case a < 0x4000:
		return w.rom[a]
	case a < 0x8000:
		return w.rom[w.bank*0x4000+a-0x4000]
	case a < 0xa000:
		return w.vram[a-0x8000]
	case a < 0xc000:
		if w.ramOn {
			return w.cram[a-0xa000]
		}
		return 0xff
	case a < 0xe000:
		return w.wram[a-0xc000]
	}
	return w.wram[a-0xe000] // E000-F19F: through the work RAM mirror
}

func (w *world) poke(page uint8, i int, v uint8) bool {
	a := int(page)<<8 + i
	switch {
	case a < 0x8000:
		return false
	case a < 0xa000:
		w.vram[a-0x8000] = v
	case a < 0xc000:
		if !w.ramOn {
			return false
		}
		w.cram[a-0xa000] = v
	case a < 0xe000:
		w.wram[a-0xc000] = v
	default:
		w.wram[a-0xe000] = v
	}
	w.m.Mem.Write(uint16(a), v)
	return true
}

func (w *world) tick() {
	w.m.PPU.EndMachineCycle()
	w.m.Mem.EndMachineCycle()
}

func pageClass(p uint8) string {
	switch {
	case p < 0x40:
		return "rom0"
	case p < 0x80:
		return "romN"
	case p < 0xa0:
		return "vram"
	case p < 0xc0:
		return "cartram"
	case p < 0xe0:
		return "wram"
	}
	return "echo"
}

// transfer runs one transfer (optionally restarted) and checks it. Returns false on violation.
func (w *world) transfer(r *rig.Rng, page uint8, restartAt int, page2 uint8, modify bool) bool {
	c := w.c
	m := w.m
	var expect [160]uint8
	var skip [160]bool
	for i := range expect {
		expect[i] = w.src(page, i)
	}
	m.Mem.Write(0xff46, page)
	cur := page
	sinceStart := 0
	done := false
	type mod struct {
		at, idx int
		v       uint8
	}
	var mods []mod
	if modify {
		for k := 0; k < 6; k++ {
			idx := r.Intn(160)
			at := r.Intn(175)
			// the exact copy cycle of byte idx (nominally idx+2 cycles after the write) is not
			// asserted: keep at least three cycles away from it
			if d := at - (idx + 2); d > -4 && d < 4 {
				continue
			}
			mods = append(mods, mod{at, idx, r.U8()})
		}
	}
	for cyc := 1; cyc <= 340; cyc++ {
		if cyc-1 == w.lcdToggleAt && (cur < 0x80 || cur >= 0xa0) {
			// the guest switches the LCD off (or on) in the middle of the transfer: the
			// transfer is no business of the LCD's
			m.Mem.Write(0xff40, m.Mem.Read(0xff40)^0x80)
			w.lcdToggleAt = -1
			c.Count("lcd_switched_during_transfer", 1)
		}
		if cyc-1 == w.bankSwitchAt && cur >= 0x40 && cur < 0x80 {
			// another ROM bank is selected while bytes of the banked area are being copied: each
			// byte comes from the bank mapped when it is copied (nominally i+2 cycles after the
			// start; bytes within three cycles of the switch are not judged)
			m.Mem.Write(0x2000, uint8(w.newBank))
			for i := range expect {
				d := (i + 2) - (sinceStart + 1)
				switch {
				case d > 3:
					expect[i] = w.rom[w.newBank*0x4000+int(cur)<<8+i-0x4000]
				case d >= -3:
					skip[i] = true
				}
			}
			w.bank = w.newBank
			w.bankSwitchAt = -1
			c.Count("bank_switches_during_transfer", 1)
		}
		if cyc-1 == restartAt && restartAt >= 0 {
			m.Mem.Write(0xff46, page2)
			cur = page2
			sinceStart = 0
			done = false
			for i := range expect {
				expect[i] = w.src(page2, i)
				skip[i] = false
			}
			mods = nil
			restartAt = -1
			c.Count("restarts", 1)
		}
		for _, md := range mods {
			if md.at == cyc-1 {
				if w.poke(cur, md.idx, md.v) {
					if md.at < md.idx+2 {
						expect[md.idx] = md.v // changed before it was copied
					}
					c.Count("source_bytes_modified_mid_transfer", 1)
				}
			}
		}
		w.tick()
		sinceStart++
		// read OAM and the unused area behind it
		a := 0xfe00 + uint16((cyc*37)&0xff)
		v1 := m.Mem.Read(a)
		v2 := m.Mem.Read(0xfe00 + uint16(cyc&0xff))
		c.Count("oam_reads_during_transfers", 2)
		blocked := v1 == 0xff && v2 == 0xff
		if !done {
			if !blocked {
				// first cycle in which OAM reads normally: the transfer has completed
				done = true
				c.Count(fmt.Sprintf("completed_after_%d_cycles", sinceStart), 1)
			} else if sinceStart > 162 {
				// still FF: only acceptable if the real contents are FF there
				snap := m.OAM.XSnapshot()
				run, _ := m.OAM.XDMA()
				if run {
					c.Violate("dma-not-complete-"+pageClass(cur), fmt.Sprintf("transfer from page %02X still running %d cycles after the FF46 write", cur, sinceStart), nil)
					return false
				}
				_ = snap
				done = true
			}
		}
		if done && sinceStart <= 162 && sinceStart < 160 {
			c.Violate("dma-oam-readable-early-"+pageClass(cur), fmt.Sprintf("page %02X: OAM read %02X/%02X only %d cycles after the FF46 write (a 160-byte copy cannot be complete)", cur, v1, v2, sinceStart), nil)
			return false
		}
		if done && sinceStart >= 163 {
			break
		}
	}
	// afterwards: OAM holds the source bytes, through the Mapper and in the array
	snap := m.OAM.XSnapshot()
	for i := 0; i < 160; i++ {
		g := m.Mem.Read(0xfe00 + uint16(i))
		if skip[i] {
			continue
		}
		if g != expect[i] || snap[i] != expect[i] {
			c.Violate("dma-contents-"+pageClass(cur), fmt.Sprintf("after the transfer from page %02X (%s): OAM[%02X] reads %02X (array %02X), source byte was %02X", cur, pageClass(cur), i, g, snap[i], expect[i]),
				map[string]any{"page": cur, "index": i})
			return false
		}
	}
	for a := 0xfea0; a < 0xff00; a++ {
		if g := m.Mem.Read(uint16(a)); g != 0 && m.Mem.Read(0xff40)&0x80 == 0 {
			c.Violate("unused-oam-after-dma", fmt.Sprintf("[%04X] reads %02X after the transfer", a, g), nil)
			return false
		}
	}
	if g := m.Mem.Read(0xff46); g != cur {
		c.Violate("dma-register-readback", fmt.Sprintf("FF46 reads %02X after writing %02X", g, cur), nil)
		return false
	}
	return true
}

func run(c *rig.Ctx) {
	c.Require("transfers", "restarts", "source_bytes_modified_mid_transfer", "oam_reads_during_transfers", "pages_echo", "pages_cartram_disabled", "transfers_lcd_on", "lcd_switched_during_transfer", "bank_switches_during_transfer", "worlds_with_clock_cartridge")
	// (1) every source page 00-F1
	c.Part("pages", 0xf2*2, func(i int64, r *rig.Rng) {
		page := uint8(i / 2)
		lcdOn := i%2 == 1
		w := newWorld(c, r, lcdOn)
		if r.Chance(1, 3) {
			w.lcdToggleAt = r.Intn(165)
		}
		if page >= 0x40 && page < 0x80 && i%4 < 2 {
			w.bankSwitchAt = 4 + r.Intn(150)
			w.newBank = 1 + (w.bank+r.Intn(2))%3
		}
		if !w.transfer(r, page, -1, 0, i%4 >= 2) {
			return
		}
		c.Exact(1)
		c.Count("transfers", 1)
		if page >= 0xe0 {
			c.Count("pages_echo", 1)
		}
		if page >= 0xa0 && page < 0xc0 && !w.ramOn {
			c.Count("pages_cartram_disabled", 1)
		}
		if lcdOn {
			c.Count("transfers_lcd_on", 1)
		}
		if i%61 == 0 {
			c.Sample(map[string]any{"class": "page", "page": fmt.Sprintf("%02X", page), "source": pageClass(page), "lcd_on": lcdOn})
		}
	})
	c.MarkExhaustive("every source page 00-F1, LCD off and on")

	// (2) restarts at every cycle 0..170 of a running transfer
	reps := c.N(4, 24)
	c.Part("restarts", 171*reps, func(i int64, r *rig.Rng) {
		at := int(i % 171)
		w := newWorld(c, r, r.Chance(1, 4))
		p1, p2 := uint8(r.Intn(0xf2)), uint8(r.Intn(0xf2))
		switch (i / 171) % 4 {
		case 1:
			p2 = 0x00 // the extreme page numbers as restart targets
		case 2:
			p2 = 0xf1
		case 3:
			p1 = 0x00
		}
		if r.Chance(1, 3) {
			w.lcdToggleAt = r.Intn(330)
		}
		if !w.transfer(r, p1, at, p2, false) {
			return
		}
		// and a plain transfer afterwards from the same machine
		if !w.transfer(r, uint8(r.Intn(0xf2)), -1, 0, true) {
			return
		}
		c.Case(rig.Hash(uint64(at), uint64(p1), uint64(p2), uint64(i)))
		c.Count("transfers", 2)
	})

	polling(c)
	armed(c)
	stores(c)
	longAfter(c)

	// (3) the OAM DMA ROMs (CPU-driven transfers from HRAM, as programs do it)
	romrun.FollowROMs(c, "roms", romrun.Select("oam_dma"), romrun.FollowOpts{Verdict: true})
}

func main() {
	rig.Main(rig.Spec{
		ID:  "C16",
		Run: run,
		Rule: "page cases: every source page 00-F1 x LCD off/on (random source contents, half of them with source bytes modified mid-transfer), enumerated completely; restart cases: a running transfer restarted from another page at every cycle 0..170; " +
			"FE00-FEFF is read after every machine cycle and OAM compared with the source afterwards",
		Assumptions: []string{"source contents are what the harness wrote (ROM image bytes of the selected bank, VRAM, enabled/disabled cartridge RAM, work RAM also through E000-F19F)",
			"the exact copy cycle of byte i is not asserted: sources are modified at least three cycles before or after the nominal copy time", "pages F2-FF are outside the statement (crash-tested by C11)"},
	})
}
