package main

// CPU-driven transfers with the LCD on: the guest starts a transfer at an arbitrary point of a
// scanline and keeps reading FE00-FEFF (which must read FF) with real instructions while it
// runs, across mode 2 of the following lines. Afterwards OAM must hold the source bytes: the
// reads are blocked, so they must not do anything to OAM either.

import (
	"fmt"

	"verif/internal/rig"
)

func polling(c *rig.Ctx) {
	c.Require("polling_transfers", "polling_reads_in_mode2")
	c.Part("polling", c.N(228, 2280), func(i int64, r *rig.Rng) {
		rom := rig.BlankROM(0, 0, 0)
		copy(rom[0x3000:], r.Bytes(0x1000)) // source pages 30-3F
		pc := 0x150
		emit := func(b ...byte) { copy(rom[pc:], b); pc += len(b) }
		rig.Put(rom, 0x100, 0x00, 0xc3, 0x50, 0x01)
		emit(0xf3, 0x31, 0xf0, 0xdf)
		emit(0x11, uint8(r.Intn(0x100)), 0xfe) // LD DE,FExx
		emit(0x21, uint8(r.Intn(0x100)), 0xfe) // LD HL,FExx
		emit(0x01, uint8(r.Intn(0x100)), 0xfe) // LD BC,FExx
		for k := int(i % 114); k > 0; k-- {
			emit(0x00) // phase of the start within the scanline
		}
		page := uint8(0xc0 + r.Intn(0x20))
		if r.Chance(1, 3) {
			page = uint8(0x30 + r.Intn(0x10))
		}
		emit(0x3e, page, 0xe0, 0x46)
		start := pc
		cyc := 0
		// in one run out of four the guest executes STOP early in the transfer (a key press
		// ends it much later): the transfer completes in its 162 cycles all the same
		stopAt := -1
		if i%4 == 3 {
			stopAt = r.Intn(120)
		}
		for cyc < 158 {
			if stopAt >= 0 && cyc >= stopAt {
				emit(0x10, 0x00)
				stopAt = -1
				cyc += 2
				continue
			}
			switch r.Intn(6) {
			case 0:
				emit(0x1a) // LD A,(DE)
				cyc += 2
			case 1:
				emit(0x7e) // LD A,(HL)
				cyc += 2
			case 2:
				emit(0x0a) // LD A,(BC)
				cyc += 2
			case 3:
				emit(0xfa, uint8(r.Intn(0x100)), 0xfe) // LD A,(FExx)
				cyc += 4
			case 4:
				emit(0x46) // LD B,(HL)
				cyc += 2
			case 5:
				emit(0x00)
				cyc++
			}
		}
		_ = start
		end := pc
		emit(0x18, 0xfe)
		m := rig.MustNew(rom, rig.Opts{})
		var src [160]uint8
		for k := range src {
			src[k] = r.U8()
			if page >= 0xc0 {
				m.Mem.Write(uint16(page)<<8+uint16(k), src[k])
			} else {
				src[k] = rom[int(page)<<8+k]
			}
		}
		mode2 := 0
		stoppedFor := 0
		for k := 0; k < 4000; k++ {
			if int(m.CPU.XGetRegs().PC) == end && m.CPU.XAtBoundary() {
				break
			}
			if m.CPU.XStopped() {
				stoppedFor++
				if stoppedFor == 200 {
					// the transfer must be over although the CPU has been stopped all along
					snap := m.OAM.XSnapshot()
					for q := 0; q < 160; q++ {
						if snap[q] != src[q] {
							c.Violate("polling-dma-frozen-by-stop", fmt.Sprintf("transfer from page %02X, the guest executed STOP during it: 200 cycles later OAM[%02X] holds %02X, the source byte was %02X", page, q, snap[q], src[q]), nil)
							return
						}
					}
					c.Count("polling_transfers_across_stop", 1)
					c.Count("polling_transfers", 1)
					c.Case(rig.Hash(uint64(i), uint64(page), r.U64()))
					// (the rest of the program would poll OAM with no transfer running, which is
					// the OAM bug's business, not this property's)
					return
				}
			}
			pcNow := int(m.CPU.XGetRegs().PC)
			if pcNow > start && pcNow < end && m.Mem.Read(0xff41)&3 == 2 {
				mode2++
			}
			m.Step()
		}
		for k := 0; k < 20; k++ {
			m.Step()
		}
		snap := m.OAM.XSnapshot()
		for k := 0; k < 160; k++ {
			if snap[k] != src[k] {
				c.Violate("polling-dma-contents", fmt.Sprintf("transfer from page %02X started %d cycles into the program's line phase, OAM polled by the CPU meanwhile (LCD on): OAM[%02X] holds %02X, the source byte was %02X", page, i%114, k, snap[k], src[k]), nil)
				return
			}
		}
		c.Count("polling_transfers", 1)
		c.Count("polling_reads_in_mode2", int64(mode2))
		c.Case(rig.Hash(uint64(i), uint64(page), r.U64()))
	})
}

// armed: right after starting a transfer (LCD on, every phase of the scanline) the guest executes
// one 16-bit increment or decrement of a register pair that points into FE00-FEFF - the
// instruction kind that can set off the OAM bug when it falls into mode 2 - and then leaves
// OAM alone. At that point the transfer has copied at most the first few bytes, and whatever
// the bug does, it does at once and to rows that the transfer has yet to copy: when the
// transfer is over, OAM must hold the source bytes.
func armed(c *rig.Ctx) {
	c.Require("armed_transfers", "armed_in_mode2")
	ops := []uint8{0x03, 0x13, 0x23, 0x33, 0x0b, 0x1b, 0x2b, 0x3b}
	c.Part("armed", 114*int64(len(ops)), func(i int64, r *rig.Rng) {
		rom := rig.BlankROM(0, 0, 0)
		copy(rom[0x3000:], r.Bytes(0x1000))
		pc := 0x150
		emit := func(b ...byte) { copy(rom[pc:], b); pc += len(b) }
		rig.Put(rom, 0x100, 0x00, 0xc3, 0x50, 0x01)
		emit(0xf3, 0x31, uint8(r.Intn(0x100)), 0xfe)
		emit(0x11, uint8(r.Intn(0x100)), 0xfe)
		emit(0x21, uint8(r.Intn(0x100)), 0xfe)
		emit(0x01, uint8(r.Intn(0x100)), 0xfe)
		for k := int(i % 114); k > 0; k-- {
			emit(0x00)
		}
		page := uint8(0xc0 + r.Intn(0x20))
		if r.Chance(1, 3) {
			page = uint8(0x30 + r.Intn(0x10))
		}
		emit(0x3e, page, 0xe0, 0x46)
		for k := r.Intn(3); k > 0; k-- {
			emit(0x00)
		}
		op := ops[i/114]
		at := pc
		emit(op)
		for k := 0; k < 175; k++ {
			emit(0x00)
		}
		end := pc
		emit(0x18, 0xfe)
		m := rig.MustNew(rom, rig.Opts{})
		var src [160]uint8
		for k := range src {
			src[k] = r.U8()
			if page >= 0xc0 {
				m.Mem.Write(uint16(page)<<8+uint16(k), src[k])
			} else {
				src[k] = rom[int(page)<<8+k]
			}
		}
		for k := 0; k < 4000; k++ {
			pcNow := int(m.CPU.XGetRegs().PC)
			if pcNow == end && m.CPU.XAtBoundary() {
				break
			}
			if pcNow == at && m.CPU.XAtBoundary() && m.Mem.Read(0xff41)&3 == 2 {
				c.Count("armed_in_mode2", 1)
			}
			m.Step()
		}
		snap := m.OAM.XSnapshot()
		for k := 0; k < 160; k++ {
			if snap[k] != src[k] {
				c.Violate("armed-dma-contents", fmt.Sprintf("transfer from page %02X started %d cycles into the program's line phase (LCD on), opcode %02X (16-bit INC/DEC of a pointer into FE00-FEFF) executed right after the start and OAM left alone from then on: after the transfer OAM[%02X] holds %02X, the source byte was %02X", page, i%114, op, k, snap[k], src[k]), nil)
				return
			}
		}
		c.Count("armed_transfers", 1)
		c.Exact(1)
	})
}


// stores: while a transfer runs (LCD off, so the OAM bug is out of the question) the CPU stores a
// byte somewhere in FE00-FEFF, at every cycle of the transfer. Whatever such a store does to the
// byte it addresses, every other byte of OAM must end up as the source byte that was copied.
func stores(c *rig.Ctx) {
	c.Require("transfers_with_a_cpu_store")
	c.Part("stores", 168, func(i int64, r *rig.Rng) {
		at := int(i) // the store follows this many cycles after the FF46 store
		for rep := 0; rep < 6; rep++ {
			m := rig.MustNew(rig.BlankROM(0, 0, 0), rig.Opts{})
			for k := 0; k < 4; k++ {
				m.Step()
			}
			m.Mem.Write(0xff40, 0x11)
			page := uint8(0xc0 + r.Intn(0x20))
			var src [160]uint8
			for k := range src {
				src[k] = r.U8()
				m.Mem.Write(uint16(page)<<8+uint16(k), src[k])
			}
			for k := 0; k < 160; k++ {
				m.OAM.XPoke(k, r.U8())
			}
			m.Mem.Write(0xff46, page)
			x := r.Intn(0x100)
			if rep%2 == 0 {
				x = 0xa0 + r.Intn(0x60) // the unused area: no byte of OAM is addressed at all
			}
			v := r.Pick8([]uint8{0x00, 0xff, r.U8(), r.U8()})
			for t := 0; t < 175; t++ {
				if t == at {
					m.Mem.Write(0xfe00+uint16(x), v)
				}
				m.PPU.EndMachineCycle()
				m.Mem.EndMachineCycle()
			}
			snap := m.OAM.XSnapshot()
			for k := 0; k < 160; k++ {
				if snap[k] == src[k] || (k == x && snap[k] == v) {
					continue
				}
				c.Violate("store-during-dma-contents", fmt.Sprintf("LCD off, transfer from page %02X, CPU store of %02X to FE%02X %d cycles after the FF46 store: afterwards OAM[%02X] holds %02X, the source byte was %02X", page, v, x, at, k, snap[k], src[k]), nil)
				return
			}
			c.Count("transfers_with_a_cpu_store", 1)
		}
		c.Exact(1)
	})
}

// longAfter: a transfer is over after its 162 cycles, for good. The source page is rewritten
// once it has ended and the machine runs on for more than 2^16 (thorough: 2^17+) machine cycles:
// OAM must still hold the bytes as they were when copied, and FE00-FE9F must stay readable.
func longAfter(c *rig.Ctx) {
	c.Require("transfers_watched_long_after")
	c.Part("long-after", 8, func(i int64, r *rig.Rng) {
		m := rig.MustNew(rig.BlankROM(0, 0, 0), rig.Opts{})
		for k := 0; k < 4; k++ {
			m.Step()
		}
		if i%2 == 0 {
			m.Mem.Write(0xff40, 0x11)
		}
		page := uint8(0xc0 + r.Intn(0x20))
		var src [160]uint8
		for k := range src {
			src[k] = r.U8()
			m.Mem.Write(uint16(page)<<8+uint16(k), src[k])
		}
		m.Mem.Write(0xff46, page)
		tick := func(n int) {
			for k := 0; k < n; k++ {
				m.PPU.EndMachineCycle()
				m.Mem.EndMachineCycle()
			}
		}
		tick(170)
		for k := range src {
			m.Mem.Write(uint16(page)<<8+uint16(k), ^src[k])
		}
		n := 1<<16 + 4000
		if c.Thorough() {
			n = 1<<17 + 4000
		}
		for done := 0; done < n; done += 997 {
			tick(997)
			snap := m.OAM.XSnapshot()
			for k := 0; k < 160; k++ {
				if snap[k] != src[k] {
					c.Violate("oam-changes-long-after-a-transfer", fmt.Sprintf("transfer from page %02X, source page rewritten after it had ended: %d cycles later OAM[%02X] holds %02X, copied was %02X (no transfer has been started since)", page, 170+done+997, k, snap[k], src[k]), nil)
					return
				}
			}
			if run, _ := m.OAM.XDMA(); run {
				c.Violate("transfer-running-long-after", fmt.Sprintf("a transfer is reported running %d cycles after the only FF46 store", 170+done+997), nil)
				return
			}
		}
		c.Count("transfers_watched_long_after", 1)
		c.Exact(1)
	})
}
