// C17 — OAM is only altered by CPU writes, DMA, or the mode-2 OAM bug.
//
// Events, per machine cycle: a side-effect-free OAM snapshot before and after, the writes the
// lock-step reference CPU predicts for the unit in flight, whether a DMA transfer is running,
// and LCD enable and STAT mode at the start of the cycle. Oracle: if OAM changed in a cycle,
// then (the CPU wrote FE00-FE9F and the change is exactly those bytes) or a DMA transfer is
// running or (the LCD is on and was in mode 2 when the cycle started). With the LCD off only
// the first two are ever allowed.
//
// Workload: generated programs that move BC/DE/HL/SP through FE00-FEFF with INC/DEC rr,
// PUSH/POP, LDI/LDD, loads and stores; run (i) with the LCD switched off at every cycle offset
// of lines 0, 1, 143 and 144 (so in every mode), (ii) with the LCD on throughout; plus the
// blargg oam_bug ROMs.
package main

import (
	"fmt"

	"verif/internal/lockstep"
	"verif/internal/prog"
	"verif/internal/rig"
	"verif/internal/romrun"
)

type watcher struct {
	c     *rig.Ctx
	m     *rig.Machine
	f     *lockstep.Follower
	what  func() any
	label string
	// statistics
	changes, cpuWrites, dmaChanges, bugChanges, offCycles, onMode2Cycles, pointerOps int64
	failed                                                                           bool
	// the byte the DMA unit fetched in the previous cycle and the place it will store it
	dmaIdx   int
	dmaVal   uint8
	dmaSet   bool
	dmaBytes int64
}

// cycle advances one machine cycle under observation.
func (w *watcher) cycle() bool {
	m := w.m
	before := m.OAM.XSnapshot()
	lcdc := m.Mem.Read(0xff40)
	mode := m.Mem.Read(0xff41) & 3
	lcdOn := lcdc&0x80 != 0
	dma0, _ := m.OAM.XDMA()
	if !w.f.Cycle() {
		return false
	}
	after := m.OAM.XSnapshot()
	dma1, c1 := m.OAM.XDMA()
	// the transfer stores in this cycle what it fetched in the previous one - unless FF46 was
	// written in this cycle (the transfer starts over)
	pend := w.dmaSet && dma0 && !(dma1 && c1 == 1)
	pendIdx, pendVal := w.dmaIdx, w.dmaVal
	w.dmaSet = false
	if dma1 && c1 >= 2 {
		base := uint16(m.Mem.Read(0xff46)) << 8
		if base >= 0xe000 {
			base -= 0x2000
		}
		w.dmaSet, w.dmaIdx, w.dmaVal = true, int(c1)-2, m.Mem.Read(base+c1-2)
	}
	if !lcdOn {
		w.offCycles++
	} else if mode == 2 {
		w.onMode2Cycles++
	}
	if before == after && !(pend && after[pendIdx] != pendVal && !(lcdOn && mode == 2)) {
		if pend {
			w.dmaBytes++
		}
		return true
	}
	w.changes++
	if lcdOn && mode == 2 {
		// the OAM bug: whatever it does to the bytes, it needs the CPU to touch (or point a
		// 16-bit register at) FE00-FEFF in this very cycle's unit
		if w.f.UnitNearOAM() || w.f.UnitPartial() {
			w.bugChanges++
			return true
		}
	}
	if lcdOn && mode == 2 && !(dma0 || dma1) {
		var diff []string
		for i := range after {
			if after[i] != before[i] && len(diff) < 8 {
				diff = append(diff, fmt.Sprintf("[FE%02X] %02X->%02X", i, before[i], after[i]))
			}
		}
		regs := lockstep.Regs(m)
		w.c.Violate("oam-changed-in-mode2-without-cpu-trigger", fmt.Sprintf("%s: OAM changed (%v) in a mode 2 cycle, no transfer running, while nothing the CPU is doing has to do with FE00-FEFF (PC=%04X SP=%04X BC=%04X DE=%04X HL=%04X, writes %v): neither a CPU write nor the OAM bug",
			w.label, diff, regs.PC, regs.SP, regs.BC(), regs.DE(), regs.HL(), w.f.UnitWrites()), w.what())
		w.failed = true
		return false
	}
	if dma0 || dma1 {
		// a transfer is running (and the OAM bug is out of the question): a byte may change
		// because the transfer stores the byte it fetched, or because the CPU writes it
		w.dmaChanges++
		bad, badWhy := -1, ""
		if pend && after[pendIdx] != pendVal {
			bad, badWhy = pendIdx, fmt.Sprintf("the transfer fetched %02X for it in the previous cycle", pendVal)
		}
		for i := range after {
			if bad >= 0 || after[i] == before[i] || (pend && i == pendIdx) {
				continue
			}
			ok := w.f.UnitPartial()
			for _, a := range w.f.UnitWrites() {
				if a.Addr >= 0xfe00 && a.Addr < 0xfea0 && int(a.Addr-0xfe00) == i && a.Val == after[i] {
					ok = true
				}
			}
			if !ok {
				bad, badWhy = i, "it is neither the byte the transfer stores in this cycle nor written by the CPU"
			}
		}
		if pend {
			w.dmaBytes++
		}
		if bad < 0 {
			return true
		}
		regs := lockstep.Regs(m)
		w.c.Violate("oam-changed-during-dma", fmt.Sprintf("%s: a transfer is running (progress counter %d after the cycle), LCD on=%v mode=%d: [FE%02X] %02X->%02X; %s; the CPU unit in flight writes %v (PC=%04X SP=%04X BC=%04X DE=%04X HL=%04X)",
			w.label, c1, lcdOn, mode, bad, before[bad], after[bad], badWhy, w.f.UnitWrites(), regs.PC, regs.SP, regs.BC(), regs.DE(), regs.HL()), w.what())
		w.failed = true
		return false
	}
	// the change must be exactly what the CPU wrote
	exp := before
	wrote := false
	for _, a := range w.f.UnitWrites() {
		if a.Addr >= 0xfe00 && a.Addr < 0xfea0 {
			exp[a.Addr-0xfe00] = a.Val
			wrote = true
		}
	}
	if w.f.UnitPartial() {
		// the instruction's operands came from volatile memory: only "did it write to OAM at
		// all" can be judged
		if wrote {
			w.cpuWrites++
			return true
		}
	}
	if exp == after {
		w.cpuWrites++
		return true
	}
	// a multi-write unit may have completed only part of its writes in this cycle: accept any
	// state in which every changed byte is one of the predicted writes with its value
	ok := wrote
	for i := range after {
		if after[i] != before[i] && after[i] != exp[i] {
			ok = false
		}
	}
	if ok {
		w.cpuWrites++
		return true
	}
	var diff []string
	for i := range after {
		if after[i] != before[i] && len(diff) < 8 {
			diff = append(diff, fmt.Sprintf("[FE%02X] %02X->%02X", i, before[i], after[i]))
		}
	}
	state := "lcd-off"
	if lcdOn {
		state = fmt.Sprintf("lcd-on-mode%d", mode)
	}
	regs := lockstep.Regs(m)
	w.c.Violate("oam-changed-"+state, fmt.Sprintf("%s: OAM changed (%v) in a machine cycle with LCD on=%v mode=%d, no DMA, and the CPU unit in flight writes %v (PC=%04X SP=%04X BC=%04X DE=%04X HL=%04X)",
		w.label, diff, lcdOn, mode, w.f.UnitWrites(), regs.PC, regs.SP, regs.BC(), regs.DE(), regs.HL()), w.what())
	w.failed = true
	return false
}

func run(c *rig.Ctx) {
	c.Require("cycles_lcd_off", "cycles_lcd_on_mode2", "oam_changes", "oam_changes_by_cpu_write", "oam_changes_by_dma", "oam_changes_in_mode2", "switch_off_points", "rom_runs")
	lines := []int{0, 1, 143, 144}
	reps := c.N(1, 12)
	flush := func(w *watcher) {
		c.Count("cycles_lcd_off", w.offCycles)
		c.Count("cycles_lcd_on_mode2", w.onMode2Cycles)
		c.Count("oam_changes", w.changes)
		c.Count("oam_changes_by_cpu_write", w.cpuWrites)
		c.Count("oam_changes_by_dma", w.dmaChanges)
		c.Count("dma_bytes_checked_against_the_fetch", w.dmaBytes)
		c.Count("oam_changes_in_mode2", w.bugChanges)
		c.Eval(w.offCycles + w.onMode2Cycles)
	}
	// (i) LCD switched off at every cycle offset of selected lines
	c.Part("switchoff", int64(len(lines))*114*reps, func(i int64, r *rig.Rng) {
		k := i / reps
		line, off := lines[k/114], int(k%114)
		p := prog.Generate(r, prog.Options{OAMFocus: true, AllOpcodes: i%3 == 0, Hardware: i%5 == 4, CartType: 0})
		m := rig.MustNew(p.ROM, rig.Opts{})
		f := lockstep.New(m)
		w := &watcher{c: c, m: m, f: f, label: fmt.Sprintf("LCD switched off %d cycles into line %d", off, line)}
		w.what = func() any { return map[string]any{"program": p.Describe(), "line": line, "offset": off} }
		// first line after power-on is 112 cycles; use the second frame half of the time
		target := 112 + (line-1)*114 + off
		if line == 0 {
			target = off
		}
		if i%2 == 1 {
			target = 17554 + line*114 + off
		}
		for t := 0; t < target; t++ {
			if !w.cycle() {
				flush(w)
				return
			}
		}
		m.Mem.Write(0xff40, m.Mem.Read(0xff40)&0x7f)
		c.Count("switch_off_points", 1)
		for t := 0; t < int(c.N(6000, 20000)); t++ {
			if !w.cycle() {
				break
			}
		}
		flush(w)
		c.Case(rig.Hash(uint64(line), uint64(off), p.Hash))
		if i%211 == 0 {
			c.Sample(map[string]any{"class": "switchoff", "line": line, "offset": off, "program": p.Describe()})
		}
	})
	c.MarkExhaustive("LCD switched off at every cycle offset 0..113 of lines 0, 1, 143 and 144")

	// (ii) LCD on throughout (and programs that toggle it themselves)
	np := c.N(200, 4000)
	c.Part("lcdon", np, func(i int64, r *rig.Rng) {
		p := prog.Generate(r, prog.Options{OAMFocus: true, AllOpcodes: i%2 == 0, Hardware: i%3 == 0, Interrupts: i%4 == 0, CartType: -1})
		popts := rig.Opts{}
		if i%5 == 3 {
			// with the CPU trace option on (a trace must not touch the bus)
			popts.DebugCPU = true
			defer rig.QuietStdout()()
			c.Count("lcdon_programs_with_cpu_trace", 1)
		}
		m := rig.MustNew(p.ROM, popts)
		// the STAT interrupt sources selected must play no part: any combination is set up
		// front in two programs out of three (IE stays as the program leaves it)
		if i%3 != 0 {
			for k := 0; k < 4; k++ {
				m.Step() // let the machine settle before the harness touches it
			}
			m.Mem.Write(0xff41, r.U8()&0x78)
			c.Count("lcdon_programs_with_stat_sources", 1)
		}
		f := lockstep.New(m)
		w := &watcher{c: c, m: m, f: f, label: "generated program"}
		w.what = func() any { return map[string]any{"program": p.Describe()} }
		for t := 0; t < int(c.N(30000, 80000)); t++ {
			if !w.cycle() {
				break
			}
		}
		flush(w)
		c.DistinctOnly(p.Hash)
	})

	// (iii) the OAM bug ROMs: everything they do to OAM must be attributable
	roms := romrun.Select("oam_bug", "mem_oam", "oam_dma")
	romrun.FollowROMs(c, "roms", roms, romrun.FollowOpts{Verdict: true,
		WrapStep: func(r romrun.ROM, m *rig.Machine, f *lockstep.Follower) func() bool {
			w := &watcher{c: c, m: m, f: f, label: r.Rel}
			w.what = func() any { return map[string]any{"rom": r.Rel} }
			n := 0
			return func() bool {
				ok := w.cycle()
				n++
				if !ok || n%(1<<20) == 0 {
					flush(w)
					*w = watcher{c: c, m: m, f: f, label: r.Rel, what: w.what, failed: w.failed}
				}
				return ok && !w.failed
			}
		}})
}

func main() {
	rig.Main(rig.Spec{
		ID:  "C17",
		Run: run,
		Rule: "one case = one generated program (16-bit registers and SP aimed at FE00-FEFF: INC/DEC rr, PUSH/POP, LDI/LDD, loads, stores) run with the LCD switched off at a given (line, cycle offset), or with the LCD on; " +
			"evaluations count monitored machine cycles with the LCD off or in mode 2; every cycle in which OAM changes is attributed",
		Assumptions: []string{"OAM is observed through the side-effect-free snapshot hook", "CPU writes are those predicted by the lock-step reference for the unit in flight",
			"with the LCD on and in mode 2 a change is accepted as the OAM bug (whose exact corruption patterns are not part of the statement) only if the CPU unit in flight has a register pair, SP, PC or a predicted access at FE00-FEFF (or one step beside it); while a transfer runs every change must be the byte fetched in the previous cycle or a CPU write"},
	})
}
