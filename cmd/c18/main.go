// C18 — sound registers read back through their masks and obey APU power.
//
// Oracle: a reference register file. While powered on NR10-NR51 read back the last written
// value ORed with the DMG mask; NR52 reads 70 plus power and status bits (the status bits are
// taken from the machine here; C19 judges them); powering off makes every register read as its
// mask and while off only NR52 (and the length fields, which are not readable) accept writes;
// wave RAM read while channel 3 is off keeps what was written while channel 3 was off, across
// power cycles. Events: the whole FF10-FF3F block read through the Mapper after every operation
// of random histories {write any register any value, power toggle, wave RAM write, elapse
// 0-5000 machine cycles}.
package main

import (
	"fmt"

	"verif/internal/rig"
)

var masks = map[uint16]uint8{
	0xff10: 0x80, 0xff11: 0x3f, 0xff12: 0x00, 0xff13: 0xff, 0xff14: 0xbf,
	0xff16: 0x3f, 0xff17: 0x00, 0xff18: 0xff, 0xff19: 0xbf,
	0xff1a: 0x7f, 0xff1b: 0xff, 0xff1c: 0x9f, 0xff1d: 0xff, 0xff1e: 0xbf,
	0xff20: 0xff, 0xff21: 0x00, 0xff22: 0x00, 0xff23: 0xbf,
	0xff24: 0x00, 0xff25: 0x00,
}

type apuRef struct {
	on        bool
	val       map[uint16]uint8
	wave      [16]uint8
	waveKnown [16]bool
}

func (a *apuRef) write(addr uint16, v uint8, ch3On bool) {
	switch {
	case addr == 0xff26:
		on := v&0x80 != 0
		if !on {
			for k := range a.val {
				a.val[k] = 0
			}
		}
		a.on = on
	case addr >= 0xff30 && addr <= 0xff3f:
		if ch3On {
			// with channel 3 running the write lands wherever the channel is reading, or nowhere
			for i := range a.waveKnown {
				a.waveKnown[i] = false
			}
		} else {
			a.wave[addr-0xff30], a.waveKnown[addr-0xff30] = v, true
		}
	default:
		if _, ok := masks[addr]; ok && a.on {
			a.val[addr] = v
			if addr == 0xff1e && v&0x80 != 0 && ch3On {
				// re-triggering channel 3 while it runs can corrupt the first bytes of wave RAM
				for i := 0; i < 4; i++ {
					a.waveKnown[i] = false
				}
			}
		}
	}
}

func regName(a uint16) string {
	return fmt.Sprintf("%04X", a)
}

func run(c *rig.Ctx) {
	c.Require("histories", "ops", "block_reads", "power_offs", "power_ons", "writes_while_off", "wave_reads_compared", "wave_writes_ch3_off", "dma_starts_during_histories")
	nh := c.N(1600, 20000)
	c.Part("histories", nh, func(i int64, r *rig.Rng) {
		// every fourth history runs with sound output attached (the register file must not care
		// whether anybody is listening)
		m := rig.MustNew(rig.BlankROM(0, 0, 0), rig.Opts{AudioOut: i%4 == 3})
		if i%4 == 3 {
			c.Count("histories_with_audio_output", 1)
		}
		ref := &apuRef{on: true, val: map[uint16]uint8{}}
		known := map[uint16]bool{} // registers are judged once written or once the power was cycled
		var hist []string
		log := func(s string) {
			if len(hist) >= 12 {
				copy(hist, hist[1:])
				hist = hist[:11]
			}
			hist = append(hist, s)
		}
		ch3On := func() bool { return m.Mem.Read(0xff26)&0x04 != 0 }
		check := func() bool {
			c.Count("block_reads", 1)
			for a := uint16(0xff10); a <= 0xff3f; a++ {
				got := m.Mem.Read(a)
				switch {
				case a == 0xff26:
					want := uint8(0x70)
					if ref.on {
						want |= 0x80
					}
					if got&0xf0 != want {
						c.Violate("nr52-high-bits", fmt.Sprintf("after %v: NR52 reads %02X, expected high nibble %02X", hist, got, want), nil)
						return false
					}
					if !ref.on && got != 0x70 {
						c.Violate("nr52-status-while-off", fmt.Sprintf("after %v: NR52 reads %02X while powered off, expected 70", hist, got), nil)
						return false
					}
				case a >= 0xff30:
					if !ch3On() && ref.waveKnown[a-0xff30] {
						c.Count("wave_reads_compared", 1)
						if got != ref.wave[a-0xff30] {
							c.Violate("wave-ram", fmt.Sprintf("after %v: wave RAM [%04X] reads %02X with channel 3 off, expected %02X", hist, a, got, ref.wave[a-0xff30]), nil)
							return false
						}
					}
				default:
					mask, isReg := masks[a]
					if !isReg {
						if got != 0xff {
							c.Violate("unused-sound-address", fmt.Sprintf("[%04X] reads %02X, expected FF", a, got), nil)
							return false
						}
						continue
					}
					if !known[a] {
						continue
					}
					want := mask
					if ref.on {
						want |= ref.val[a]
					}
					if got != want {
						state := "on"
						if !ref.on {
							state = "off"
						}
						c.Violate("readback-"+regName(a)+"-power-"+state, fmt.Sprintf("after %v: [%04X] reads %02X, expected %02X (last written %02X, mask %02X, power %s)", hist, a, got, want, ref.val[a], mask, state),
							map[string]any{"history": fmt.Sprint(hist)})
						return false
					}
				}
			}
			return true
		}
		nops := 300
		for k := 0; k < nops; k++ {
			if k%16 == 15 {
				rig.SiblingRun(45) // a neighbour machine keeps storing to its own sound registers and wave RAM
			}
			switch r.Intn(10) {
			case 0: // power toggle / redundant power write
				v := r.U8()
				if r.Chance(2, 3) {
					if ref.on {
						v &= 0x7f
					} else {
						v |= 0x80
					}
				}
				if ref.on && v&0x80 == 0 {
					c.Count("power_offs", 1)
				}
				if !ref.on && v&0x80 != 0 {
					c.Count("power_ons", 1)
				}
				on3 := ch3On()
				m.Mem.Write(0xff26, v)
				ref.write(0xff26, v, on3)
				if v&0x80 == 0 {
					for a := range masks {
						known[a] = true
					}
				}
				log(fmt.Sprintf("NR52<-%02X", v))
			case 1: // wave RAM write
				a := 0xff30 + uint16(r.Intn(16))
				v := r.U8()
				on3 := ch3On()
				if !on3 {
					c.Count("wave_writes_ch3_off", 1)
				}
				m.Mem.Write(a, v)
				ref.write(a, v, on3)
				log(fmt.Sprintf("%04X<-%02X", a, v))
			case 2: // elapse
				n := r.PickInt([]int{0, 1, 7, 100, 2048, 5000})
				for t := 0; t < n; t++ {
					m.Audio.EndMachineCycle()
					m.Mem.EndMachineCycle()
					if i%4 == 3 {
						m.Drain()
					}
				}
				log(fmt.Sprintf("+%d", n))
				// an OAM DMA transfer now and then: the sound registers are not its business
				if r.Chance(1, 4) {
					m.Mem.Write(0xff46, uint8(0xc0+r.Intn(0x20)))
					log("DMA")
					c.Count("dma_starts_during_histories", 1)
				}
			default: // register write
				a := uint16(0xff10 + r.Intn(0x16))
				v := r.U8()
				if (a == 0xff12 || a == 0xff17 || a == 0xff21) && r.Chance(1, 2) {
					// envelope registers: the values whose stores real programs use for volume
					// tricks (period 0, direction flips) read back like any other
					v = r.Pick8([]uint8{0x08, 0xf8, 0x18, 0x88, 0x00, 0x80, 0x09, 0xf0, 0x07})
				}
				on3 := ch3On()
				m.Mem.Write(a, v)
				ref.write(a, v, on3)
				if _, ok := masks[a]; ok {
					if ref.on {
						known[a] = true
					} else {
						c.Count("writes_while_off", 1)
					}
				}
				log(fmt.Sprintf("%04X<-%02X", a, v))
			}
			c.Count("ops", 1)
			if !check() {
				return
			}
		}
		c.Count("histories", 1)
		c.Case(rig.Hash(uint64(i), r.U64()))
		if i < 2 {
			c.Sample(map[string]any{"class": "history", "last_ops": fmt.Sprint(hist)})
		}
	})
	waveStops(c)
	lengthWhileOff(c)
}

func main() {
	rig.Main(rig.Spec{
		ID:   "C18",
		Run:  run,
		Rule: "one case = a random 300-operation history {register write of any value, NR52 power write, wave RAM write, elapse up to 5000 cycles}; the whole FF10-FF3F block is read back and compared after every operation; distinct by seed-derived history",
		Assumptions: []string{"a register is judged once the history wrote it or cycled the power (power-on defaults are not part of the statement)",
			"NR52 status bits are taken from the machine (C19 judges them)", "wave RAM is compared only while channel 3 is off, for bytes written while channel 3 was off"},
	})
}
