package main

// Wave RAM after channel 3 has been playing: the channel is stopped (DAC off, length expiry or
// APU power-off) at every machine cycle of a full pass through the 32 samples, for short
// periods of both parities; from then on FF30-FF3F must be the sixteen plain bytes last
// written, readable and writable one by one, across further power cycles.

import (
	"fmt"

	"verif/internal/rig"
)

func waveStops(c *rig.Ctx) {
	c.Require("wave_stop_cases", "wave_stop_bytes_compared")
	freqs := []int{2047, 2046, 2045, 2044, 2043, 2041, 2040, 2037, 2033, 2032, 2017, 2016}
	c.Part("wave-stops", int64(len(freqs))*3, func(i int64, r *rig.Rng) {
		f := freqs[i/3]
		how := int(i % 3)
		span := 16*(2048-f) + 6
		for d := 0; d <= span; d++ {
			m := rig.MustNew(rig.BlankROM(0, 0, 0), rig.Opts{})
			w := m.Mem.Write
			w(0xff26, 0x80)
			var pat [16]uint8
			for k := range pat {
				pat[k] = r.U8()
				w(0xff30+uint16(k), pat[k])
			}
			for k := 0; k < r.Intn(40); k++ {
				m.Audio.EndMachineCycle()
			}
			w(0xff1a, 0x80)
			w(0xff1b, 0x00)
			w(0xff1c, 0x20)
			w(0xff1d, uint8(f))
			w(0xff1e, 0x80|uint8(f>>8)&7)
			for k := 0; k < d; k++ {
				m.Audio.EndMachineCycle()
			}
			switch how {
			case 0:
				w(0xff1a, 0x00)
			case 1:
				w(0xff26, 0x00)
				w(0xff26, 0x80)
			case 2:
				// length expiry: enable the length counter with one tick left
				w(0xff1b, 0xff)
				w(0xff1e, 0x40|uint8(f>>8)&7)
				for k := 0; k < 5000 && m.Mem.Read(0xff26)&0x04 != 0; k++ {
					m.Audio.EndMachineCycle()
				}
			}
			if m.Mem.Read(0xff26)&0x04 != 0 {
				c.Violate("wave-channel-still-on", fmt.Sprintf("f=%d, stopped (method %d) %d cycles after the trigger: NR52=%02X", f, how, d, m.Mem.Read(0xff26)), nil)
				return
			}
			check := func(when string) bool {
				for k := range pat {
					c.Count("wave_stop_bytes_compared", 1)
					if got := m.Mem.Read(0xff30 + uint16(k)); got != pat[k] {
						c.Violate("wave-ram-after-channel3-stopped", fmt.Sprintf("f=%d, channel 3 stopped (method %d: 0 DAC off, 1 power cycle, 2 length expiry) %d cycles after its trigger, %s: [FF3%X] reads %02X, holds %02X", f, how, d, when, k, got, pat[k]), nil)
						return false
					}
				}
				return true
			}
			rig.SiblingRun(50) // another machine in the process stores to its own wave RAM meanwhile
			if !check("first read") {
				return
			}
			// byte-wise writes land in their own bytes
			for n := 0; n < 6; n++ {
				k := r.Intn(16)
				pat[k] = r.U8()
				w(0xff30+uint16(k), pat[k])
			}
			if !check("after six single-byte writes") {
				return
			}
			w(0xff26, 0x00)
			for k := 0; k < r.Intn(300); k++ {
				m.Audio.EndMachineCycle()
			}
			if !check("with the APU powered off") {
				return
			}
			w(0xff26, 0x80)
			if !check("after powering on again") {
				return
			}
			// a fresh trigger of the stopped channel (nothing is playing: nothing may be
			// rewritten), stopped again at once
			w(0xff1a, 0x80)
			w(0xff1d, uint8(f))
			w(0xff1e, 0x80|uint8(f>>8)&7)
			w(0xff1a, 0x00)
			if !check("after a fresh trigger and DAC-off") {
				return
			}
			c.Count("wave_stop_cases", 1)
			c.Exact(1)
		}
	})
}

// lengthWhileOff: "while off, writes other than to NR52 and the length registers are ignored" -
// so a length register written while the sound hardware is off is *not* ignored. The length
// registers do not read back; what was stored shows in how long a note lasts: length data for
// 3 steps is stored while off, the hardware switched on, the channel started with its length
// counter enabled, and the status bit must drop after at most 3 length steps (4096 machine
// cycles each) - not after the 61 or 253 more that a lost store would give.
func lengthWhileOff(c *rig.Ctx) {
	c.Require("length_stores_while_off")
	c.Part("length-while-off", 4*6, func(i int64, r *rig.Rng) {
		ch := int(i % 4)
		m := rig.MustNew(rig.BlankROM(0, 0, 0), rig.Opts{})
		w := m.Mem.Write
		for k := 0; k < r.Intn(9000); k++ {
			m.Audio.EndMachineCycle()
		}
		w(0xff26, 0x00)
		for k := 0; k < r.Intn(9000); k++ {
			m.Audio.EndMachineCycle()
		}
		steps := 3
		lenReg := []uint16{0xff11, 0xff16, 0xff1b, 0xff20}[ch]
		if ch == 2 {
			w(lenReg, uint8(256-steps))
		} else {
			w(lenReg, uint8(64-steps)|uint8(r.Intn(4))<<6)
		}
		for k := 0; k < r.Intn(5000); k++ {
			m.Audio.EndMachineCycle()
		}
		w(0xff26, 0x80)
		switch ch {
		case 0:
			w(0xff12, 0xf0)
			w(0xff14, 0xc0)
		case 1:
			w(0xff17, 0xf0)
			w(0xff19, 0xc0)
		case 2:
			w(0xff1a, 0x80)
			w(0xff1e, 0xc0)
		case 3:
			w(0xff21, 0xf0)
			w(0xff23, 0xc0)
		}
		if m.Mem.Read(0xff26)&(1<<uint(ch)) == 0 {
			c.Violate("length-while-off-not-started", fmt.Sprintf("channel %d: NR52=%02X right after the trigger (length for %d steps stored while off)", ch+1, m.Mem.Read(0xff26), steps), nil)
			return
		}
		limit := steps*4096 + 16
		t := 0
		for ; t < limit && m.Mem.Read(0xff26)&(1<<uint(ch)) != 0; t++ {
			m.Audio.EndMachineCycle()
		}
		if t >= limit {
			c.Violate("length-store-while-off-lost", fmt.Sprintf("channel %d: length data for %d steps stored to %04X while the sound hardware was off, then power on and a trigger with the length counter enabled: the channel is still on after %d machine cycles (%d length steps)", ch+1, steps, lenReg, t, steps), nil)
			return
		}
		c.Count("length_stores_while_off", 1)
		c.Exact(1)
	})
}
