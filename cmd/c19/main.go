// C19 — channel status bits and length counters behave as on a DMG.
//
// Oracle: a reference length/status model (frame sequencer of eight 2048-machine-cycle steps,
// length clocked on even steps = 256 Hz; per channel a length counter reloaded 64/256 - t, a
// length-enable bit, DAC state and the status bit; status on iff triggered with the DAC on
// (channel 1: and the sweep calculation does not overflow), off on DAC-off write, power-off,
// sweep overflow or length expiry; the extra length clock when length is enabled, or the
// channel is triggered with length 0 -> max, while the next sequencer step does not clock
// length). NR52 is compared after every machine cycle.
//
// The phase of the 512 Hz sequencer relative to the start of a run is an implementation choice;
// each history calibrates it black-box: power-cycle the APU, trigger channel 2 with length 1
// and length enabled, count cycles until NR52 bit 1 drops. From then on the reference owns the
// clock.
package main

import (
	"fmt"

	"verif/internal/rig"
	"verif/internal/romrun"
)

type chn struct {
	length  int
	max     int
	le      bool
	dac     bool
	on      bool
	inexact bool // timing of this channel is not asserted until its next trigger
}

type apu struct {
	apuCounters
	power  bool
	ch     [4]chn
	step   int // next sequencer step to run (0-7)
	toStep int // machine cycles until it runs
	// channel 1 sweep (only what the status needs)
	nr10      uint8
	freq1     int
	sweepLive bool
	// freqStale: the sweep unit may have written a new frequency back since NR13/NR14 were
	// last written, so the reference no longer knows channel 1's frequency exactly
	staleLo, staleHi bool
	// trigUnknown: the last trigger's overflow calculation depended on a stale frequency
	trigUnknown bool
	// the sweep unit itself, modelled exactly from a trigger with a known frequency onwards
	sw struct {
		exact   bool // the fields below mirror the hardware state
		enabled bool
		timer   int
		shadow  int
	}
	negEver bool // some calculation was made in negate mode (NR10 negate-exit quirk)
}

// sweepCalc is the sweep unit's frequency calculation with its overflow check.
func (a *apu) sweepCalc() int {
	shift, neg := uint(a.nr10&7), a.nr10&8 != 0
	d := a.sw.shadow >> shift
	if neg {
		a.negEver = true
		return a.sw.shadow - d
	}
	n := a.sw.shadow + d
	if n > 2047 {
		if a.ch[0].on {
			a.overflowOffs++
		}
		a.ch[0].on = false
	}
	return n
}

// sweepClock is the 128 Hz sweep step.
func (a *apu) sweepClock() {
	if !a.sw.exact {
		if a.sweepLive {
			a.staleLo, a.staleHi = true, true
			if a.nr10&8 != 0 {
				a.negEver = true // a calculation in negate mode may have been made meanwhile
			}
		}
		return
	}
	if !a.sw.enabled {
		return
	}
	a.sw.timer--
	if a.sw.timer > 0 {
		return
	}
	per, shift := int(a.nr10>>4)&7, int(a.nr10&7)
	a.sw.timer = per
	if per == 0 {
		a.sw.timer = 8
		return
	}
	n := a.sweepCalc()
	if n < 2048 && shift > 0 {
		a.freq1, a.sw.shadow = n, n
		a.sweepCalc()
	}
}

type apuCounters struct{ overflowOffs int64 }

func newAPU() *apu {
	a := &apu{}
	for i := range a.ch {
		a.ch[i].max = 64
	}
	a.ch[2].max = 256
	return a
}

func (a *apu) nextStepSkipsLength() bool { return a.step%2 == 1 }

// tick advances one machine cycle.
func (a *apu) tick() {
	a.toStep--
	if a.toStep > 0 {
		return
	}
	a.toStep = 2048
	if a.step%2 == 0 {
		for i := range a.ch {
			c := &a.ch[i]
			if c.le && c.length > 0 {
				c.length--
				if c.length == 0 {
					c.on = false
				}
			}
		}
	}
	if a.step == 2 || a.step == 6 {
		a.sweepClock()
	}
	a.step = (a.step + 1) % 8
}

func (a *apu) write(addr uint16, v uint8) {
	if addr == 0xff26 {
		on := v&0x80 != 0
		if !on && a.power {
			for i := range a.ch {
				a.ch[i].le, a.ch[i].dac, a.ch[i].on, a.ch[i].inexact = false, false, false, false
			}
			// whether a sweep unit left enabled keeps running across a power cycle is not part of
			// the statement: if it was enabled its state is unknown until the next trigger
			if a.sw.enabled || !a.sw.exact {
				a.sw.exact, a.sweepLive = false, true
			}
			a.nr10, a.freq1, a.staleLo, a.staleHi = 0, 0, false, false
		}
		if on && !a.power {
			a.step = 0
		}
		a.power = on
		return
	}
	// length data is writable while powered off too
	switch addr {
	case 0xff11:
		a.ch[0].length = 64 - int(v&0x3f)
		return
	case 0xff16:
		a.ch[1].length = 64 - int(v&0x3f)
		return
	case 0xff1b:
		a.ch[2].length = 256 - int(v)
		return
	case 0xff20:
		a.ch[3].length = 64 - int(v&0x3f)
		return
	}
	if !a.power {
		return
	}
	dacWrite := func(i int, on bool) {
		a.ch[i].dac = on
		if !on {
			a.ch[i].on = false
		}
	}
	nrx4 := func(i int, v uint8) {
		c := &a.ch[i]
		trigger, le := v&0x80 != 0, v&0x40 != 0
		if !c.le && le && c.length > 0 && a.nextStepSkipsLength() {
			c.length--
			if c.length == 0 && !trigger {
				c.on = false
			}
		}
		if trigger {
			c.inexact = false
			if c.length == 0 {
				c.length = c.max
				if le && a.nextStepSkipsLength() {
					c.length--
				}
			} else if c.length == c.max && le && c.le && a.nextStepSkipsLength() {
				// re-trigger with the counter exactly at its maximum and length already
				// enabled: the references disagree on whether the extra clock applies
				c.inexact = true
			}
			c.on = c.dac
			if i == 0 {
				per, shift, neg := int(a.nr10>>4)&7, int(a.nr10&7), a.nr10&8 != 0
				a.sweepLive = per != 0 || shift != 0
				if a.staleLo || a.staleHi {
					a.sw.exact = false
					if shift > 0 && !neg {
						a.trigUnknown = c.on
					}
					if shift > 0 && neg {
						a.negEver = true // the trigger's own calculation, made in negate mode
					}
				} else {
					a.sw.exact, a.sw.enabled, a.sw.shadow, a.sw.timer = true, a.sweepLive, a.freq1, per
					if per == 0 {
						a.sw.timer = 8
					}
					if shift > 0 {
						a.sweepCalc()
					}
				}
			}
		}
		c.le = le
	}
	switch addr {
	case 0xff10:
		a.nr10 = v
		if int(v>>4)&7 != 0 || v&7 != 0 {
			a.sweepLive = true
		}
		// leaving negate mode after a negate calculation can switch the channel off
		if v&8 == 0 && a.negEver {
			a.ch[0].inexact = true
		}
		if !a.sw.exact {
			a.ch[0].inexact = a.ch[0].inexact || a.sweepLive
		}
	case 0xff12:
		dacWrite(0, v&0xf8 != 0)
	case 0xff17:
		dacWrite(1, v&0xf8 != 0)
	case 0xff1a:
		dacWrite(2, v&0x80 != 0)
	case 0xff21:
		dacWrite(3, v&0xf8 != 0)
	case 0xff13:
		a.freq1 = a.freq1&0x700 | int(v)
		a.staleLo = false
	case 0xff14:
		a.freq1 = a.freq1&0xff | int(v&7)<<8
		a.staleHi = false
		nrx4(0, v)
	case 0xff19:
		nrx4(1, v)
	case 0xff1e:
		nrx4(2, v)
	case 0xff23:
		nrx4(3, v)
	}
}

func (a *apu) status() uint8 {
	var s uint8
	for i := range a.ch {
		if a.ch[i].on {
			s |= 1 << uint(i)
		}
	}
	return s
}

type world struct {
	c    *rig.Ctx
	m    *rig.Machine
	ref  *apu
	t    int64
	hist []string
	cmp  int64
}

func (w *world) log(s string) {
	if len(w.hist) >= 14 {
		copy(w.hist, w.hist[1:])
		w.hist = w.hist[:13]
	}
	w.hist = append(w.hist, fmt.Sprintf("t=%d %s", w.t, s))
}

func (w *world) write(addr uint16, v uint8) bool {
	w.m.Mem.Write(addr, v)
	w.ref.write(addr, v)
	w.log(fmt.Sprintf("%04X<-%02X", addr, v))
	return w.compare("right after the write")
}

// compare checks NR52 against the reference; channels whose timing is not asserted are
// checked in the safety form (may be off, may be on only if the reference has them on or
// could have) and adopted.
func (w *world) compare(when string) bool {
	got := w.m.Mem.Read(0xff26)
	want := w.ref.status()
	w.cmp++
	if (got&0x80 != 0) != w.ref.power || got&0x70 != 0x70 {
		w.c.Violate("nr52-power-bits", fmt.Sprintf("%s: NR52=%02X, reference power=%v; recent %v", when, got, w.ref.power, w.hist), nil)
		return false
	}
	for i := 0; i < 4; i++ {
		g, x := got&(1<<uint(i)) != 0, want&(1<<uint(i)) != 0
		c := &w.ref.ch[i]
		if i == 0 && w.ref.trigUnknown {
			// triggered with a non-negating sweep shift while the frequency had been
			// rewritten by the sweep unit: either outcome of the overflow test is accepted
			w.ref.trigUnknown = false
			w.c.Count("ch1_trigger_overflow_outcome_unknown", 1)
			c.on = g
			continue
		}
		if g == x {
			continue
		}
		live := c.inexact || (i == 0 && w.ref.sweepLive && !w.ref.sw.exact)
		if live && x && !g {
			// safety form: the channel went off earlier than the simple model says
			c.on = false
			w.c.Count("adopted_off_in_safety_form", 1)
			continue
		}
		kind := "on-without-cause"
		if !g {
			kind = "off-without-cause"
		}
		w.c.Violate(fmt.Sprintf("ch%d-%s", i+1, kind), fmt.Sprintf("%s: NR52=%02X, reference status %X (channel %d: reference on=%v length=%d enabled=%v dac=%v; next step %d in %d cycles); recent %v",
			when, got, want, i+1, x, c.length, c.le, c.dac, w.ref.step, w.ref.toStep, w.hist), map[string]any{"history": fmt.Sprint(w.hist)})
		return false
	}
	return true
}

func (w *world) tick() bool {
	w.m.Audio.EndMachineCycle()
	w.ref.tick()
	w.t++
	return w.compare("after a machine cycle")
}

func (w *world) run(n int) bool {
	for k := 0; k < n; k++ {
		if !w.tick() {
			return false
		}
	}
	return true
}

// calibrate finds the sequencer phase at the public interface only.
func newWorld(c *rig.Ctx, pre int) *world {
	m := rig.MustNew(rig.BlankROM(0, 0, 0), rig.Opts{})
	for k := 0; k < pre; k++ {
		m.Audio.EndMachineCycle()
	}
	w := &world{c: c, m: m, ref: newAPU()}
	m.Mem.Write(0xff26, 0x00)
	m.Mem.Write(0xff26, 0x80)
	m.Mem.Write(0xff17, 0xf0)
	m.Mem.Write(0xff16, 0x3f)
	m.Mem.Write(0xff19, 0xc0)
	if m.Mem.Read(0xff26)&0x02 == 0 {
		c.Violate("calibration-trigger-did-not-start-channel2", fmt.Sprintf("NR52=%02X right after triggering channel 2 with the DAC on", m.Mem.Read(0xff26)), nil)
		return nil
	}
	n := 0
	for m.Mem.Read(0xff26)&0x02 != 0 {
		m.Audio.EndMachineCycle()
		n++
		if n > 2048 {
			c.Violate("calibration-length-1-did-not-expire", "channel 2 with length 1 and length enabled stayed on for more than one 512 Hz period", nil)
			return nil
		}
	}
	c.Count("calibrations", 1)
	// a length-clocking step just ran: it was step 0 (the sequencer restarted at power-on)
	w.ref.power = true
	w.ref.step = 1
	w.ref.toStep = 2048
	w.ref.ch[1] = chn{length: 0, max: 64, le: true, dac: true, on: false}
	// settle: power-cycle again so that all channels start from the cleared state (the
	// boundary timing is kept, the step counter restarts)
	w.write(0xff26, 0x00)
	w.write(0xff26, 0x80)
	// the length counters keep whatever they held before: give all four a known value
	for ch := 0; ch < 4; ch++ {
		w.write(nrx1[ch], 0)
	}
	return w
}

var nrx1 = [4]uint16{0xff11, 0xff16, 0xff1b, 0xff20}
var nrx2 = [4]uint16{0xff12, 0xff17, 0xff1a, 0xff21}
var nrx4 = [4]uint16{0xff14, 0xff19, 0xff1e, 0xff23}

// dacOn returns an envelope/DAC register value with the DAC on. The status bit and the length
// counter have nothing to do with the envelope, so the values rotate through loud, quiet,
// fading-out (volume reaches 0 long before the length expires) and fading-in settings.
var envSeq int

func dacOn(ch int) uint8 {
	if ch == 2 {
		return 0x80
	}
	envSeq++
	return []uint8{0xf0, 0x11, 0x19, 0x87, 0x08, 0x21, 0xf7, 0x12}[envSeq%8]
}

func run(c *rig.Ctx) {
	c.Require("sweep_runs", "sweep_runs_ending_in_overflow", "sweep_runs_channel_stays_on", "calibrations", "comparisons", "length_expiries_exact", "extra_clock_cases", "random_ops", "second_wrap_runs", "rom_runs")
	// (1) structured: channel x length data x trigger/enable pattern x sequencer phase
	lens := [][]int{{0, 1, 2, 32, 62, 63}, {0, 1, 2, 32, 62, 63}, {0, 1, 128, 250, 254, 255}, {0, 1, 2, 32, 62, 63}}
	offsets := []int{0, 1, 2, 3, 5, 1000, 2044, 2045, 2046, 2047, 2048, 2049, 2050, 3000, 4093, 4094, 4095, 4096, 4097, 6000}
	patterns := 4
	total := int64(4 * 6 * patterns * len(offsets))
	c.Part("structured", total, func(i int64, r *rig.Rng) {
		x := int(i)
		off := offsets[x%len(offsets)]
		x /= len(offsets)
		pat := x % patterns
		x /= patterns
		li := x % 6
		ch := x / 6
		t := lens[ch][li]
		w := newWorld(c, r.Intn(5000))
		if w == nil {
			return
		}
		if ch == 2 && t < 128 && c.Quick() && off%3 != 0 {
			return // the long wave-channel cases are sampled in the quick tier
		}
		if !w.run(off) {
			return
		}
		ok := w.write(nrx2[ch], dacOn(ch)) && w.write(nrx1[ch], uint8(t))
		switch pat {
		case 0: // trigger with length enabled
			ok = ok && w.write(nrx4[ch], 0xc0)
		case 1: // trigger without length, enable it later
			ok = ok && w.write(nrx4[ch], 0x80) && w.run(1+r.Intn(5000)) && w.write(nrx4[ch], 0x40)
		case 2: // enable first (extra clock may apply), then trigger with length enabled
			ok = ok && w.write(nrx4[ch], 0x40) && w.run(r.Intn(3000)) && w.write(nrx4[ch], 0xc0)
		case 3: // trigger, let it expire, trigger again with length 0 -> max
			ok = ok && w.write(nrx4[ch], 0xc0)
		}
		if w.ref.nextStepSkipsLength() {
			c.Count("extra_clock_cases", 1)
		}
		if !ok {
			return
		}
		// run until the reference says the channel is off, plus a margin
		limit := (w.ref.ch[ch].length + 3) * 4096
		for k := 0; k < limit && w.ref.ch[ch].on; k++ {
			if !w.tick() {
				return
			}
		}
		c.Count("length_expiries_exact", 1)
		if pat == 3 {
			if !w.run(r.Intn(4096)) || !w.write(nrx4[ch], 0xc0) {
				return
			}
			limit = (w.ref.ch[ch].length + 3) * 4096
			if ch == 2 && c.Quick() {
				limit = 3 * 4096
			}
			for k := 0; k < limit && w.ref.ch[ch].on; k++ {
				if !w.tick() {
					return
				}
			}
		}
		if !w.run(5000) {
			return
		}
		c.Count("comparisons", w.cmp)
		c.Count("ch1_off_by_sweep_overflow_exact", w.ref.overflowOffs)
		c.Eval(w.cmp)
		c.DistinctOnly(rig.Hash(uint64(i)))
		if i%173 == 0 {
			c.Sample(map[string]any{"class": "structured", "channel": ch + 1, "length_data": t, "pattern": pat, "cycles_after_calibration": off, "comparisons": w.cmp})
		}
	})
	c.MarkExhaustive("channel x 6 length data values x 4 trigger/enable patterns x 20 sequencer phase offsets")

	// (1b) channel 1 sweep: every period x shift x direction x a set of frequencies, from a
	// trigger with a known frequency; the status bit is compared with the exact sweep model in
	// every machine cycle (the channel must go off at the overflowing calculation, not before
	// and not later), with NR13/NR14 rewritten in mid-sweep in half the runs
	freqs := []int{0x000, 0x001, 0x200, 0x3ff, 0x400, 0x401, 0x555, 0x6ff, 0x700, 0x7fe, 0x7ff}
	c.Part("sweep", 8*8*2*int64(len(freqs)), func(i int64, r *rig.Rng) {
		fi := int(i % int64(len(freqs)))
		k := int(i / int64(len(freqs)))
		per, shift, neg := k&7, (k>>3)&7, (k>>6)&1
		f := freqs[fi]
		w := newWorld(c, r.Intn(20000))
		if w == nil {
			return
		}
		ok := w.write(0xff12, 0xf0) && w.write(0xff11, 0x00) && w.write(0xff10, uint8(per<<4|neg<<3|shift)) &&
			w.write(0xff13, uint8(f)) && w.write(0xff14, 0x80|uint8(f>>8))
		if !ok {
			return
		}
		before := w.ref.overflowOffs
		rewriteAt := -1
		if i%2 == 1 {
			rewriteAt = 2048 + r.Intn(60000)
		}
		for cyc := 0; cyc < 150000; cyc++ {
			if cyc == rewriteAt {
				if !w.write(0xff13, r.U8()) || !w.write(0xff14, r.U8()&0x07) {
					return
				}
			}
			if !w.tick() {
				return
			}
		}
		if w.ref.overflowOffs > before {
			c.Count("sweep_runs_ending_in_overflow", 1)
		} else if w.ref.ch[0].on {
			c.Count("sweep_runs_channel_stays_on", 1)
		}
		c.Count("sweep_runs", 1)
		c.Count("comparisons", w.cmp)
		c.Eval(w.cmp)
		c.DistinctOnly(rig.Hash(uint64(i), 0x5eee))
		if i%331 == 0 {
			c.Sample(map[string]any{"class": "sweep", "period": per, "shift": shift, "negate": neg, "frequency": f, "rewrite_at": rewriteAt})
		}
	})

	// (2) random schedules
	nh := c.N(300, 6000)
	c.Part("random", nh, func(i int64, r *rig.Rng) {
		w := newWorld(c, r.Intn(100000))
		if w == nil {
			return
		}
		nops := 120
		for k := 0; k < nops; k++ {
			ch := r.Intn(4)
			ok := true
			switch r.Intn(12) {
			case 0, 1:
				ok = w.write(nrx1[ch], r.U8())
			case 2:
				v := r.U8()
				if r.Chance(2, 3) {
					v = dacOn(ch)
				} else if r.Chance(1, 2) {
					v &= 0x07
				}
				ok = w.write(nrx2[ch], v)
			case 3, 4, 5:
				ok = w.write(nrx4[ch], r.U8()&0xc7)
			case 6:
				if r.Chance(1, 4) {
					ok = w.write(0xff10, r.U8())
				} else {
					ok = w.write(0xff10, 0x00)
				}
			case 7:
				if r.Chance(1, 3) {
					ok = w.write(0xff26, 0x00) && w.run(r.Intn(3000)) && w.write(0xff26, 0x80)
				}
			case 8:
				ok = w.write(0xff13, r.U8())
			default:
				ok = w.run(r.PickInt([]int{1, 2, 100, 2047, 2048, 2049, 4096, 9000, 30000}))
			}
			c.Count("random_ops", 1)
			if !ok {
				return
			}
		}
		c.Count("comparisons", w.cmp)
		c.Count("ch1_off_by_sweep_overflow_exact", w.ref.overflowOffs)
		c.Eval(w.cmp)
		c.DistinctOnly(rig.Hash(uint64(i), r.U64()))
	})

	// (3) across the one-second boundary of emulated time (1 048 576 machine cycles), with the
	// APU powered on at arbitrary 512 Hz slots
	nw := c.N(32, 400)
	c.Part("wrap", nw, func(i int64, r *rig.Rng) {
		pre := 1048576 - 300000 + r.Intn(200000) + int(i)*2048
		w := newWorld(c, pre)
		if w == nil {
			return
		}
		ch := int(i) % 4
		if !(w.write(nrx2[ch], dacOn(ch)) && w.write(nrx1[ch], 0) && w.write(nrx4[ch], 0xc0)) {
			return
		}
		if !w.run(4096 * 70) {
			return
		}
		c.Count("second_wrap_runs", 1)
		c.Count("comparisons", w.cmp)
		c.Count("ch1_off_by_sweep_overflow_exact", w.ref.overflowOffs)
		c.Eval(w.cmp)
		c.DistinctOnly(rig.Hash(uint64(pre), uint64(ch)))
	})

	roms := romrun.Select("dmg_sound/rom_singles/01", "dmg_sound/rom_singles/02", "dmg_sound/rom_singles/03", "dmg_sound/rom_singles/04", "dmg_sound/rom_singles/05", "dmg_sound/rom_singles/06", "dmg_sound/rom_singles/07", "dmg_sound/rom_singles/08", "dmg_sound/rom_singles/11")
	romrun.FollowROMs(c, "roms", roms, romrun.FollowOpts{Verdict: true})
}

func main() {
	rig.Main(rig.Spec{
		ID:  "C19",
		Run: run,
		Rule: "structured cases: (channel, length data, trigger/enable pattern, cycles after the calibrated 512 Hz boundary) enumerated; random cases: 120-operation schedules of NRx1/NRx2/NRx4/NR10/NR13/NR30/NR52 writes and waits; " +
			"wrap cases: a full-length channel across the one-second boundary of emulated time; evaluations count per-cycle NR52 comparisons",
		Assumptions: []string{"the 512 Hz phase is calibrated per history at the register interface (power-cycle, channel 2 length 1, count cycles to the status drop)",
			"safety form only (may turn off early, never on without a trigger) for channel 1 while its sweep unit is live and after a re-trigger with the counter exactly at maximum and length already enabled",
			"status is compared after every machine cycle and right after every write"},
	})
}
