// C20 — the audio sample stream is paced, routed and bounded.
//
// Events: every value sent on the left/right channels passed to audio.New (capacity-2 channels
// drained after each machine cycle; at most one stereo sample per cycle is possible), with the
// machine cycle in which it appeared. Oracle: left and right counts are equal after every
// cycle; within one powered-on stretch consecutive samples are exactly 95 clocks apart (at
// machine-cycle resolution: there must be a clock position for the first sample of the stretch
// such that sample k falls in the machine cycle containing that position + 95 k); the first
// sample of a stretch arrives within 95 clocks of power-on; none while off; each value finite
// and in [0, 1); a side is 0 when no enabled channel is routed to it; paired runs that differ
// only in registers of a channel not routed to a side give bit-identical streams on that side.
// Wiring (under the race detector): through gameboy.New against the fake PortAudio the delivered
// sequence equals the produced sequence, exactly once and in order; with audio output disabled
// nothing is opened or delivered.
package main

import (
	"context"
	"fmt"
	"math"
	"os"
	"path/filepath"
	"sort"
	"sync"
	"time"

	"github.com/go-gl/glfw/v3.1/glfw"
	"github.com/gordonklaus/portaudio"
	"github.com/scottyw/tetromino/gameboy"

	"verif/internal/rig"
)

type sample struct {
	cycle int64
	l, r  float32
}

type op struct {
	at   int64 // machine cycle before which the write happens
	addr uint16
	v    uint8
}

func chanRegs(ch int) []uint16 {
	switch ch {
	case 0:
		return []uint16{0xff10, 0xff11, 0xff12, 0xff13, 0xff14}
	case 1:
		return []uint16{0xff16, 0xff17, 0xff18, 0xff19}
	case 2:
		return []uint16{0xff1a, 0xff1b, 0xff1c, 0xff1d, 0xff1e, 0xff30, 0xff31, 0xff37, 0xff3f}
	}
	return []uint16{0xff20, 0xff21, 0xff22, 0xff23}
}

// schedule builds a register schedule. If quiet >= 0, NR51 never routes channel quietCh to
// side quietSide (0 = right/low nibble, 1 = left/high nibble).
func schedule(r *rig.Rng, total int64, quietCh, quietSide int) []op {
	var ops []op
	t := int64(0)
	mask51 := uint8(0xff)
	if quietCh >= 0 {
		mask51 &^= 1 << uint(quietCh+4*quietSide)
	}
	add := func(a uint16, v uint8) { ops = append(ops, op{t, a, v}) }
	add(0xff26, 0x80)
	add(0xff24, 0x77)
	add(0xff25, 0xff&mask51)
	for t < total {
		t += int64(r.PickInt([]int{1, 3, 17, 200, 3000, 20000, 70000}))
		switch r.Intn(14) {
		case 0:
			add(0xff26, r.U8()&0x80|r.U8()&0x7f*uint8(r.Intn(2)))
		case 1:
			add(0xff25, r.U8()&mask51)
		case 2:
			add(0xff24, r.U8())
			if r.Chance(1, 2) {
				add(0xff04, r.U8()) // the guest resets DIV (no business of the sampler's)
			}
		case 3, 4, 5: // make a channel audible: DAC on, trigger
			ch := r.Intn(4)
			regs := chanRegs(ch)
			if ch == 2 {
				add(0xff1a, 0x80)
				add(0xff1c, uint8(r.Intn(4))<<5)
				add(0xff1d, r.U8())
				add(0xff1e, 0x80|r.U8()&0x47)
			} else {
				add(regs[len(regs)-3], 0xf0|r.U8()&0x0f)
				add(regs[len(regs)-2], r.U8())
				add(regs[len(regs)-1], 0x80|r.U8()&0x47)
			}
		default:
			ch := r.Intn(4)
			regs := chanRegs(ch)
			add(regs[r.Intn(len(regs))], r.U8())
		}
	}
	return ops
}

// play runs a schedule on a fresh machine and returns the samples.
func play(ops []op, total int64, perCycle func(m *rig.Machine, n int64, got []sample), pre ...func(m *rig.Machine, n int64)) []sample {
	m := rig.MustNew(rig.BlankROM(0, 0, 0), rig.Opts{AudioOut: true})
	var out []sample
	var cur int64
	var halves int
	m.OnSample = func(l, r float32) { out = append(out, sample{cur, l, r}) }
	m.OnHalf = func(bool) { halves++ }
	k := 0
	for n := int64(1); n <= total; n++ {
		for k < len(ops) && ops[k].at < n {
			m.Mem.Write(ops[k].addr, ops[k].v)
			k++
		}
		cur = n
		before := len(out)
		for _, f := range pre {
			f(m, n)
		}
		m.Audio.EndMachineCycle()
		m.Drain()
		if perCycle != nil {
			perCycle(m, n, out[before:])
		}
	}
	if halves != 0 {
		out = append(out, sample{-1, 0, 0})
	}
	return out
}

func run(c *rig.Ctx) {
	c.Require("pacing_runs", "samples", "stretches", "samples_side_silent_checked", "paired_runs", "nil_output_runs", "wiring_runs", "wiring_samples_delivered")

	// (1) pacing, bounds, routing
	np := c.N(48, 600)
	c.Part("pacing", np, func(i int64, r *rig.Rng) {
		total := c.N(3, 12) * 1048576
		ops := schedule(r, total, -1, 0)
		// reference view of the power state, from the schedule itself
		power := true // audio.New leaves the APU powered on
		var lastPowerOn int64
		// feasible clock positions of the first sample of the current stretch
		var lo, hi int64
		var k int64 = -1
		k0 := 0
		opi := 0
		var nsamp, nstretch, silentChecked int64
		bad := false
		var nr51, st0 uint8
		m2 := (*rig.Machine)(nil)
		samples := play(ops, total, func(m *rig.Machine, n int64, got []sample) {
			m2 = m
			if bad {
				return
			}
			for opi < len(ops) && ops[opi].at < n {
				if ops[opi].addr == 0xff26 {
					on := ops[opi].v&0x80 != 0
					if on && !power {
						lastPowerOn = n - 1
						k = -1
						nstretch++
					}
					power = on
				}
				opi++
			}
			_ = k0
			if len(got) > 1 {
				c.Violate("two-samples-in-one-cycle", fmt.Sprintf("run %d: %d samples in machine cycle %d", i, len(got), n), nil)
				bad = true
				return
			}
			st1 := m.Mem.Read(0xff26)
			if len(got) == 1 {
				s := got[0]
				nsamp++
				if !power {
					c.Violate("sample-while-off", fmt.Sprintf("run %d: a sample was emitted in cycle %d while sound is powered off", i, n), nil)
					bad = true
					return
				}
				for side, v := range []float32{s.r, s.l} {
					if math.IsNaN(float64(v)) || math.IsInf(float64(v), 0) || v < 0 || v >= 1 {
						c.Violate("sample-out-of-range", fmt.Sprintf("run %d cycle %d: sample value %v on side %d is not in [0,1)", i, n, v, side), nil)
						bad = true
						return
					}
					routed := nr51 >> uint(4*side) & 0x0f
					if routed&st0&0x0f == 0 && routed&st1&0x0f == 0 {
						silentChecked++
						if v != 0 {
							c.Violate("sample-nonzero-without-routed-channel", fmt.Sprintf("run %d cycle %d: side %d sample %v although NR51=%02X routes no enabled channel there (NR52 %02X/%02X)", i, n, side, v, nr51, st0, st1), nil)
							bad = true
							return
						}
					}
				}
				// pacing: sample k of the stretch must be in the cycle containing c0 + 95k
				k++
				clo, chi := 4*n-3-95*k, 4*n-95*k
				if k == 0 {
					lo, hi = clo, chi
					if n > lastPowerOn+24 && lastPowerOn > 0 {
						c.Violate("first-sample-late", fmt.Sprintf("run %d: first sample of a powered-on stretch in cycle %d, power-on after cycle %d (more than 95 clocks)", i, n, lastPowerOn), nil)
						bad = true
						return
					}
				} else {
					if clo > lo {
						lo = clo
					}
					if chi < hi {
						hi = chi
					}
					if lo > hi {
						c.Violate("sample-spacing", fmt.Sprintf("run %d: sample %d of the stretch arrived in machine cycle %d, inconsistent with one sample every 95 clocks since the stretch began (power-on after cycle %d)", i, k, n, lastPowerOn),
							map[string]any{"cycle": n, "index_in_stretch": k})
						bad = true
						return
					}
				}
			} else if power && k >= 0 {
				// no sample this cycle: the next one must still be possible later; if the feasible
				// window for sample k+1 has passed entirely, a sample is missing
				if 4*n > hi+95*(k+1) {
					c.Violate("sample-missing", fmt.Sprintf("run %d: no sample by machine cycle %d although sample %d of the stretch was due (95 clocks after the previous one)", i, n, k+1), nil)
					bad = true
					return
				}
			} else if power && k < 0 && lastPowerOn > 0 && n > lastPowerOn+24 {
				c.Violate("first-sample-late", fmt.Sprintf("run %d: no sample within 95 clocks of the power-on after cycle %d", i, lastPowerOn), nil)
				bad = true
				return
			}
		}, func(m *rig.Machine, n int64) {
			// registers as they are during this cycle (writes happen between cycles)
			nr51, st0 = m.Mem.Read(0xff25), m.Mem.Read(0xff26)
		})
		_ = m2
		if len(samples) > 0 && samples[len(samples)-1].cycle == -1 {
			c.Violate("left-right-count-mismatch", fmt.Sprintf("run %d: a machine cycle delivered a sample on one side only", i), nil)
		}
		c.Count("pacing_runs", 1)
		c.Count("samples", nsamp)
		c.Count("stretches", nstretch+1)
		c.Count("samples_side_silent_checked", silentChecked)
		c.Eval(nsamp)
		c.DistinctOnly(rig.Hash(uint64(i), r.U64()))
		if i < 2 {
			c.Sample(map[string]any{"class": "pacing", "emulated_seconds": total / 1048576, "register_writes": len(ops), "samples": nsamp, "stretches": nstretch + 1})
		}
	})

	// (2) a side never depends on a channel not routed to it
	npair := c.N(64, 1000)
	c.Part("paired", npair+npair/4, func(i int64, r *rig.Rng) {
		total := int64(400000)
		qc, qs := r.Intn(4), r.Intn(2)
		base := schedule(r, total, qc, qs)
		if i >= npair {
			// (the additional cases) everything as loud as it gets: all four channels at full volume on the other side
			// (the quiet channel among them), master volume 7 on both sides, the observed side
			// carrying the other three
			other, mine := uint8(0xf0), uint8(0x0f) // side 0 is the right one (low nibble of NR51)
			if qs == 1 {
				other, mine = 0x0f, 0xf0
			}
			nr51 := other | mine&^(0x11<<uint(qc))
			base = []op{{0, 0xff26, 0x80}, {1, 0xff24, 0x77}, {2, 0xff25, nr51}}
			for k := 0; k < 16; k++ {
				base = append(base, op{3 + int64(k), 0xff30 + uint16(k), 0xff})
			}
			base = append(base,
				op{20, 0xff11, 0xc0}, op{21, 0xff12, 0xf0}, op{22, 0xff13, r.U8()}, op{23, 0xff14, 0x80 | r.U8()&7},
				op{24, 0xff16, 0xc0}, op{25, 0xff17, 0xf0}, op{26, 0xff18, r.U8()}, op{27, 0xff19, 0x80 | r.U8()&7},
				op{28, 0xff1a, 0x80}, op{29, 0xff1c, 0x20}, op{30, 0xff1d, r.U8()}, op{31, 0xff1e, 0x80 | r.U8()&7},
				op{32, 0xff21, 0xf0}, op{33, 0xff22, r.U8() & 0x77}, op{34, 0xff23, 0x80})
			c.Count("paired_runs_at_full_volume", 1)
		}
		// variant: extra writes to the quiet channel's registers
		var extra []op
		regs := chanRegs(qc)
		// single random stores, and short gestures that drive the quiet channel through its
		// length counter, DAC and trigger logic (length about to expire, enabled with and
		// without a trigger, DAC off and on, re-triggers)
		n := len(regs)
		lenReg, envReg, ctlReg := regs[n-4], regs[n-3], regs[n-1]
		if qc == 2 {
			lenReg, envReg, ctlReg = 0xff1b, 0xff1a, 0xff1e
		}
		for t := int64(50); t < total; t += int64(1 + r.Intn(6000)) {
			switch r.Intn(8) {
			case 0:
				lv := r.Pick8([]uint8{0x3f, 0xff, 0x3e, 0xfe, 0x00})
				extra = append(extra, op{t, lenReg, lv}, op{t + 1, ctlReg, 0x00}, op{t + 2 + int64(r.Intn(3000)), ctlReg, 0x40})
			case 1:
				extra = append(extra, op{t, lenReg, r.Pick8([]uint8{0x3f, 0xff})}, op{t + int64(r.Intn(4)), ctlReg, r.Pick8([]uint8{0x40, 0xc0})})
			case 2:
				extra = append(extra, op{t, envReg, 0x00}, op{t + int64(r.Intn(5000)), envReg, r.Pick8([]uint8{0xf0, 0x80, 0x08})})
			case 3:
				extra = append(extra, op{t, envReg, r.Pick8([]uint8{0xf0, 0x80})}, op{t + 1, ctlReg, 0x80 | r.U8()&0x47})
			case 4:
				extra = append(extra, op{t, ctlReg, r.Pick8([]uint8{0x00, 0x40, 0x80, 0xc0})})
			default:
				extra = append(extra, op{t, regs[r.Intn(len(regs))], r.U8()})
			}
		}
		sort.SliceStable(extra, func(a, b int) bool { return extra[a].at < extra[b].at })
		merged := make([]op, 0, len(base)+len(extra))
		a, b := 0, 0
		for a < len(base) || b < len(extra) {
			if b >= len(extra) || (a < len(base) && base[a].at <= extra[b].at) {
				merged = append(merged, base[a])
				a++
			} else {
				merged = append(merged, extra[b])
				b++
			}
		}
		s1 := play(base, total, nil)
		s2 := play(merged, total, nil)
		if len(s1) != len(s2) {
			c.Violate("unrouted-channel-changes-sample-count", fmt.Sprintf("run %d: %d vs %d samples", i, len(s1), len(s2)), nil)
		} else {
			for k := range s1 {
				v1, v2 := s1[k].r, s2[k].r
				if qs == 1 {
					v1, v2 = s1[k].l, s2[k].l
				}
				if math.Float32bits(v1) != math.Float32bits(v2) || s1[k].cycle != s2[k].cycle {
					c.Violate(fmt.Sprintf("side-depends-on-unrouted-channel%d", qc+1), fmt.Sprintf("run %d: channel %d is never routed to side %d, yet writing its registers changes sample %d on that side: %v vs %v", i, qc+1, qs, k, v1, v2), nil)
					break
				}
			}
		}
		c.Count("paired_runs", 1)
		c.Eval(int64(len(s1)))
		c.DistinctOnly(rig.Hash(uint64(i), uint64(qc), uint64(qs), r.U64()))
	})

	waveWrites(c)
	veryLong(c)

	// (3) no outputs attached: the same schedules must run and deliver nothing
	c.Part("nil", c.N(8, 64), func(i int64, r *rig.Rng) {
		total := int64(300000)
		ops := schedule(r, total, -1, 0)
		m := rig.MustNew(rig.BlankROM(0, 0, 0), rig.Opts{})
		k := 0
		for n := int64(1); n <= total; n++ {
			for k < len(ops) && ops[k].at < n {
				m.Mem.Write(ops[k].addr, ops[k].v)
				k++
			}
			m.Audio.EndMachineCycle()
		}
		c.Count("nil_output_runs", 1)
		c.Case(rig.Hash(uint64(i), 77))
	})

	// (4) wiring through gameboy.New against the fake PortAudio (race-detector build)
	c.Part("wiring", c.N(6, 40), func(i int64, r *rig.Rng) {
		frames := 6 + r.Intn(6)
		rom := soundROM(r)
		dir := os.Getenv("VERIF_WORK")
		if dir == "" {
			dir = os.TempDir()
		}
		path := filepath.Join(dir, fmt.Sprintf("c20-%d-%d.gb", c.Shard, i))
		os.WriteFile(path, rom, 0o644)
		defer os.Remove(path)
		for _, disable := range []bool{false, true} {
			portaudio.XReset()
			glfw.XReset()
			var mu sync.Mutex
			var delivered []float32
			portaudio.Sink = func(n int64, buf []float32) {
				mu.Lock()
				delivered = append(delivered, buf...)
				mu.Unlock()
			}
			stall := r.Intn(3)
			portaudio.BeforeCallback = func(n int64) {
				// injected consumer stalls widen the producer/consumer interleavings
				if stall > 0 && n%int64(7+stall) == 0 {
					for k := 0; k < 2000*stall; k++ {
						_ = k
					}
				}
				// a consumer that is late for a while (the sample queue fills up) ...
				if n == 2 || n == 3 || n == 60 {
					time.Sleep(20 * time.Millisecond)
				}
				// ... or stops draining for a third of a second (a host hiccup: the emulator must
				// wait, not drop samples)
				if i%6 == 0 && n == 5 {
					time.Sleep(330 * time.Millisecond)
					c.Count("wiring_long_consumer_stalls", 1)
				}
			}
			glfw.OnPoll = func(w *glfw.Window, n int64) {
				// ... and an emulator goroutine that pauses (the queue drains)
				time.Sleep(12 * time.Millisecond)
				if int(n) >= frames {
					w.SetShouldClose(true)
				}
			}
			gb := gameboy.New(gameboy.Config{RomFilename: path, DisableAudioOutput: disable})
			gb.Run(context.Background())
			c.Count("wiring_runs", 1)
			if disable {
				if portaudio.OpenCalls != 0 || portaudio.StartCalls != 0 || len(delivered) != 0 {
					c.Violate("audio-disabled-but-stream-used", fmt.Sprintf("with audio output disabled: %d streams opened, %d floats delivered", portaudio.OpenCalls, len(delivered)), nil)
				}
				continue
			}
			// produced sequence: the same ROM on the component rig for the same number of cycles
			var produced []float32
			sm := rig.MustNew(rom, rig.Opts{AudioOut: true})
			sm.OnSample = func(l, r float32) { produced = append(produced, l, r) }
			for k := 0; k < frames*17556; k++ {
				sm.Step()
			}
			mu.Lock()
			d := delivered
			mu.Unlock()
			if len(d) < len(produced) {
				c.Violate("samples-lost", fmt.Sprintf("run %d: %d floats produced in %d frames, only %d delivered to the audio callback", i, len(produced), frames, len(d)), nil)
				continue
			}
			ok := true
			for k := range produced {
				if math.Float32bits(d[k]) != math.Float32bits(produced[k]) {
					c.Violate("samples-reordered-or-duplicated", fmt.Sprintf("run %d: delivered float %d is %v, produced %v", i, k, d[k], produced[k]), nil)
					ok = false
					break
				}
			}
			if ok {
				for k := len(produced); k < len(d); k++ {
					if d[k] != 0 {
						c.Violate("extra-samples-delivered", fmt.Sprintf("run %d: float %d delivered after the produced stream ended is %v", i, k, d[k]), nil)
						break
					}
				}
			}
			if portaudio.CloseCalls != 1 || portaudio.TermCalls != 1 {
				c.Violate("audio-outputs-not-released-once", fmt.Sprintf("stream Close called %d times, Terminate %d times", portaudio.CloseCalls, portaudio.TermCalls), nil)
			}
			c.Count("wiring_samples_delivered", int64(len(produced)/2))
			c.Eval(int64(len(produced) / 2))
		}
		c.DistinctOnly(rig.Hash(uint64(i), r.U64()))
	})
}

// soundROM builds a program that sets up audible channels and keeps rewriting registers.
func soundROM(r *rig.Rng) []byte {
	rom := rig.BlankROM(0, 0, 0)
	pc := 0x150
	emit := func(b ...byte) { copy(rom[pc:], b); pc += len(b) }
	io := func(reg, v uint8) { emit(0x3e, v, 0xe0, reg) }
	rig.Put(rom, 0x100, 0x00, 0xc3, 0x50, 0x01)
	io(0x26, 0x80)
	io(0x24, 0x77)
	io(0x25, 0xff)
	loop := pc
	for k := 0; k < 40; k++ {
		switch r.Intn(5) {
		case 0:
			io(0x12, 0xf0|r.U8()&0x0f)
			io(0x13, r.U8())
			io(0x14, 0x80|r.U8()&7)
		case 1:
			io(0x17, 0xf0)
			io(0x18, r.U8())
			io(0x19, 0x80|r.U8()&7)
		case 2:
			io(0x1a, 0x80)
			io(0x1c, 0x20)
			io(0x1e, 0x80|r.U8()&7)
		case 3:
			io(0x21, 0xf1)
			io(0x22, r.U8())
			io(0x23, 0x80)
		case 4:
			io(0x25, r.U8())
		}
		// burn some time: DEC B; JR NZ
		emit(0x06, uint8(1+r.Intn(255)), 0x05, 0x20, 0xfd)
	}
	if r.Chance(1, 3) {
		// the guest goes into STOP mode with notes playing (nobody presses a key): the sound
		// hardware keeps running and the samples keep coming at the same pace
		emit(0x10, 0x00)
	}
	emit(0xc3, uint8(loop), uint8(loop>>8))
	return rom
}

func main() {
	rig.Main(rig.Spec{
		ID:        "C20",
		Run:       run,
		RaceParts: []string{"wiring"},
		Rule: "pacing cases: random register schedules (power, triggers, NR50/NR51 routing, volumes, wave RAM) over several emulated seconds with every machine cycle's samples checked; paired cases: two runs differing only in writes to a channel never routed to one side; " +
			"wiring cases: a sound program through gameboy.New with audio on and off against the fake PortAudio under the race detector; evaluations count samples",
		Assumptions: []string{"the phase of the 95-clock grid across a power-off is not asserted, only spacing within a powered-on stretch and the first sample within 95 clocks",
			"a channel counts as enabled if its NR52 status bit is set before or after the cycle in which the sample was taken",
			"the fake PortAudio runs the real Speakers.Callback on its own goroutine and records every buffer"},
	})
}
