package main

// Stores into wave RAM while channel 3 plays at short periods (so that many of them fall into
// the channel's own fetch cycles), full volume, routed to both sides, with bytes whose nibbles
// are large: every sample must stay finite and in [0, 1). Likewise stores to the envelope and
// duty registers of playing square/noise channels.

import (
	"fmt"
	"math"

	"verif/internal/rig"
)

func waveWrites(c *rig.Ctx) {
	c.Require("wave_write_samples", "wave_ram_stores_while_playing")
	freqs := []int{2047, 2046, 2045, 2044, 2040, 2033, 2016, 1985, 1900, 1024}
	c.Part("wave-writes", int64(len(freqs))*4, func(i int64, r *rig.Rng) {
		f := freqs[i/4]
		m := rig.MustNew(rig.BlankROM(0, 0, 0), rig.Opts{AudioOut: true})
		var n int64
		bad := ""
		m.OnSample = func(l, rr float32) {
			n++
			for side, v := range []float32{l, rr} {
				if bad == "" && (math.IsNaN(float64(v)) || math.IsInf(float64(v), 0) || v < 0 || v >= 1) {
					bad = fmt.Sprintf("sample %d on side %d is %v", n, side, v)
				}
			}
		}
		w := m.Mem.Write
		w(0xff26, 0x80)
		w(0xff24, 0x77)
		w(0xff25, 0xff)
		for k := 0; k < 16; k++ {
			w(0xff30+uint16(k), 0xff)
		}
		w(0xff1a, 0x80)
		w(0xff1c, 0x20)
		w(0xff1d, uint8(f))
		w(0xff1e, 0x80|uint8(f>>8)&7)
		if i%4 >= 2 {
			// the other channels at full volume too
			w(0xff12, 0xf0)
			w(0xff14, 0x87)
			w(0xff17, 0xf0)
			w(0xff19, 0x87)
			w(0xff21, 0xf0)
			w(0xff23, 0x80)
		}
		for t := 0; t < 60000 && bad == ""; t++ {
			if r.Intn(2) == 0 {
				w(0xff30+uint16(r.Intn(16)), r.Pick8([]uint8{0xff, 0xf0, 0x0f, 0xfe, 0xef, r.U8()}))
				c.Count("wave_ram_stores_while_playing", 1)
			}
			if i%4 >= 2 && r.Intn(50) == 0 {
				w(r.Pick16([]uint16{0xff12, 0xff17, 0xff21, 0xff11, 0xff16, 0xff1c}), r.Pick8([]uint8{0xf0, 0xf8, 0xff, 0xf1, 0x20, 0x60, 0xc0, r.U8()}))
			}
			m.Audio.EndMachineCycle()
			m.Drain()
		}
		c.Count("wave_write_samples", n)
		if bad != "" {
			c.Violate("sample-out-of-range", fmt.Sprintf("channel 3 playing at f=%d with wave RAM being rewritten: %s (every sample must be finite and in [0,1))", f, bad), nil)
			return
		}
		c.Eval(n)
		c.DistinctOnly(rig.Hash(uint64(i), 0x3a3e))
	})
}

// veryLong: the 95-clock sample grid does not depend on how long the sound hardware has been
// running. Sound stays on and a note plays while the APU is stepped for more than 2^30 machine
// cycles (2^32 clocks; thorough tier - the quick tier runs 2^23 cycles to keep the part alive):
// every window of 95 machine cycles (380 clocks) must deliver exactly four sample pairs.
func veryLong(c *rig.Ctx) {
	c.Require("very_long_cycles")
	c.Part("very-long", 1, func(i int64, r *rig.Rng) {
		m := rig.MustNew(rig.BlankROM(0, 0, 0), rig.Opts{AudioOut: true})
		w := m.Mem.Write
		w(0xff26, 0x80)
		w(0xff24, 0x77)
		w(0xff25, 0xff)
		w(0xff12, 0xf0)
		w(0xff13, 0x00)
		w(0xff14, 0x87)
		total := int64(1) << 23
		if c.Thorough() {
			total = int64(1)<<30 + int64(1)<<22
		}
		drain := func() int {
			n := 0
			for {
				select {
				case <-m.L:
					<-m.R
					n++
					continue
				default:
				}
				return n
			}
		}
		// align the windows with the grid: step until a sample arrives
		for k := 0; k < 200 && drain() == 0; k++ {
			m.Audio.EndMachineCycle()
		}
		inWindow := 0
		for t := int64(1); t <= total; t++ {
			m.Audio.EndMachineCycle()
			inWindow += drain()
			// (window boundaries lie about twelve cycles after a sample, so that a pair arriving
			// a little early or late moves from one window into the next)
			if t%95 == 12 && t > 95 {
				if inWindow != 4 {
					c.Violate("sample-grid-after-a-long-time", fmt.Sprintf("sound on without interruption: the 95-cycle window ending %d machine cycles after the first sample delivered %d sample pairs, expected 4", t, inWindow), nil)
					return
				}
				inWindow = 0
			}
		}
		c.Count("very_long_cycles", total)
		c.Exact(1)
	})
}
