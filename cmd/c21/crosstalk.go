package main

// Cross-talk: a channel's step period must not depend on what the other channels do. One
// channel (the victim) runs in steady state while the other three are triggered and rewritten
// at random machine cycles; the victim's steps are timed exactly as in the single-channel parts.
// Also: channel 4 with the power-on NR43 (00, never written by the guest) must clock every
// 8 clocks like any other machine state with NR43 = 00.

import (
	"fmt"

	"verif/internal/rig"
)

func crosstalk(c *rig.Ctx) {
	c.Require("crosstalk_cases", "crosstalk_aggressor_triggers", "noise_default_cases")
	steps := c.N(24, 96)
	c.Part("crosstalk", c.N(128, 1600), func(i int64, r *rig.Rng) {
		victim := int(i % 4)
		m := newMachine()
		for k := 0; k < r.Intn(97); k++ {
			m.Audio.EndMachineCycle()
		}
		f := 1024 + r.Intn(1024)
		if r.Chance(1, 4) {
			f = r.Intn(2048)
		}
		lo, hi := uint8(f), uint8(f>>8)&7
		var p int64
		nr43 := uint8(r.Intn(5))<<4 | uint8(r.Intn(16))
		switch victim {
		case 0:
			m.Mem.Write(0xff10, 0x00)
			m.Mem.Write(0xff12, 0xf0)
			m.Mem.Write(0xff13, lo)
			m.Mem.Write(0xff14, 0x80|hi)
			p = int64(4 * (2048 - f))
		case 1:
			m.Mem.Write(0xff17, 0xf0)
			m.Mem.Write(0xff18, lo)
			m.Mem.Write(0xff19, 0x80|hi)
			p = int64(4 * (2048 - f))
		case 2:
			m.Mem.Write(0xff1a, 0x80)
			m.Mem.Write(0xff1c, 0x20)
			m.Mem.Write(0xff1d, lo)
			m.Mem.Write(0xff1e, 0x80|hi)
			p = int64(2 * (2048 - f))
		case 3:
			m.Mem.Write(0xff21, 0xf0)
			m.Mem.Write(0xff22, nr43)
			m.Mem.Write(0xff23, 0x80)
			p = divisors[nr43&7] << uint(nr43>>4)
		}
		if m.Mem.Read(0xff26)&(1<<uint(victim)) == 0 {
			c.Violate("crosstalk-victim-not-started", fmt.Sprintf("channel %d: NR52=%02X after the trigger", victim+1, m.Mem.Read(0xff26)), nil)
			return
		}
		// aggressor actions never touch the victim's registers
		aggress := func() {
			if r.Chance(1, 4) {
				// the victim's own registers that have nothing to do with its frequency: duty and
				// length data, envelope (DAC staying on), output level
				if r.Chance(1, 3) {
					// the power register stored again with the power bit set: the sound hardware
					// is on already, nothing starts over
					m.Mem.Write(0xff26, 0x80|r.U8()&0x7f)
					c.Count("crosstalk_neutral_stores_to_the_victim", 1)
					return
				}
				switch victim {
				case 0:
					m.Mem.Write(r.Pick16([]uint16{0xff11, 0xff12}), 0xf0|r.U8()&0x07|r.U8()&0xc0)
				case 1:
					m.Mem.Write(r.Pick16([]uint16{0xff16, 0xff17}), 0xf0|r.U8()&0x07|r.U8()&0xc0)
				case 2:
					m.Mem.Write(r.Pick16([]uint16{0xff1b, 0xff1c}), r.U8())
				case 3:
					m.Mem.Write(r.Pick16([]uint16{0xff20, 0xff21}), 0xf0|r.U8()&0x07)
				}
				c.Count("crosstalk_neutral_stores_to_the_victim", 1)
				return
			}
			for {
				a := r.Intn(4)
				if a == victim {
					continue
				}
				switch a {
				case 0:
					m.Mem.Write(0xff12, 0xf0|r.U8()&7)
					m.Mem.Write(0xff13, r.U8())
					m.Mem.Write(0xff14, 0x80|r.U8()&7)
				case 1:
					m.Mem.Write(0xff17, 0xf0|r.U8()&7)
					m.Mem.Write(0xff18, r.U8())
					m.Mem.Write(0xff19, 0x80|r.U8()&7)
				case 2:
					m.Mem.Write(0xff1a, 0x80)
					m.Mem.Write(0xff1c, r.U8())
					m.Mem.Write(0xff1d, r.U8())
					m.Mem.Write(0xff1e, 0x80|r.U8()&7)
				case 3:
					m.Mem.Write(0xff21, 0xf0|r.U8()&7)
					m.Mem.Write(0xff22, r.U8())
					m.Mem.Write(0xff23, 0x80)
				}
				c.Count("crosstalk_aggressor_triggers", 1)
				return
			}
		}
		st := &stepper{p: p}
		pos := func() int {
			w := m.Audio.XWaveState()
			switch victim {
			case 0:
				return int(w.Duty1)
			case 1:
				return int(w.Duty2)
			case 2:
				return int(w.WavePos)
			}
			return int(w.LFSR)
		}
		prev := pos()
		limit := (steps + 3) * p / 4
		if limit > 400000 {
			limit = 400000
		}
		every := 2 + r.Intn(40)
		for n := int64(1); n <= limit+8 && st.k < steps; n++ {
			if r.Intn(every) == 0 {
				aggress()
			}
			m.Audio.EndMachineCycle()
			cur := pos()
			d := 0
			switch victim {
			case 0, 1:
				d = (cur - prev) & 7
			case 2:
				d = (cur - prev) & 31
			case 3:
				if cur != prev {
					d = 1
				}
			}
			prev = cur
			if d > 0 {
				c.Count("steps_observed", int64(d))
				if !st.observe(n, d) {
					c.Violate(fmt.Sprintf("crosstalk-ch%d-step-period", victim+1), fmt.Sprintf("channel %d (f=%d, NR43=%02X) with the other channels being triggered at random: step %d happened in machine cycle %d, inconsistent with a step every %d clocks", victim+1, f, nr43, st.k-1, n, p),
						map[string]any{"victim": victim + 1, "frequency": f, "nr43": nr43, "expected_period_clocks": p})
					return
				}
			} else if st.overdue(n) {
				c.Violate(fmt.Sprintf("crosstalk-ch%d-step-period", victim+1), fmt.Sprintf("channel %d (f=%d, NR43=%02X) with the other channels being triggered at random: step %d had not happened by machine cycle %d (a step every %d clocks)", victim+1, f, nr43, st.k, n, p),
					map[string]any{"victim": victim + 1, "frequency": f, "nr43": nr43, "expected_period_clocks": p})
				return
			}
		}
		c.Count("crosstalk_cases", 1)
		c.Case(rig.Hash(uint64(i), uint64(f), uint64(nr43)))
	})

	// channel 4 with NR43 as the machine has it: never written, written 00, after a power cycle
	c.Part("noise-default", 6, func(i int64, r *rig.Rng) {
		m := rig.MustNew(rig.BlankROM(0, 0, 0), rig.Opts{})
		how := [...]string{"never written since power-on", "written 00", "after an APU power cycle"}[i%3]
		switch i % 3 {
		case 1:
			m.Mem.Write(0xff22, 0x00)
		case 2:
			m.Mem.Write(0xff26, 0x00)
			m.Mem.Write(0xff26, 0x80)
		}
		if i >= 3 {
			for k := 0; k < 1+r.Intn(5000); k++ {
				m.Audio.EndMachineCycle()
			}
		}
		if got := m.Mem.Read(0xff22); got != 0x00 {
			c.Note("noise-default: NR43 reads %02X (%s); case skipped", got, how)
			return
		}
		m.Mem.Write(0xff21, 0xf0)
		m.Mem.Write(0xff23, 0x80)
		st := &stepper{p: 8}
		prev := m.Audio.XWaveState().LFSR
		for n := int64(1); n <= 400; n++ {
			m.Audio.EndMachineCycle()
			cur := m.Audio.XWaveState().LFSR
			// two shifts per machine cycle at this setting: count by replaying the reference
			d := 0
			x := prev
			for d < 3 && x != cur {
				fb := (x ^ x>>1) & 1
				x = x>>1 | fb<<14
				d++
			}
			if x == cur && d == 0 {
				if st.overdue(n) || (!st.started && n > 8) {
					c.Violate("noise-default-not-clocking", fmt.Sprintf("channel 4 triggered with NR43=00 (%s): the LFSR has not moved by machine cycle %d (a shift every 8 clocks expected)", how, n), nil)
					return
				}
				continue
			}
			if x != cur {
				c.Violate("noise-default-not-clocking", fmt.Sprintf("channel 4 triggered with NR43=00 (%s): LFSR went %04X -> %04X in machine cycle %d (two shifts per machine cycle expected)", how, prev, cur, n), nil)
				return
			}
			prev = cur
			if !st.observe(n, d) {
				c.Violate("noise-default-period", fmt.Sprintf("channel 4 triggered with NR43=00 (%s): shift %d in machine cycle %d is inconsistent with a shift every 8 clocks", how, st.k-1, n), nil)
				return
			}
		}
		c.Count("noise_default_cases", 1)
		c.Exact(1)
	})

	retune(c)
	noiseRetrigger(c)
}

// retune: the frequency registers are rewritten while the channel plays, without a new trigger
// (low byte alone, high bits alone, both). After at most one step of the old period the
// waveform must step at the new period.
func retune(c *rig.Ctx) {
	c.Require("retune_cases")
	steps := c.N(16, 64)
	c.Part("retune", c.N(180, 2400), func(i int64, r *rig.Rng) {
		ch := int(i % 3)
		how := int(i/3) % 3
		m := newMachine()
		for k := 0; k < r.Intn(97); k++ {
			m.Audio.EndMachineCycle()
		}
		f0 := 1024 + r.Intn(1024)
		if r.Chance(1, 4) {
			f0 = r.Intn(2048)
		}
		base := []uint16{0xff13, 0xff18, 0xff1d}[ch] // NRx3; NRx4 follows
		switch ch {
		case 0:
			// half the time with the sweep unit enabled but idle (time 7, subtract, shift 0: it
			// never changes the frequency and never overflows)
			m.Mem.Write(0xff10, []uint8{0x00, 0x78}[(i/9)%2])
			m.Mem.Write(0xff12, 0xf0)
		case 1:
			m.Mem.Write(0xff17, 0xf0)
		case 2:
			m.Mem.Write(0xff1a, 0x80)
			m.Mem.Write(0xff1c, 0x20)
		}
		m.Mem.Write(base, uint8(f0))
		m.Mem.Write(base+1, 0x80|uint8(f0>>8)&7)
		mult := int64(4)
		if ch == 2 {
			mult = 2
		}
		oldP := mult * int64(2048-f0)
		for k := int64(0); k < oldP/4*int64(1+r.Intn(5))+int64(r.Intn(int(oldP/4)+1)); k++ {
			m.Audio.EndMachineCycle()
		}
		f1 := f0
		switch how {
		case 0: // low byte alone
			f1 = f0&0x700 | r.Intn(256)
			m.Mem.Write(base, uint8(f1))
		case 1: // high bits alone, no trigger
			f1 = f0&0xff | r.Intn(8)<<8
			m.Mem.Write(base+1, uint8(f1>>8)&7)
		case 2:
			f1 = r.Intn(2048)
			m.Mem.Write(base, uint8(f1))
			m.Mem.Write(base+1, uint8(f1>>8)&7)
		}
		p := mult * int64(2048-f1)
		pos := func() int {
			w := m.Audio.XWaveState()
			return []int{int(w.Duty1), int(w.Duty2), int(w.WavePos)}[ch]
		}
		mod := []int{7, 7, 31}[ch]
		prev := pos()
		// the step in progress still has the old length
		for g := int64(0); g < oldP/4+2; g++ {
			m.Audio.EndMachineCycle()
			if cur := pos(); cur != prev {
				prev = cur
				break
			}
		}
		st := &stepper{p: p}
		limit := (steps+3)*p/4 + 8
		for n := int64(1); n <= limit && st.k < steps; n++ {
			m.Audio.EndMachineCycle()
			cur := pos()
			d := (cur - prev) & mod
			prev = cur
			if d > 0 {
				c.Count("steps_observed", int64(d))
				if !st.observe(n, d) {
					c.Violate(fmt.Sprintf("retune-ch%d-step-period", ch+1), fmt.Sprintf("channel %d retuned from f=%d to f=%d without a trigger (%s): step %d after the change happened in machine cycle %d, inconsistent with a step every %d clocks", ch+1, f0, f1, []string{"low byte", "high bits", "both"}[how], st.k-1, n, p), nil)
					return
				}
			} else if st.overdue(n) {
				c.Violate(fmt.Sprintf("retune-ch%d-step-period", ch+1), fmt.Sprintf("channel %d retuned from f=%d to f=%d without a trigger (%s): step %d had not happened by machine cycle %d after the change (a step every %d clocks)", ch+1, f0, f1, []string{"low byte", "high bits", "both"}[how], st.k, n, p), nil)
				return
			}
		}
		if st.k < 3 {
			c.Violate(fmt.Sprintf("retune-ch%d-step-period", ch+1), fmt.Sprintf("channel %d retuned from f=%d to f=%d without a trigger: only %d steps in %d machine cycles (a step every %d clocks)", ch+1, f0, f1, st.k, limit, p), nil)
			return
		}
		c.Count("retune_cases", 1)
		c.Case(rig.Hash(uint64(i), uint64(f0), uint64(f1)))
	})
}

// noiseRetrigger: channel 4 is re-triggered while it is already playing, after a change of the
// register width, from every state its shift register passes through in 6000 shifts: the
// sequence after the trigger must be the maximal one of the new width (not stuck, not short).
func noiseRetrigger(c *rig.Ctx) {
	c.Require("noise_retrigger_cases")
	c.Part("noise-retrigger", 30, func(i int64, r *rig.Rng) {
		for d := int(i) * 100; d < int(i+1)*100; d++ {
			to7 := d%2 == 0
			m := newMachine()
			m.Mem.Write(0xff21, 0xf0)
			first, second := uint8(0x00), uint8(0x08)
			if !to7 {
				first, second = 0x08, 0x00
			}
			m.Mem.Write(0xff22, first)
			m.Mem.Write(0xff23, 0x80)
			for k := 0; k < d; k++ {
				m.Audio.EndMachineCycle()
			}
			m.Mem.Write(0xff22, second)
			m.Mem.Write(0xff23, 0x80)
			width, period := 15, 32767
			if to7 {
				width, period = 7, 127
			}
			var bits []uint8
			prev := m.Audio.XWaveState().LFSR
			for k := 0; k < 700 && len(bits) < 300; k++ { // one shift every two machine cycles
				m.Audio.EndMachineCycle()
				cur := m.Audio.XWaveState().LFSR
				// two shifts per machine cycle at this setting: replay the reference to count them
				x := prev
				for n := 0; n < 3 && x != cur; n++ {
					fb := (x ^ x>>1) & 1
					x = x>>1 | fb<<14
					if second&8 != 0 {
						x = x&^(1<<6) | fb<<6
					}
					bits = append(bits, uint8(x&1))
				}
				prev = cur
			}
			if len(bits) < 200 {
				c.Violate("noise-retrigger-stuck", fmt.Sprintf("channel 4 playing with NR43=%02X for %d cycles, then NR43=%02X and a new trigger: only %d shifts in 700 machine cycles (350 expected)", first, d, second, len(bits)), nil)
				return
			}
			// no period shorter than the maximal one
			lim := period
			if lim > 140 {
				lim = 140
			}
			for q := 1; q < lim; q++ {
				same := true
				for k := 0; k+q < len(bits) && k < 150; k++ {
					if bits[k] != bits[k+q] {
						same = false
						break
					}
				}
				if same {
					c.Violate(fmt.Sprintf("noise-retrigger-sequence-%dbit", width), fmt.Sprintf("channel 4 playing with NR43=%02X for %d cycles, then NR43=%02X and a new trigger: the output repeats with period %d (maximal sequence: %d)", first, d, second, q, period), nil)
					return
				}
			}
			c.Count("noise_retrigger_cases", 1)
		}
		c.Exact(1)
	})
}
