// C21 — channel waveforms run at the documented frequencies.
//
// Events (hook): duty step of channels 1 and 2, wave position of channel 3 and the LFSR of
// channel 4 after every machine cycle; steps per cycle are recovered from position deltas
// (mod 8 / mod 32) and LFSR shifts from value changes. Oracle: in steady state step k happens
// at clock t0 + k P with P = 4 (2048 - f) (channels 1/2), 2 (2048 - f) (channel 3) or
// d(r) 2^s (channel 4); at machine-cycle resolution this means that the intervals
// [4 n_k - 3 - k P, 4 n_k - k P] over the observed cycles n_k must have a common point (a
// period off by one clock empties the intersection after a handful of steps). The LFSR's output
// bit sequence must be the maximal 15-bit sequence (x^15 + x^14 + 1 form, period 32767), or the
// 7-bit sequence (period 127) with NR43 bit 3 set.
package main

import (
	"fmt"

	"verif/internal/rig"
)

type stepper struct {
	p       int64 // expected period in clocks
	lo, hi  int64
	k       int64
	started bool
}

// observe records that s steps happened in machine cycle n; returns false if no common phase
// remains.
func (st *stepper) observe(n int64, s int) bool {
	for j := 0; j < s; j++ {
		lo, hi := 4*n-3-st.k*st.p, 4*n-st.k*st.p
		if !st.started {
			st.lo, st.hi, st.started = lo, hi, true
		} else {
			if lo > st.lo {
				st.lo = lo
			}
			if hi < st.hi {
				st.hi = hi
			}
		}
		st.k++
		if st.lo > st.hi {
			return false
		}
	}
	return true
}

// overdue reports whether step k should already have happened by the end of cycle n.
func (st *stepper) overdue(n int64) bool {
	return st.started && 4*n > st.hi+st.k*st.p+st.p
}

var divisors = [8]int64{8, 16, 32, 48, 64, 80, 96, 112}

func newMachine() *rig.Machine {
	m := rig.MustNew(rig.BlankROM(0, 0, 0), rig.Opts{})
	m.Mem.Write(0xff26, 0x80)
	m.Mem.Write(0xff24, 0x77)
	m.Mem.Write(0xff25, 0xff)
	return m
}

func run(c *rig.Ctx) {
	c.Require("square_frequencies", "wave_frequencies", "noise_settings", "steps_observed", "lfsr_bits_checked", "lfsr_full_periods", "sweep_cases")
	steps := c.N(10, 64)

	// channels 1-3: every 11-bit frequency
	c.Part("freq", 2048, func(i int64, r *rig.Rng) {
		f := int(i)
		m := newMachine()
		if f%2 == 1 || f >= 2040 {
			// with sample outputs attached (what is sampled must not disturb what is played)
			m = rig.MustNew(rig.BlankROM(0, 0, 0), rig.Opts{AudioOut: true})
			m.Mem.Write(0xff26, 0x80)
			m.Mem.Write(0xff24, 0x77)
			m.Mem.Write(0xff25, 0xff)
			c.Count("frequencies_timed_with_outputs_attached", 3)
		}
		// a random amount of time first, so that the phase relative to the machine cycle varies
		for k := 0; k < r.Intn(97); k++ {
			m.Audio.EndMachineCycle()
			m.Drain()
		}
		lo, hi := uint8(f), uint8(f>>8)&7
		// the waveform steps whatever the volume: full, zero (DAC still on), zero fading in, one
		env := []uint8{0xf0, 0x08, 0x0f, 0x18}[i%4]
		if env&0xf0 == 0 {
			c.Count("square_frequencies_at_volume_zero", 2)
		}
		m.Mem.Write(0xff12, env)
		m.Mem.Write(0xff13, lo)
		// (bits 3-5 of NRx4 are not connected to anything: any value may be stored there)
		junk := uint8(i>>2) << 3 & 0x38
		m.Mem.Write(0xff14, 0x80|hi|junk)
		m.Mem.Write(0xff17, env)
		m.Mem.Write(0xff18, lo)
		m.Mem.Write(0xff19, 0x80|hi|junk)
		m.Mem.Write(0xff1a, 0x80)
		m.Mem.Write(0xff1c, 0x20)
		m.Mem.Write(0xff1d, lo)
		m.Mem.Write(0xff1e, 0x80|hi|junk)
		if m.Mem.Read(0xff26)&0x07 != 0x07 {
			c.Violate("channels-not-started", fmt.Sprintf("f=%d: NR52=%02X after triggering channels 1-3 with their DACs on", f, m.Mem.Read(0xff26)), nil)
			return
		}
		p12, p3 := int64(4*(2048-f)), int64(2*(2048-f))
		st := [3]*stepper{{p: p12}, {p: p12}, {p: p3}}
		names := [3]string{"ch1", "ch2", "ch3"}
		prev := m.Audio.XWaveState()
		limit := (steps + 3) * p12 / 4
		done := [3]bool{}
		for n := int64(1); n <= limit+8; n++ {
			m.Audio.EndMachineCycle()
			m.Drain()
			cur := m.Audio.XWaveState()
			d := [3]int{int(cur.Duty1-prev.Duty1) & 7, int(cur.Duty2-prev.Duty2) & 7, int(cur.WavePos-prev.WavePos) & 31}
			prev = cur
			for ch := 0; ch < 3; ch++ {
				if done[ch] {
					continue
				}
				if d[ch] > 0 {
					c.Count("steps_observed", int64(d[ch]))
					if !st[ch].observe(n, d[ch]) {
						c.Violate(fmt.Sprintf("%s-step-period", names[ch]), fmt.Sprintf("f=%d: %s step %d happened in machine cycle %d, inconsistent with a step every %d clocks", f, names[ch], st[ch].k-1, n, st[ch].p),
							map[string]any{"frequency": f, "channel": names[ch], "expected_period_clocks": st[ch].p})
						done[ch] = true
					}
				} else if st[ch].overdue(n) {
					c.Violate(fmt.Sprintf("%s-step-period", names[ch]), fmt.Sprintf("f=%d: %s step %d had not happened by machine cycle %d (a step every %d clocks)", f, names[ch], st[ch].k, n, st[ch].p),
						map[string]any{"frequency": f, "channel": names[ch], "expected_period_clocks": st[ch].p})
					done[ch] = true
				}
				if st[ch].k >= steps*int64(1+ch/2) {
					done[ch] = true
				}
			}
		}
		for ch := 0; ch < 3; ch++ {
			if st[ch].k < 4 && !done[ch] {
				c.Violate(fmt.Sprintf("%s-not-stepping", names[ch]), fmt.Sprintf("f=%d: only %d steps of %s in %d machine cycles", f, st[ch].k, names[ch], limit), nil)
			}
		}
		c.Exact(1)
		c.Count("square_frequencies", 2)
		c.Count("wave_frequencies", 1)
		if f%409 == 0 {
			c.Sample(map[string]any{"class": "freq", "f": f, "period_clocks_ch12": p12, "period_clocks_ch3": p3, "steps_timed": st[0].k})
		}
	})
	c.MarkExhaustive("every 11-bit frequency on channels 1, 2 and 3")

	// channel 1 under its frequency sweep: the step period follows the swept frequency.
	// The reference sweep sequence is f(k+1) = f(k) +/- (f(k) >> shift), one update every
	// (sweep period) x 8192 machine cycles. In steady state consecutive duty steps are exactly
	// 2048 - f machine cycles apart, so every observed interval gives the frequency in use;
	// the observed frequencies must walk through f0, f1, f2, ... in order, no earlier than the
	// sweep clock allows and no later than one sweep period (plus one sequencer period of phase)
	// after it is due.
	c.Part("sweep", c.N(96, 1500), func(i int64, r *rig.Rng) {
		per := 1 + r.Intn(7)
		shift := 1 + r.Intn(7)
		down := r.Bool()
		f0 := 64 + r.Intn(900)
		if down {
			f0 = 600 + r.Intn(1400)
		}
		// reference sequence (stop before an overflow)
		seq := []int{f0}
		for len(seq) < 5 {
			f := seq[len(seq)-1]
			d := f >> uint(shift)
			nf := f + d
			if down {
				nf = f - d
			}
			if nf > 2047 || nf+(nf>>uint(shift)) > 2047 || nf < 0 || d == 0 {
				break
			}
			seq = append(seq, nf)
		}
		if len(seq) < 3 {
			return
		}
		// the sequence as the sweep unit goes on producing it after the judged prefix (until it
		// overflows and switches the channel off): used to recognise later frequencies and to bound
		// the one interval that may straddle an update
		ext := append([]int{}, seq...)
		for len(ext) < 64 {
			f := ext[len(ext)-1]
			d := f >> uint(shift)
			nf := f + d
			if down {
				nf = f - d
			}
			if nf > 2047 || nf < 0 {
				break
			}
			ext = append(ext, nf)
		}
		m := newMachine()
		for k := 0; k < r.Intn(9000); k++ {
			m.Audio.EndMachineCycle()
		}
		nr10 := uint8(per<<4 | shift)
		if down {
			nr10 |= 0x08
		}
		m.Mem.Write(0xff10, nr10)
		m.Mem.Write(0xff12, 0xf0)
		m.Mem.Write(0xff13, uint8(f0))
		m.Mem.Write(0xff14, 0x80|uint8(f0>>8))
		prev := m.Audio.XWaveState().Duty1
		lastStep := int64(-1)
		idx := 0
		sweepCycles := int64(per) * 8192
		total := int64(len(seq)-1)*sweepCycles + 3*8192
		for n := int64(1); n <= total; n++ {
			m.Audio.EndMachineCycle()
			cur := m.Audio.XWaveState().Duty1
			if cur == prev {
				continue
			}
			prev = cur
			if lastStep >= 0 {
				fobs := 2048 - int(n-lastStep)
				// which element of the sequence is it?
				at := -1
				for j := idx; j < len(ext); j++ {
					if ext[j] == fobs {
						at = j
						break
					}
				}
				c.Count("steps_observed", 1)
				switch {
				case at < 0:
					// one interval may straddle a frequency update
					c.Count("sweep_transition_intervals", 1)
					// Round 10: an update changes the length of the periods that start after it; it does
					// not restart the running one. Steps are at most 2048 cycles apart and updates at
					// least 8192, so an interval straddles at most one update: its length lies between
					// the period before and the period after that update.
					L := int(n - lastStep)
					pa, pb := 2048-ext[idx], 2048-ext[idx]
					if idx+1 < len(ext) {
						pb = 2048 - ext[idx+1]
					}
					if pa > pb {
						pa, pb = pb, pa
					}
					if L < pa || L > pb {
						c.Violate("sweep-step-interval", fmt.Sprintf("NR10=%02X (period %d, shift %d, decreasing=%v), triggered at f=%d: two consecutive duty steps %d machine cycles apart at cycle %d, while the frequencies in use around the update are %d and the next of %v (periods %d..%d cycles)",
							nr10, per, shift, down, f0, L, n, ext[idx], ext, pa, pb), map[string]any{"nr10": nr10, "f0": f0, "sequence": ext})
						return
					}
				default:
					if at > idx+1 {
						c.Count("sweep_skipped_elements", 1)
					}
					idx = at
					// not earlier than the sweep clock allows
					if int64(idx-1)*sweepCycles > n+8192 && idx > 0 {
						c.Violate("sweep-too-early", fmt.Sprintf("NR10=%02X f0=%d: frequency %d (update %d) in use after only %d cycles", nr10, f0, fobs, idx, n), nil)
						return
					}
				}
				// bounded progress: update k is due after k sweep periods (+ up to one sequencer
				// period of phase); one more sweep period later it must be in use
				due := 0
				for k := 1; k < len(seq); k++ {
					if n > int64(k)*sweepCycles+8192+sweepCycles/2+4096 {
						due = k
					}
				}
				if at >= 0 && idx < due {
					c.Violate("sweep-frequency-not-applied", fmt.Sprintf("NR10=%02X (period %d, shift %d, decreasing=%v), triggered at f=%d: %d cycles later channel 1 still steps every %d cycles (f=%d); the sweep sequence is %v and update %d was due",
						nr10, per, shift, down, f0, n, 2048-fobs, fobs, seq, due), map[string]any{"nr10": nr10, "f0": f0, "sequence": seq})
					return
				}
			}
			lastStep = n
		}
		if idx == 0 {
			c.Violate("sweep-frequency-not-applied", fmt.Sprintf("NR10=%02X f0=%d: no frequency update observed in %d cycles (sequence %v)", nr10, f0, total, seq), nil)
			return
		}
		c.Count("sweep_cases", 1)
		c.Case(rig.Hash(uint64(nr10), uint64(f0)))
	})

	// channel 4: every NR43 value with s <= 13
	c.Part("noise", 14*16, func(i int64, r *rig.Rng) {
		s := int(i / 16)
		low := int(i % 16) // bit 3 = width, bits 0-2 = divisor code
		nr43 := uint8(s<<4 | low)
		rr := low & 7
		seven := low&8 != 0
		p := divisors[rr] << uint(s)
		m := newMachine()
		for k := 0; k < r.Intn(97); k++ {
			m.Audio.EndMachineCycle()
		}
		m.Mem.Write(0xff21, 0xf0)
		grace := int64(0)
		if i%3 == 2 {
			// the setting is reached without a new trigger, from a shift the generator never
			// clocks at (s = 14 or 15) or from another ordinary one: the period in force is the
			// register's, after at most one period of the earlier setting
			// (the width bit stays as it is: changing the register width in mid-sequence is
			// outside the statement)
			prev := r.Pick8([]uint8{0xe0, 0xf0, 0xe7, 0x50, 0x00})&^0x08 | nr43&0x08
			m.Mem.Write(0xff22, prev)
			m.Mem.Write(0xff23, 0x80)
			for k := 0; k < 200+r.Intn(2000); k++ {
				m.Audio.EndMachineCycle()
			}
			m.Mem.Write(0xff22, nr43)
			grace = (divisors[prev&7]<<uint(prev>>4))/4 + 8
			c.Count("noise_settings_reached_without_trigger", 1)
		} else {
			m.Mem.Write(0xff22, nr43)
			m.Mem.Write(0xff23, 0x80)
		}
		if m.Mem.Read(0xff26)&0x08 == 0 {
			c.Violate("noise-not-started", fmt.Sprintf("NR43=%02X: NR52=%02X after triggering channel 4", nr43, m.Mem.Read(0xff26)), nil)
			return
		}
		// how many shifts to watch: full LFSR periods only where that is affordable
		period := int64(32767)
		if seven {
			period = 127
		}
		want := int64(24)
		full := false
		if p <= 64 || (seven && p <= 4096) || (c.Thorough() && p <= 2048) {
			want = 2*period + 40
			full = true
		} else if p*400 <= c.N(8, 80)*1000000 {
			want = 400
		} else if s >= 10 {
			want = c.N(3, 12)
		}
		st := &stepper{p: p}
		prev := m.Audio.XWaveState().LFSR
		var bits []uint8
		// (the earlier setting's period may still run out first)
		for g := int64(0); g < grace; g++ {
			m.Audio.EndMachineCycle()
			if cur := m.Audio.XWaveState().LFSR; cur != prev {
				prev = cur
				break
			}
		}
		limit := (want + 2) * p / 4
		for n := int64(1); n <= limit+8 && st.k < want; n++ {
			m.Audio.EndMachineCycle()
			cur := m.Audio.XWaveState().LFSR
			if cur != prev {
				prev = cur
				bits = append(bits, uint8(cur&1))
				c.Count("steps_observed", 1)
				if !st.observe(n, 1) {
					c.Violate(fmt.Sprintf("noise-clock-period-s%d", s), fmt.Sprintf("NR43=%02X: LFSR shift %d happened in machine cycle %d, inconsistent with a shift every d(r) x 2^s = %d clocks", nr43, st.k-1, n, p),
						map[string]any{"nr43": nr43, "expected_period_clocks": p})
					return
				}
			} else if st.overdue(n) {
				c.Violate(fmt.Sprintf("noise-clock-period-s%d", s), fmt.Sprintf("NR43=%02X: LFSR shift %d had not happened by machine cycle %d (a shift every %d clocks)", nr43, st.k, n, p),
					map[string]any{"nr43": nr43, "expected_period_clocks": p})
				return
			}
		}
		if st.k < 3 {
			c.Violate(fmt.Sprintf("noise-clock-period-s%d", s), fmt.Sprintf("NR43=%02X: only %d LFSR shifts in %d machine cycles (a shift every %d clocks expected)", nr43, st.k, limit, p), nil)
			return
		}
		// the output sequence: reconstruct the reference state from the first output bits and
		// compare everything that follows
		width := 15
		if seven {
			width = 7
		}
		if len(bits) > width+8 {
			var state uint16
			for k := 0; k < width; k++ {
				state |= uint16(bits[k]) << uint(k)
			}
			if state == 0 {
				c.Violate("lfsr-stuck-at-zero", fmt.Sprintf("NR43=%02X: the first %d output bits are all zero", nr43, width), nil)
				return
			}
			first := state
			back := int64(-1)
			for k := width; k < len(bits); k++ {
				// advance the reference by one shift: feedback = bit0 xor bit1 enters at the top
				fb := (state ^ state>>1) & 1
				state = state>>1 | fb<<uint(width-1)
				// the newest output bit is bit 0 of the state (width-1) shifts ago; compare the
				// bit that has just reached position 0
				ref := uint8(state>>0) & 1
				_ = ref
				// bits[k] is output number k; the reference's output number k is bit 0 of its
				// state after k - (width-1) ... simpler: regenerate outputs from the state stream
				if state == first && back < 0 {
					back = int64(k - width + 1)
				}
			}
			// regenerate the reference output stream directly
			st2 := first
			for k := 0; k < len(bits); k++ {
				if uint8(st2&1) != bits[k] {
					c.Violate(fmt.Sprintf("lfsr-sequence-%dbit", width), fmt.Sprintf("NR43=%02X: output bit %d of the noise generator is %d, the %d-bit maximal sequence continues with %d", nr43, k, bits[k], width, st2&1),
						map[string]any{"nr43": nr43, "first_bits": fmt.Sprint(bits[:min(len(bits), 40)])})
					return
				}
				fb := (st2 ^ st2>>1) & 1
				st2 = st2>>1 | fb<<uint(width-1)
			}
			c.Count("lfsr_bits_checked", int64(len(bits)))
			if full {
				// exact period of the observed stream
				per := int64(0)
				for q := int64(1); q <= period; q++ {
					ok := true
					for k := 0; int64(k)+q < int64(len(bits)) && k < 200; k++ {
						if bits[k] != bits[int64(k)+q] {
							ok = false
							break
						}
					}
					if ok {
						per = q
						break
					}
				}
				if per != period {
					c.Violate(fmt.Sprintf("lfsr-period-%dbit", width), fmt.Sprintf("NR43=%02X: output period %d, expected %d", nr43, per, period), nil)
					return
				}
				c.Count("lfsr_full_periods", 1)
			}
		}
		c.Exact(1)
		c.Count("noise_settings", 1)
		if i%37 == 0 {
			c.Sample(map[string]any{"class": "noise", "nr43": fmt.Sprintf("%02X", nr43), "period_clocks": p, "shifts_timed": st.k, "seven_bit": seven})
		}
	})
	c.MarkExhaustive("every NR43 value with shift s <= 13 (both LFSR widths, all divisor codes)")

	crosstalk(c)
}

func main() {
	rig.Main(rig.Spec{
		ID:  "C21",
		Run: run,
		Rule: "one case per 11-bit frequency (channels 1, 2 and 3 measured together) and per NR43 value with s <= 13; each case times a run of consecutive waveform steps / LFSR shifts at machine-cycle resolution against the documented period " +
			"and compares the LFSR output bits with the maximal sequence; full LFSR periods are observed for the fast settings",
		Assumptions: []string{"waveform positions and the LFSR are observed through the audio hook after every machine cycle", "steady state only: the delay of the first step after a trigger is not asserted",
			"LFSR output = bit 0 of the shift register; any phase of the maximal sequence is accepted"},
	})
}

func min(a, b int) int {
	if a < b {
		return a
	}
	return b
}
