// C22 — JOYP reflects held buttons for the selected groups.
//
// Oracle: a 10-line reference joypad (held sets + select bits). The complete reachable state
// space of the reference (select 4 x directions 9 x buttons 16 = 576 states) is explored
// breadth-first under all 16 press/release events and all 256 JOYP writes; for every
// transition the real Controller (through Mapper FF00) is brought to the source state by
// replaying the BFS path on a fresh machine, the transition applied, and JOYP probed under
// all four select values (each probe read twice: reads must not change state).
package main

import (
	"fmt"

	"github.com/scottyw/tetromino/gameboy/controller"
	"verif/internal/rig"
)

// ---- reference ----

type jstate struct {
	sel  uint8 // bits 4-5 as last written
	dirs uint8 // held: bit0 Right, bit1 Left, bit2 Up, bit3 Down
	btns uint8 // held: bit0 A, bit1 B, bit2 Select, bit3 Start
}

func (s jstate) read() uint8 {
	low := uint8(0x0f)
	if s.sel&0x10 == 0 {
		low &^= s.dirs
	}
	if s.sel&0x20 == 0 {
		low &^= s.btns
	}
	return 0xc0 | s.sel | low
}

type event struct {
	write   bool
	val     uint8
	button  int // index into buttons
	pressed bool
}

type bdef struct {
	b     controller.Button
	name  string
	dir   bool
	bit   uint8
	oppos uint8 // bit of the opposite direction
}

var buttons = []bdef{
	{controller.Right, "Right", true, 1, 2},
	{controller.Left, "Left", true, 2, 1},
	{controller.Up, "Up", true, 4, 8},
	{controller.Down, "Down", true, 8, 4},
	{controller.A, "A", false, 1, 0},
	{controller.B, "B", false, 2, 0},
	{controller.Select, "Select", false, 4, 0},
	{controller.Start, "Start", false, 8, 0},
}

func (s jstate) apply(e event) jstate {
	if e.write {
		s.sel = e.val & 0x30
		return s
	}
	b := buttons[e.button]
	if b.dir {
		if e.pressed {
			s.dirs |= b.bit
			s.dirs &^= b.oppos
		} else {
			s.dirs &^= b.bit
		}
	} else {
		if e.pressed {
			s.btns |= b.bit
		} else {
			s.btns &^= b.bit
		}
	}
	return s
}

func (e event) String() string {
	if e.write {
		return fmt.Sprintf("write %02X", e.val)
	}
	if e.pressed {
		return "press " + buttons[e.button].name
	}
	return "release " + buttons[e.button].name
}

func allEvents() []event {
	var ev []event
	for b := range buttons {
		ev = append(ev, event{button: b, pressed: true}, event{button: b, pressed: false})
	}
	for v := 0; v < 256; v++ {
		ev = append(ev, event{write: true, val: uint8(v)})
	}
	return ev
}

func applyReal(m *rig.Machine, e event) {
	if e.write {
		m.Mem.Write(0xff00, e.val)
	} else {
		m.Ctl.ButtonAction(buttons[e.button].b, e.pressed)
	}
}

func run(c *rig.Ctx) {
	c.Require("transitions", "states", "probes_both_selected_with_button_held", "opposite_direction_presses", "sequence_cases", "change_runs", "neighbour_stores")
	events := allEvents()
	// BFS over the reference from power-on. The real controller powers on with both select
	// bits reading 0 (JOYP = CF), which is the reference state sel=00.
	init := jstate{}
	path := map[jstate][]event{init: nil}
	order := []jstate{init}
	for i := 0; i < len(order); i++ {
		s := order[i]
		for _, e := range events {
			n := s.apply(e)
			if _, ok := path[n]; !ok {
				p := append(append([]event{}, path[s]...), e)
				path[n] = p
				order = append(order, n)
			}
		}
	}
	rom := rig.BlankROM(0, 0, 0)
	total := int64(len(order)) * int64(len(events))
	c.Part("bfs", total, func(i int64, _ *rig.Rng) {
		s := order[i/int64(len(events))]
		e := events[i%int64(len(events))]
		m := rig.MustNew(rom, rig.Opts{})
		for _, pe := range path[s] {
			applyReal(m, pe)
		}
		cur := s
		if got := m.Mem.Read(0xff00); got != cur.read() {
			c.Violate(classOf(cur), fmt.Sprintf("after path %v JOYP=%02X want %02X", path[s], got, cur.read()),
				map[string]any{"path": fmt.Sprint(path[s]), "state": fmt.Sprintf("%+v", cur)})
			return
		}
		applyReal(m, e)
		cur = cur.apply(e)
		c.Exact(1)
		c.Count("transitions", 1)
		if i%int64(len(events)) == 0 {
			c.Count("states", 1)
		}
		if !e.write && e.pressed && buttons[e.button].dir && s.dirs&buttons[e.button].oppos != 0 {
			c.Count("opposite_direction_presses", 1)
		}
		check := func(when string) bool {
			g1 := m.Mem.Read(0xff00)
			g2 := m.Mem.Read(0xff00)
			want := cur.read()
			if cur.sel == 0 && cur.btns != 0 {
				c.Count("probes_both_selected_with_button_held", 1)
			}
			c.Count("probes", 1)
			if g1 != want || g2 != want {
				c.Violate(classOf(cur), fmt.Sprintf("path %v then %v, %s: JOYP=%02X/%02X want %02X", path[s], e, when, g1, g2, want),
					map[string]any{"path": fmt.Sprint(path[s]), "event": e.String(), "state": fmt.Sprintf("%+v", cur), "got": g1, "want": want})
				return false
			}
			return true
		}
		if !check("directly after") {
			return
		}
		for _, sel := range []uint8{0x00, 0x10, 0x20, 0x30} {
			// vary the unrelated written bits too
			v := sel | uint8(i*7)&0xcf
			m.Mem.Write(0xff00, v)
			cur = cur.apply(event{write: true, val: v})
			if !check(fmt.Sprintf("after select write %02X", v)) {
				return
			}
		}
		if i%20011 == 0 {
			c.Sample(map[string]any{"path": fmt.Sprint(path[s]), "event": e.String(), "joyp": fmt.Sprintf("%02X", cur.read())})
		}
	})
	c.MarkExhaustive("reachable controller states x all 272 events")

	// The breadth-first part reaches every state by one shortest path. A controller with hidden
	// state (something that is not a function of select bits and held buttons) could behave
	// differently along other paths, so all button-event sequences up to a bounded length are
	// run as well, with a select write and a probe after every event.
	L := int(c.N(4, 5))
	nseq := int64(1)
	for k := 0; k < L; k++ {
		nseq *= 16
	}
	c.Part("sequences", nseq, func(i int64, r *rig.Rng) {
		m := rig.MustNew(rom, rig.Opts{})
		if i%3 == 2 {
			// an OAM DMA transfer is in flight while the keys are read (JOYP is not its business)
			m.Mem.Write(0xff46, 0xc1)
			for t := 0; t < 3+int(i%50); t++ {
				m.Mem.EndMachineCycle()
			}
			c.Count("sequences_during_dma", 1)
		}
		cur := jstate{}
		x := i
		var hist []string
		for k := 0; k < L; k++ {
			e := events[x%16] // the first 16 events are the press/release events
			x /= 16
			applyReal(m, e)
			cur = cur.apply(e)
			hist = append(hist, e.String())
			sel := uint8(r.Intn(4)) << 4
			m.Mem.Write(0xff00, sel|r.U8()&0xcf)
			cur.sel = sel
			if got := m.Mem.Read(0xff00); got != cur.read() {
				c.Violate("sequence-"+classOf(cur), fmt.Sprintf("after %v with select %02X: JOYP=%02X want %02X", hist, sel, got, cur.read()), map[string]any{"events": fmt.Sprint(hist)})
				return
			}
		}
		// the same events again with nothing read or selected in between (events may not be
		// merged or reordered by whatever sits between the keys and the register)
		m2 := rig.MustNew(rom, rig.Opts{})
		if i%2 == 1 {
			m2.Mem.Write(0xff00, uint8(r.Intn(4))<<4)
		}
		st := jstate{}
		x = i
		for k := 0; k < L; k++ {
			e := events[x%16]
			x /= 16
			applyReal(m2, e)
			st = st.apply(e)
		}
		for _, sel := range []uint8{0x00, 0x10, 0x20, 0x30} {
			m2.Mem.Write(0xff00, sel)
			st.sel = sel
			if got := m2.Mem.Read(0xff00); got != st.read() {
				c.Violate("batched-sequence-"+classOf(st), fmt.Sprintf("after %v with no JOYP access in between, select %02X: JOYP=%02X want %02X", hist, sel, got, st.read()), map[string]any{"events": fmt.Sprint(hist)})
				return
			}
		}
		c.Count("batched_sequence_cases", 1)
		// long runs of key events with no JOYP access at all (a front end may deliver dozens
		// between two polls of the guest), and the guest going through STOP mode in between
		if i%16 == 0 {
			m3 := rig.MustNew(rom, rig.Opts{})
			sel := uint8(r.Intn(4)) << 4
			m3.Mem.Write(0xff00, sel)
			s3 := jstate{sel: sel}
			n := 20 + r.Intn(60)
			for k := 0; k < n; k++ {
				e := events[r.Intn(16)]
				applyReal(m3, e)
				s3 = s3.apply(e)
				if k == n/2 && i%32 == 0 {
					// STOP, woken by the next key event: the select bits are the guest's
					regs := m3.CPU.XGetRegs()
					m3.Mem.Write(0xc000, 0x10)
					m3.Mem.Write(0xc001, 0x00)
					m3.Mem.Write(0xc002, 0x18)
					m3.Mem.Write(0xc003, 0xfe)
					regs.PC = 0xc000
					m3.CPU.XResetToBoundary()
					m3.CPU.XSetRegs(regs)
					for t := 0; t < 6; t++ {
						m3.Step()
					}
					c.Count("stop_mode_passages", 1)
				}
			}
			for t := 0; t < 6; t++ {
				m3.Step()
			}
			for _, q := range []uint8{sel, 0x00, 0x10, 0x20, 0x30} {
				if q != sel {
					m3.Mem.Write(0xff00, q)
					s3.sel = q
				}
				if got := m3.Mem.Read(0xff00); got != s3.read() {
					c.Violate("long-batch-"+classOf(s3), fmt.Sprintf("after %d key events with no JOYP access (select %02X written before them), select now %02X: JOYP=%02X want %02X", n, sel, q, got, s3.read()), nil)
					return
				}
			}
			c.Count("long_batches", 1)
		}
		c.Exact(1)
		c.Count("sequence_cases", 1)
	})
	// Streams of select-line stores as programs for other members of the family send them (a Super
	// Game Boy command packet is 128 bits clocked out over the two select lines, framed by a
	// pulse with both lines low): on this machine they are ordinary stores to the select bits.
	// Half of the images carry the header flags such programs carry (0146=03, 014B=33, 0143=80).
	c.Part("select-streams", c.N(64, 640), func(i int64, r *rig.Rng) {
		img := append([]byte{}, rom...)
		if i%2 == 0 {
			img[0x146], img[0x14b] = 0x03, 0x33
			if i%4 == 0 {
				img[0x143] = 0x80
			}
			c.Count("select_streams_with_sgb_header", 1)
		}
		m := rig.MustNew(img, rig.Opts{})
		cur := jstate{}
		w := func(v uint8) {
			m.Mem.Write(0xff00, v)
			cur.sel = v & 0x30
		}
		probe := func(what string) bool {
			if got := m.Mem.Read(0xff00); got != cur.read() {
				c.Violate("select-stream-"+classOf(cur), fmt.Sprintf("%s, select %02X: JOYP=%02X want %02X", what, cur.sel, got, cur.read()), nil)
				return false
			}
			return true
		}
		for pk := 0; pk < 1+r.Intn(3); pk++ {
			var packet [16]uint8
			switch r.Intn(3) {
			case 0:
				packet[0], packet[1] = 0x89, r.Pick8([]uint8{0x01, 0x03, 0x00}) // "multiplayer request"
			case 1:
				packet[0] = uint8(r.Intn(0x20))<<3 | 1
				for k := 1; k < 16; k++ {
					packet[k] = r.U8()
				}
			case 2:
				for k := range packet {
					packet[k] = r.U8()
				}
			}
			w(0x00)
			w(0x30)
			for k := 0; k < 128; k++ {
				if packet[k/8]>>(uint(k)%8)&1 != 0 {
					w(0x10)
				} else {
					w(0x20)
				}
				w(0x30)
				if k%37 == 36 {
					e := events[r.Intn(16)]
					applyReal(m, e)
					cur = cur.apply(e)
				}
			}
			w(0x20)
			w(0x30)
			c.Count("select_stream_packets", 1)
			// the usual pad polling afterwards, each read judged
			for k := 0; k < 12; k++ {
				if r.Chance(1, 3) {
					e := events[r.Intn(16)]
					applyReal(m, e)
					cur = cur.apply(e)
				}
				w(r.Pick8([]uint8{0x30, 0x10, 0x30, 0x20, 0x30, 0x00}))
				if !probe(fmt.Sprintf("after %d packet(s) and %d more select stores", pk+1, k+1)) {
					return
				}
			}
		}
		c.Case(rig.Hash(uint64(i), r.U64()))
	})
	// Round 10: (a) long runs of changes with NO read in between, of every length 1..1100 (and, in the
	// thorough tier, up to 70000: 8- and 16-bit counters of changes wrap inside these lengths), each
	// run bracketed by a read before and a read after under every select value; (b) a store of the
	// same value to another address (work RAM, OAM, VRAM, a cartridge register, other I/O registers and
	// high RAM, including addresses whose low byte is 00) directly before the JOYP store.
	nlen := c.N(1100, 70000)
	c.Part("change-runs", nlen, func(i int64, r *rig.Rng) {
		m := rig.MustNew(rom, rig.Opts{})
		for t := 0; t < 4; t++ {
			m.Step()
		}
		cur := jstate{}
		// bring the machine to a random state, then read (a cache would be filled here)
		for k := 0; k < 6; k++ {
			e := events[r.Intn(len(events))]
			applyReal(m, e)
			cur = cur.apply(e)
		}
		if got := m.Mem.Read(0xff00); got != cur.read() {
			c.Violate("change-run-"+classOf(cur), fmt.Sprintf("before the run: JOYP=%02X want %02X", got, cur.read()), nil)
			return
		}
		n := int(i) + 1
		mode := int(i>>0) % 3 // 0 key events only, 1 select stores only, 2 mixed
		for k := 0; k < n; k++ {
			var e event
			switch {
			case mode == 0 || (mode == 2 && r.Chance(1, 2)):
				e = events[r.Intn(16)]
			default:
				e = event{write: true, val: r.U8()}
			}
			applyReal(m, e)
			cur = cur.apply(e)
		}
		for _, q := range []uint8{0xff, 0x00, 0x10, 0x20, 0x30} {
			if q != 0xff {
				m.Mem.Write(0xff00, q)
				cur.sel = q
			}
			if got := m.Mem.Read(0xff00); got != cur.read() {
				c.Violate("change-run-"+classOf(cur), fmt.Sprintf("read, then %d changes (mode %d) with no JOYP read, then select %02X: JOYP=%02X want %02X", n, mode, cur.sel, got, cur.read()), nil)
				return
			}
		}
		c.Count("change_runs", 1)
		c.Case(rig.Hash(0xc22a, uint64(i)))
	})
	others := []uint16{0xc000, 0xc100, 0xd000, 0xdf00, 0xc0ff, 0x8000, 0x9800, 0x9c00, 0x2000, 0x4000, 0x6000, 0x0000, 0xa000,
		0xff80, 0xfffe, 0xff01, 0xff06, 0xff42, 0xff43, 0xff47, 0xff4a, 0xff4b, 0xff05, 0xc001, 0xe000}
	c.Part("neighbour-stores", int64(len(others))*256, func(i int64, r *rig.Rng) {
		addr := others[i/256]
		v := uint8(i % 256)
		m := rig.MustNew(rom, rig.Opts{})
		for t := 0; t < 4; t++ {
			m.Step()
		}
		cur := jstate{}
		for k := 0; k < 4; k++ {
			e := events[r.Intn(16)]
			applyReal(m, e)
			cur = cur.apply(e)
		}
		// select bits different from v's first, so that the JOYP store must be seen to act
		pre := ^v & 0x30
		m.Mem.Write(0xff00, pre)
		cur.sel = pre
		if got := m.Mem.Read(0xff00); got != cur.read() {
			c.Violate("neighbour-store-"+classOf(cur), fmt.Sprintf("select %02X: JOYP=%02X want %02X", pre, got, cur.read()), nil)
			return
		}
		m.Mem.Write(addr, v)
		m.Mem.Write(0xff00, v)
		cur.sel = v & 0x30
		if got := m.Mem.Read(0xff00); got != cur.read() {
			c.Violate("neighbour-store-"+classOf(cur), fmt.Sprintf("store of %02X to %04X, then the same value to JOYP: JOYP=%02X want %02X", v, addr, got, cur.read()), nil)
			return
		}
		// the same JOYP store twice with a key event in between
		e := events[r.Intn(16)]
		applyReal(m, e)
		cur = cur.apply(e)
		m.Mem.Write(0xff00, v)
		if got := m.Mem.Read(0xff00); got != cur.read() {
			c.Violate("neighbour-store-"+classOf(cur), fmt.Sprintf("JOYP<-%02X, %s, JOYP<-%02X again: JOYP=%02X want %02X", v, e, v, got, cur.read()), nil)
			return
		}
		c.Count("neighbour_stores", 1)
		c.Case(rig.Hash(0xc22b, uint64(i)))
	})
	c.MarkExhaustive(fmt.Sprintf("all press/release sequences of length %d from power-on", L))
	c.Count("reference_states", 0)
	if c.Shard == 0 {
		c.Count("reference_states_total", int64(len(order)))
	}
}

func classOf(s jstate) string {
	switch s.sel {
	case 0x00:
		return "both-groups-selected"
	case 0x10:
		return "buttons-selected"
	case 0x20:
		return "directions-selected"
	}
	return "none-selected"
}

func main() {
	rig.Main(rig.Spec{
		ID:  "C22",
		Run: run,
		Rule: "breadth-first enumeration of the reference joypad's reachable states (select bits x held directions x held buttons) " +
			"x all 16 press/release events and all 256 JOYP writes; one case = (source state, event), each distinct by construction; " +
			"every case probes JOYP under all four select values",
		Assumptions: []string{"the reference joypad model (held sets, active-low, AND of selected groups) is the property statement",
			"controller state is reachable only through ButtonAction and JOYP writes"},
	})
}
