// C23 — serial output delivers each written byte once, in order.
//
// Events: the bytes received by a recording io.Writer, and SB/SC reads. Oracle: the received
// sequence equals the sequence of values written to FF01 (as predicted by the lock-step
// reference CPU for programs, or as issued by the harness for register-level histories),
// nothing else is delivered; with no writer configured SB writes have no effect; SB and SC read
// FF. Workload: register-level histories, generated programs that write random bytes to SB/SC
// among other I/O, blargg ROMs (transcript = SB write log), and the wiring through
// gameboy.New(Config{SerialWriter}).
package main

import (
	"bytes"
	"context"
	"fmt"
	"io"
	"os"
	"path/filepath"
	"time"

	"github.com/gordonklaus/portaudio"
	"github.com/scottyw/tetromino/gameboy"

	"verif/internal/lockstep"
	"verif/internal/prog"
	"verif/internal/rig"
	"verif/internal/romrun"
)

func diff(got, want []byte) string {
	n := len(got)
	if len(want) < n {
		n = len(want)
	}
	for i := 0; i < n; i++ {
		if got[i] != want[i] {
			return fmt.Sprintf("byte %d delivered %02X, written %02X (delivered %d bytes, written %d)", i, got[i], want[i], len(got), len(want))
		}
	}
	if len(got) != len(want) {
		kind := "lost"
		if len(got) > len(want) {
			kind = "extra"
		}
		return fmt.Sprintf("%d bytes delivered, %d written (%s)", len(got), len(want), kind)
	}
	return ""
}

func classOf(got, want []byte) string {
	switch {
	case len(got) < len(want):
		return "bytes-lost"
	case len(got) > len(want):
		return "bytes-extra"
	}
	return "bytes-differ"
}

func run(c *rig.Ctx) {
	c.Require("history_sb_writes", "program_sb_writes", "rom_sb_writes", "nil_writer_runs", "wiring_runs", "sb_sc_reads", "wiring_runs_without_writer")

	// (1) register-level histories
	c.Part("histories", c.N(300, 6000), func(i int64, r *rig.Rng) {
		buf := &bytes.Buffer{}
		m := rig.MustNew(rig.BlankROM(0, 0, 0), rig.Opts{SerialWriter: buf})
		var want []byte
		for k := 0; k < 400; k++ {
			switch r.Intn(8) {
			case 0, 1, 2:
				v := r.U8()
				m.Mem.Write(0xff01, v)
				want = append(want, v)
				c.Count("history_sb_writes", 1)
			case 3:
				m.Mem.Write(0xff02, r.U8()) // SC: starting a "transfer" must not deliver anything
			case 4:
				a := 0xff00 + uint16(r.Intn(0x100))
				if a != 0xff01 {
					m.Mem.Write(a, r.U8())
				}
			case 5:
				for t := 0; t < r.Intn(3000); t++ {
					m.PPU.EndMachineCycle()
					m.Mem.EndMachineCycle()
					m.Audio.EndMachineCycle()
					m.Timer.EndMachineCycle()
				}
			default:
				sb, sc := m.Mem.Read(0xff01), m.Mem.Read(0xff02)
				c.Count("sb_sc_reads", 2)
				if sb != 0xff || sc != 0xff {
					c.Violate("sb-sc-readback", fmt.Sprintf("SB reads %02X, SC reads %02X (both must read FF)", sb, sc), nil)
					return
				}
			}
			if d := diff(buf.Bytes(), want); d != "" {
				c.Violate("history-"+classOf(buf.Bytes(), want), fmt.Sprintf("history %d after %d operations: %s", i, k+1, d), nil)
				return
			}
		}
		c.Case(rig.Hash(uint64(i), r.U64()))
	})

	// (1b) delivery must not depend on the values: every ordered pair of byte values, and every
	// triple over an alphabet of control characters and extremes, written back to back
	c.Part("pairs", 256, func(i int64, r *rig.Rng) {
		buf := &bytes.Buffer{}
		m := rig.MustNew(rig.BlankROM(0, 0, 0), rig.Opts{SerialWriter: buf})
		a := uint8(i)
		for b := 0; b < 256; b++ {
			buf.Reset()
			m.Mem.Write(0xff01, a)
			m.Mem.Write(0xff01, uint8(b))
			if got := buf.Bytes(); len(got) != 2 || got[0] != a || got[1] != uint8(b) {
				c.Violate("pair-"+classOf(got, []byte{a, uint8(b)}), fmt.Sprintf("SB written %02X then %02X: delivered % X", a, b, got), nil)
				return
			}
			c.Count("history_sb_writes", 2)
			c.Exact(1)
		}
		special := []uint8{0x00, 0x01, 0x03, 0x04, 0x07, 0x08, 0x09, 0x0a, 0x0b, 0x0c, 0x0d, 0x1a, 0x1b, 0x20, 0x7f, 0x80, 0xfe, 0xff}
		if int(i) < len(special) {
			for _, b := range special {
				for _, d := range special {
					buf.Reset()
					want := []byte{special[i], b, d, special[i]}
					for _, v := range want {
						m.Mem.Write(0xff01, v)
					}
					if got := buf.Bytes(); !bytes.Equal(got, want) {
						c.Violate("triple-"+classOf(got, want), fmt.Sprintf("SB written % X: delivered % X", want, got), nil)
						return
					}
					c.Count("history_sb_writes", 4)
					c.Exact(1)
				}
			}
		}
		// runs of one value
		buf.Reset()
		n := 2 + r.Intn(300)
		for k := 0; k < n; k++ {
			m.Mem.Write(0xff01, a)
		}
		if got := buf.Bytes(); len(got) != n {
			c.Violate("run-length", fmt.Sprintf("SB written %02X %d times in a row: %d bytes delivered", a, n, len(got)), nil)
		}
	})
	c.MarkExhaustive("every ordered pair of byte values written back to back; every triple over 18 control/extreme values")

	// (2) generated programs: the SB write log comes from the lock-step reference CPU
	progRun := func(p *prog.Program, cycles int, withWriter bool) (got, want []byte, f *lockstep.Follower) {
		var buf *bytes.Buffer
		var m *rig.Machine
		if withWriter {
			buf = &bytes.Buffer{}
			m = rig.MustNew(p.ROM, rig.Opts{SerialWriter: buf})
		} else {
			m = rig.MustNew(p.ROM, rig.Opts{})
		}
		f = lockstep.New(m)
		f.OnWrite = func(a uint16, v uint8) {
			if a == 0xff01 {
				want = append(want, v)
			}
		}
		f.RunCycles(cycles)
		if buf != nil {
			got = buf.Bytes()
		}
		return
	}
	c.Part("programs", c.N(300, 6000), func(i int64, r *rig.Rng) {
		p := prog.Generate(r, prog.Options{Serial: true, Interrupts: i%3 == 0, Hardware: i%4 == 0, AllOpcodes: i%2 == 0, OAMFocus: false, CartType: -1})
		got, want, f := progRun(p, int(c.N(20000, 60000)), true)
		if d := diff(got, want); d != "" && f.Partials == 0 {
			c.Violate("program-"+classOf(got, want), fmt.Sprintf("%s: %s", p.Describe(), d), map[string]any{"program": p.Describe()})
		} else if d != "" {
			// a partially predicted instruction may have written SB with an unpredictable value:
			// compare lengths only
			if len(got) != len(want) {
				c.Violate("program-"+classOf(got, want), fmt.Sprintf("%s: %s", p.Describe(), d), nil)
			}
			c.Count("program_runs_with_partial_instructions", 1)
		}
		c.Count("program_sb_writes", int64(len(want)))
		c.Eval(int64(len(want)))
		c.DistinctOnly(p.Hash)
		if i < 2 {
			c.Sample(map[string]any{"class": "program", "program": p.Describe(), "sb_writes": len(want), "first_bytes": fmt.Sprintf("% X", want[:min(len(want), 16)])})
		}
	})

	// (3) no writer configured: SB writes are dropped without effect
	c.Part("nilwriter", c.N(60, 600), func(i int64, r *rig.Rng) {
		p := prog.Generate(r, prog.Options{Serial: true, Hardware: i%2 == 0, CartType: -1})
		// the run with no writer must behave exactly like the run with one
		m1 := rig.MustNew(p.ROM, rig.Opts{SerialWriter: &bytes.Buffer{}})
		f1 := lockstep.New(m1)
		f1.RunCycles(15000)
		r1 := lockstep.Regs(m1)
		m2 := rig.MustNew(p.ROM, rig.Opts{})
		f2 := lockstep.New(m2)
		var bad string
		f2.Violate = func(prop, class, msg string) {
			if bad == "" {
				bad = prop + " " + class + ": " + msg
			}
		}
		f2.RunCycles(15000)
		r2 := lockstep.Regs(m2)
		if r1 != r2 || f1.Instrs != f2.Instrs {
			c.Violate("nil-writer-changes-execution", fmt.Sprintf("%s: registers after 15000 cycles differ with and without a serial writer: %+v vs %+v", p.Describe(), r1, r2), nil)
		}
		if bad != "" {
			c.Violate("nil-writer-disturbs-cpu", fmt.Sprintf("%s: with no serial writer the lock-step monitor reports %s", p.Describe(), bad), nil)
		}
		if sb, sc := m2.Mem.Read(0xff01), m2.Mem.Read(0xff02); sb != 0xff || sc != 0xff {
			c.Violate("sb-sc-readback", fmt.Sprintf("SB reads %02X, SC reads %02X with no writer configured", sb, sc), nil)
		}
		c.Count("nil_writer_runs", 1)
		c.Case(rig.Hash(p.Hash, 1))
	})

	// (4) blargg ROMs: the serial transcript must be exactly the bytes the program wrote to SB
	roms := romrun.Select("cpu_instrs/individual/01", "cpu_instrs/individual/03", "cpu_instrs/individual/06", "instr_timing", "mem_timing/mem_timing.gb")
	romrun.FollowROMs(c, "roms", roms, romrun.FollowOpts{Verdict: true,
		OnFollower: func(r romrun.ROM, m *rig.Machine, f *lockstep.Follower) {
			f.OnWrite = func(a uint16, v uint8) {
				if a == 0xff01 {
					romLog[r.Rel] = append(romLog[r.Rel], v)
				}
			}
		},
		AfterRun: func(r romrun.ROM, m *rig.Machine, f *lockstep.Follower, out romrun.Outcome) {
			want := romLog[r.Rel]
			got := []byte(out.Serial)
			if d := diff(got, want); d != "" {
				c.Violate("rom-"+classOf(got, want), fmt.Sprintf("%s: %s", r.Rel, d), nil)
			}
			c.Count("rom_sb_writes", int64(len(want)))
			delete(romLog, r.Rel)
		}})

	pairs(c)
	fileWriters(c)
	ramStores(c)
	protocolStreams(c)
	quietWithoutWriter(c)

	// (5) wiring through gameboy.New
	c.Part("wiring", c.N(24, 180), func(i int64, r *rig.Rng) {
		p := prog.Generate(r, prog.Options{Serial: true, CartType: 0})
		frames := 2 + r.Intn(3)
		// screen on the rig first: a program that reaches an undefined opcode (the deliberate
		// stop) cannot be run through the whole emulator in-process
		_, want, pf := progRun(p, frames*17556+8, true)
		if pf.Ended != "" {
			c.Count("wiring_programs_skipped", 1)
			return
		}
		dir := os.Getenv("VERIF_WORK")
		if dir == "" {
			dir = os.TempDir()
		}
		path := filepath.Join(dir, fmt.Sprintf("c23-%d-%d.gb", c.Shard, i))
		os.WriteFile(path, p.ROM, 0o644)
		defer os.Remove(path)
		buf := &bytes.Buffer{}
		// every configuration: with and without a writer, with the debug options on and off
		variant := int(i % 6)
		cfg := gameboy.Config{RomFilename: path, DisableVideoOutput: true, DisableAudioOutput: true, SerialWriter: buf}
		if i%12 >= 6 && variant != 2 && variant != 4 && variant != 5 {
			// sound output attached (fake device) and a writer that stalls now and then: every
			// byte still arrives, in order
			portaudio.XReset()
			portaudio.Sink = func(int64, []float32) {}
			cfg.DisableAudioOutput = false
			cfg.SerialWriter = &stallingWriter{w: buf}
			c.Count("wiring_runs_with_audio_and_stalling_writer", 1)
		}
		cfg.DebugCPU = variant == 1 || variant == 2
		cfg.DebugLCD = variant == 3 || variant == 4
		if variant == 2 || variant == 4 || variant == 5 {
			cfg.SerialWriter = nil
			c.Count("wiring_runs_without_writer", 1)
		}
		// the CPU trace of DebugCPU goes to standard output: discard it
		stdout := os.Stdout
		if null, err := os.OpenFile(os.DevNull, os.O_WRONLY, 0); err == nil {
			os.Stdout = null
			defer func() { os.Stdout = stdout; null.Close() }()
		}
		gb := gameboy.New(cfg)
		for k := 0; k < frames; k++ {
			// peek guard: generated grammar programs never execute undefined opcodes
			gb.XRunFrame(context.Background())
		}
		os.Stdout = stdout
		_, want, _ = progRun(p, frames*17556, true)
		// the machine stays usable after its frame loop has been shut down: later SB stores
		// still reach the writer it was configured with
		if variant == 0 || variant == 3 {
			gb.Cleanup()
			tail := r.Bytes(5)
			for _, v := range tail {
				gb.XMapper().Write(0xff01, v)
			}
			want = append(want, tail...)
			c.Count("wiring_stores_after_cleanup", 5)
		}
		if cfg.SerialWriter == nil {
			want = nil
			if sb, sc := gb.XMapper().Read(0xff01), gb.XMapper().Read(0xff02); sb != 0xff || sc != 0xff {
				c.Violate("sb-sc-readback", fmt.Sprintf("through gameboy.New with no writer: SB reads %02X, SC reads %02X", sb, sc), nil)
			}
		}
		if d := diff(buf.Bytes(), want); d != "" {
			c.Violate("wiring-"+classOf(buf.Bytes(), want), fmt.Sprintf("through gameboy.New (DebugCPU=%v DebugLCD=%v writer=%v), %d frames of %s: %s", cfg.DebugCPU, cfg.DebugLCD, cfg.SerialWriter != nil, frames, p.Describe(), d), nil)
		}
		if !cfg.DisableAudioOutput && variant != 0 && variant != 3 {
			gb.Cleanup()
		}
		c.Count("wiring_runs", 1)
		c.Case(rig.Hash(p.Hash, uint64(frames)))
	})
}

var romLog = map[string][]byte{}

// stallingWriter passes bytes on, pausing for a few milliseconds every 700 bytes.
type stallingWriter struct {
	w io.Writer
	n int
}

func (s *stallingWriter) Write(p []byte) (int, error) {
	s.n += len(p)
	if s.n%700 == 0 {
		time.Sleep(8 * time.Millisecond)
	}
	return s.w.Write(p)
}

func min(a, b int) int {
	if a < b {
		return a
	}
	return b
}

func main() {
	rig.Main(rig.Spec{
		ID:  "C23",
		Run: run,
		Rule: "history cases: random register-level histories with SB/SC writes among other I/O writes and elapsed cycles; program cases: generated programs writing random bytes to SB/SC (write log from the lock-step reference); " +
			"nil-writer cases: the same program with and without a writer; ROM cases: blargg transcripts; wiring cases: gameboy.New with a SerialWriter; evaluations count SB writes",
		Assumptions: []string{"the sequence of SB writes of a program is what the lock-step reference CPU predicts (every data write to FF01, including stack pushes that land there)",
			"a failing io.Writer is outside the statement and not exercised"},
	})
}
