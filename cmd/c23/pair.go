package main

// Two instances with serial writers in one process. (a) Link-cable style: instance A's writer,
// while it is being handed a byte, makes instance B send a byte of its own (and vice versa, to
// a bounded depth) before it stores what it was given. (b) Two goroutines, one instance each,
// writers that yield before storing. Each transcript must be exactly what its own guest wrote.

import (
	"bytes"
	"fmt"
	"io"
	"os"
	"path/filepath"
	"runtime"
	"sync"

	"verif/internal/emu"
	"verif/internal/prog"
	"verif/internal/rig"
)

type linkWriter struct {
	got   []byte
	peer  *rig.Machine
	next  func() uint8
	depth *int
}

func (w *linkWriter) Write(p []byte) (int, error) {
	if w.peer != nil && *w.depth < 3 {
		*w.depth++
		w.peer.Mem.Write(0xff01, w.next())
		*w.depth--
	}
	w.got = append(w.got, p...)
	return len(p), nil
}

type yieldingWriter struct{ got []byte }

func (w *yieldingWriter) Write(p []byte) (int, error) {
	runtime.Gosched()
	w.got = append(w.got, p...)
	return len(p), nil
}

func pairs(c *rig.Ctx) {
	c.Require("link_cases", "concurrent_pair_cases")
	c.Part("link", c.N(40, 400), func(i int64, r *rig.Rng) {
		depth := 0
		var wantA, wantB []byte
		wa, wb := &linkWriter{depth: &depth}, &linkWriter{depth: &depth}
		a := rig.MustNew(rig.BlankROM(0, 0, 0), rig.Opts{SerialWriter: wa})
		b := rig.MustNew(rig.BlankROM(0, 0, 0), rig.Opts{SerialWriter: wb})
		wa.peer, wb.peer = b, a
		// a nested send is recorded in the sender's expectation at the moment it is made; its
		// own delivery completes before the outer one
		wa.next = func() uint8 { v := r.U8(); wantB = append(wantB, v); return v }
		wb.next = func() uint8 { v := r.U8(); wantA = append(wantA, v); return v }
		// expectations in delivery order: a writer stores its byte after the nested sends, so
		// build them the same way with a reference recursion
		wantA, wantB = nil, nil
		for k := 0; k < 60; k++ {
			v := r.U8()
			if r.Bool() {
				a.Mem.Write(0xff01, v)
				wantA = append(wantA, v)
			} else {
				b.Mem.Write(0xff01, v)
				wantB = append(wantB, v)
			}
		}
		// delivery order differs from send order for nested sends; compare as multisets per
		// instance plus exact length (a byte delivered to the wrong instance or replaced by
		// another one shows in both)
		if !sameBytes(wa.got, wantA) || !sameBytes(wb.got, wantB) {
			c.Violate("link-transcripts", fmt.Sprintf("two instances whose writers make the other one send: A got % X, its guest wrote (any order) % X; B got % X, wrote % X", wa.got, wantA, wb.got, wantB), nil)
			return
		}
		c.Count("link_cases", 1)
		c.Case(rig.Hash(uint64(i), r.U64()))
	})
	c.Part("concurrent-pair", c.N(24, 240), func(i int64, r *rig.Rng) {
		n := 2 + int(i%3)
		ws := make([]*yieldingWriter, n)
		ms := make([]*rig.Machine, n)
		wants := make([][]byte, n)
		for k := 0; k < n; k++ {
			ws[k] = &yieldingWriter{}
			ms[k] = rig.MustNew(rig.BlankROM(0, 0, 0), rig.Opts{SerialWriter: ws[k]})
			wants[k] = r.Bytes(400)
		}
		var wg sync.WaitGroup
		for k := 0; k < n; k++ {
			wg.Add(1)
			go func(k int) {
				defer wg.Done()
				for _, v := range wants[k] {
					ms[k].Mem.Write(0xff01, v)
				}
			}(k)
		}
		wg.Wait()
		for k := 0; k < n; k++ {
			if !bytes.Equal(ws[k].got, wants[k]) {
				c.Violate("concurrent-transcripts", fmt.Sprintf("%d instances on their own goroutines: instance %d's transcript differs from what its guest wrote: %s", n, k, diff(ws[k].got, wants[k])), nil)
				return
			}
		}
		c.Count("concurrent_pair_cases", 1)
		c.Case(rig.Hash(uint64(i), r.U64(), 7))
	})
}

func sameBytes(a, b []byte) bool {
	if len(a) != len(b) {
		return false
	}
	var n [256]int
	for _, v := range a {
		n[v]++
	}
	for _, v := range b {
		n[v]--
	}
	for _, k := range n {
		if k != 0 {
			return false
		}
	}
	return true
}

// fileWriters: the configured writer may be a file or a pipe (what a command-line front end
// passes): every byte must have reached it when the SB store is over, whatever its value and
// whether or not a newline follows.
func fileWriters(c *rig.Ctx) {
	c.Require("file_writer_cases")
	c.Part("file-writer", c.N(16, 160), func(i int64, r *rig.Rng) {
		dir := os.Getenv("VERIF_WORK")
		if dir == "" {
			dir = os.TempDir()
		}
		var want []byte
		n := 1 + r.Intn(300)
		for k := 0; k < n; k++ {
			v := r.U8()
			if r.Chance(1, 12) {
				v = 0x0a
			}
			want = append(want, v)
		}
		if i%2 == 0 && want[len(want)-1] == 0x0a {
			want = append(want, 0x41) // ends without a newline
		}
		var got []byte
		if i%4 < 2 {
			f, err := os.CreateTemp(dir, "c23-serial-*.out")
			if err != nil {
				c.Note("file-writer: cannot create a temporary file: %v", err)
				return
			}
			defer os.Remove(f.Name())
			m := rig.MustNew(rig.BlankROM(0, 0, 0), rig.Opts{SerialWriter: f})
			for _, v := range want {
				m.Mem.Write(0xff01, v)
			}
			got, _ = os.ReadFile(f.Name())
			f.Close()
		} else {
			pr, pw, err := os.Pipe()
			if err != nil {
				c.Note("file-writer: cannot create a pipe: %v", err)
				return
			}
			m := rig.MustNew(rig.BlankROM(0, 0, 0), rig.Opts{SerialWriter: pw})
			done := make(chan []byte)
			go func() {
				b, _ := io.ReadAll(pr)
				done <- b
			}()
			for _, v := range want {
				m.Mem.Write(0xff01, v)
			}
			pw.Close() // the owner closes its pipe; the emulator was never asked to flush anything
			got = <-done
			pr.Close()
		}
		if !bytes.Equal(got, want) {
			c.Violate("file-writer-"+classOf(got, want), fmt.Sprintf("serial writer is an *os.File (%s): %s", []string{"file", "file", "pipe", "pipe"}[i%4], diff(got, want)), nil)
			return
		}
		c.Count("file_writer_cases", 1)
		c.Case(rig.Hash(uint64(i), r.U64(), 9))
	})
}

// ramStores: stores to cartridge RAM (any controller, any contents - including the signature
// test ROMs use to mark a text buffer in RAM) deliver nothing to the serial writer; only SB does.
func ramStores(c *rig.Ctx) {
	c.Require("ram_store_cases")
	carts := []uint8{0x03, 0x13, 0x1b, 0x06, 0x10}
	c.Part("ram-stores", int64(len(carts))*6, func(i int64, r *rig.Rng) {
		buf := &bytes.Buffer{}
		m := rig.MustNew(rig.BlankROM(carts[i%int64(len(carts))], 1, 3), rig.Opts{SerialWriter: buf})
		m.Mem.Write(0x0000, 0x0a)
		var want []byte
		sig := []uint8{0x80, 0xde, 0xb0, 0x61}
		for k, v := range sig {
			m.Mem.Write(0xa000+uint16(k), v)
		}
		for k := 0; k < 300; k++ {
			switch r.Intn(4) {
			case 0:
				v := r.U8()
				m.Mem.Write(0xff01, v)
				want = append(want, v)
			case 1:
				m.Mem.Write(0xa004+uint16(r.Intn(200)), 0x20+uint8(r.Intn(0x5f)))
			case 2:
				m.Mem.Write(0xa000+uint16(r.Intn(0x2000)), r.U8())
			case 3:
				for t := 0; t < r.Intn(50); t++ {
					m.Step()
				}
			}
		}
		if !bytes.Equal(buf.Bytes(), want) {
			c.Violate("ram-stores-"+classOf(buf.Bytes(), want), fmt.Sprintf("cartridge type %02X, stores to SB interleaved with stores to cartridge RAM: %s", carts[i%int64(len(carts))], diff(buf.Bytes(), want)), nil)
			return
		}
		c.Count("ram_store_cases", 1)
		c.Case(rig.Hash(uint64(i), r.U64(), 11))
	})
}

// protocolStreams: byte streams that look like the traffic of serial peripherals (Game Boy
// Printer packets with every command, link-cable handshakes, text with control characters):
// the emulator forwards bytes, it does not interpret them.
func protocolStreams(c *rig.Ctx) {
	c.Require("protocol_stream_cases")
	c.Part("protocol-streams", c.N(40, 400), func(i int64, r *rig.Rng) {
		buf := &bytes.Buffer{}
		m := rig.MustNew(rig.BlankROM(0, 0, 0), rig.Opts{SerialWriter: buf})
		var want []byte
		send := func(b ...byte) {
			for _, v := range b {
				m.Mem.Write(0xff01, v)
				want = append(want, v)
				if r.Chance(1, 3) {
					m.Mem.Write(0xff02, r.Pick8([]uint8{0x81, 0x80, 0x01}))
				}
			}
		}
		for n := 0; n < 12; n++ {
			switch r.Intn(4) {
			case 0, 1: // printer packet: magic, command, compression, length, data, checksum, 2 status bytes
				cmd := r.Pick8([]uint8{0x01, 0x02, 0x04, 0x0f, 0x08, r.U8()})
				ln := r.Intn(40)
				if cmd == 0x04 && r.Bool() {
					ln = 0x280 / 16
				}
				send(0x88, 0x33, cmd, uint8(r.Intn(2)), uint8(ln), uint8(ln>>8))
				sum := int(cmd) + ln&0xff + ln>>8
				for k := 0; k < ln; k++ {
					v := r.U8()
					sum += int(v)
					send(v)
				}
				send(uint8(sum), uint8(sum>>8), 0x00, 0x00)
			case 2: // link handshake
				send(0x60, 0x61, 0x01, 0x02, 0xfe, 0xfd, 0xd0, 0xd1, 0xd2)
			case 3:
				send([]byte("Passed\r\n\x1b[0m\x00\x7f\x88\x33")...)
			}
			for t := r.Intn(2000); t > 0; t-- {
				m.Step()
			}
		}
		if sb, sc := m.Mem.Read(0xff01), m.Mem.Read(0xff02); sb != 0xff || sc != 0xff {
			c.Violate("sb-sc-readback", fmt.Sprintf("after protocol-like traffic and elapsed time SB reads %02X, SC reads %02X (both must read FF)", sb, sc), nil)
			return
		}
		if !bytes.Equal(buf.Bytes(), want) {
			c.Violate("protocol-stream-"+classOf(buf.Bytes(), want), fmt.Sprintf("peripheral-style traffic: %s", diff(buf.Bytes(), want)), nil)
			return
		}
		c.Count("protocol_stream_cases", 1)
		c.Case(rig.Hash(uint64(i), r.U64(), 13))
	})
}

// quietWithoutWriter: with no serial writer configured, bytes stored to SB go nowhere - not to
// the process's standard output or standard error either - whether the emulator runs headless or
// with its window and sound device (the fakes) attached.
func quietWithoutWriter(c *rig.Ctx) {
	c.Require("runs_without_writer_watched")
	c.Part("quiet-without-writer", c.N(8, 48), func(i int64, r *rig.Rng) {
		p := prog.Generate(r, prog.Options{Serial: true, CartType: 0})
		if i%3 == 2 {
			p = prog.DMAStream(r) // a serial byte after every transfer
		}
		frames := 2 + r.Intn(3)
		s := emu.Scenario{ROM: p.ROM, Frames: frames, Video: i%2 == 0, Audio: i%4 == 1, NoSerialWriter: true}
		if ok, _ := emu.Screen(s); !ok {
			return
		}
		path := emu.TempROM(p.ROM, "c23q")
		defer os.Remove(path)
		capture := func() (*os.File, string) {
			f, err := os.CreateTemp(filepath.Dir(path), "c23-std-*")
			if err != nil {
				panic(err)
			}
			return f, f.Name()
		}
		fo, no := capture()
		fe, ne := capture()
		defer os.Remove(no)
		defer os.Remove(ne)
		so, se := os.Stdout, os.Stderr
		os.Stdout, os.Stderr = fo, fe
		tr := emu.Run(s, path)
		os.Stdout, os.Stderr = so, se
		fo.Close()
		fe.Close()
		bo, _ := os.ReadFile(no)
		be, _ := os.ReadFile(ne)
		if len(bo) > 0 || len(be) > 0 {
			c.Violate("output-without-a-writer", fmt.Sprintf("no serial writer configured (video=%v audio=%v, %d frames): %d bytes appeared on standard output and %d on standard error (first: % X)", s.Video, s.Audio, frames, len(bo), len(be), head(append(bo, be...), 16)), nil)
			return
		}
		if tr.SerialLen != 0 {
			c.Violate("output-without-a-writer", fmt.Sprintf("no serial writer configured, yet %d bytes reached the harness's buffer", tr.SerialLen), nil)
			return
		}
		c.Count("runs_without_writer_watched", 1)
		c.Case(rig.Hash(p.Hash, uint64(frames)))
	})
}

func head(b []byte, n int) []byte {
	if len(b) > n {
		return b[:n]
	}
	return b
}

