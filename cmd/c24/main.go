// C24 — emulation is deterministic.
//
// Events per run: a hash of PPU.Frame() after every frame and of the bytes handed to the
// (fake) display, all audio samples delivered to the fake PortAudio callback, the serial bytes,
// the cartridge RAM dump, the CPU registers and a reflective fingerprint of the complete
// emulator state. Oracle: identical across two runs in one process, one run in a fresh child
// process (with a different GOMAXPROCS and GC setting), for the same ROM, configuration and
// button schedule (delivered through the fake GLFW key callback). The audio-attached scenarios
// run under the race detector.
package main

import (
	"encoding/json"
	"fmt"
	"os"
	"os/exec"
	"strings"

	"verif/internal/emu"
	"verif/internal/prog"
	"verif/internal/rig"
	"verif/internal/romrun"
)

func keySchedule(r *rig.Rng, frames int) []emu.KeyEvent {
	var ks []emu.KeyEvent
	n := r.Intn(12)
	for k := 0; k < n; k++ {
		ks = append(ks, emu.KeyEvent{Frame: 1 + r.Intn(frames), Key: r.Intn(8), Press: r.Bool()})
	}
	return ks
}

var nbN int

func check(c *rig.Ctx, name string, s emu.Scenario, caseID string) {
	ok, _ := emu.Screen(s)
	if !ok {
		c.Count("scenarios_skipped_undefined_opcode", 1)
		return
	}
	path := emu.TempROM(s.ROM, "c24")
	defer os.Remove(path)
	if os.Getenv("C24_CHILD") == "1" {
		tr := emu.Run(s, path)
		b, _ := json.Marshal(tr)
		fmt.Printf("TRACE %s\n", b)
		return
	}
	t1 := emu.Run(s, path)
	// the second run is perturbed on the host side: the audio consumer is late for a while
	// (the sample queue fills up), later the emulator's own goroutine pauses (the queue drains)
	s2 := s
	if s.Audio {
		s2.ConsumerStalls = map[int64]int{2: 25, 3: 25, 40: 10, 90: 25}
		s2.ProducerStalls = map[int]int{}
		for f := 1; f <= s.Frames; f++ {
			s2.ProducerStalls[f] = 12
		}
		c.Count("scenarios_with_host_stalls", 1)
	}
	// between the two runs another instance with the LCD debug option is created and run for a
	// frame in this process (whatever it sets up must stay its own)
	sd := s
	sd.DebugLCD, sd.Frames, sd.Keys, sd.Audio = true, 1, nil, false
	emu.Run(sd, path)
	c.Count("debug_lcd_interludes", 1)
	// ... and in two runs out of three the process is busy with another emulator as well, which
	// runs a frame after each frame of the one under observation (transfers, sound registers,
	// interrupts of its own)
	nbN++
	if nbN%3 != 0 {
		nr := rig.NewRng(c.Seed, 0xc24, uint64(nbN), uint64(c.Shard))
		nb := prog.DMAStream(nr)
		if nbN%3 == 2 {
			nb = prog.Sound(nr)
		}
		s2.Neighbour = emu.TempROM(nb.ROM, "c24n")
		defer os.Remove(s2.Neighbour)
		c.Count("second_runs_beside_a_neighbour", 1)
	}
	t2 := emu.Run(s2, path)
	cfg := fmt.Sprintf("video=%v audio=%v frames=%d keys=%d", s.Video, s.Audio, s.Frames, len(s.Keys))
	if d := emu.Diff(t1, t2); d != "" {
		c.Violate("same-process-"+strings.SplitN(d, " ", 2)[0], fmt.Sprintf("%s (%s): two runs in one process differ: %s", name, cfg, d), map[string]any{"scenario": s, "name": name})
	}
	// fresh process, different scheduler and collector settings
	cmd := exec.Command(os.Args[0], "case", caseID, "--tier", c.Tier, "--seed", fmt.Sprint(c.Seed))
	cmd.Env = append(os.Environ(), "C24_CHILD=1", "GOMAXPROCS=1", "GOGC=7")
	out, err := cmd.Output()
	var t3 emu.Trace
	found := false
	for _, ln := range strings.Split(string(out), "\n") {
		if strings.HasPrefix(ln, "TRACE ") {
			if json.Unmarshal([]byte(ln[6:]), &t3) == nil {
				found = true
			}
		}
	}
	if !found {
		c.Note("child process for %s produced no trace (%v): %s", caseID, err, tail(string(out)))
		c.Count("child_runs_without_trace", 1)
	} else {
		c.Count("child_process_runs", 1)
		if d := emu.Diff(t1, t3); d != "" {
			c.Violate("other-process-"+strings.SplitN(d, " ", 2)[0], fmt.Sprintf("%s (%s): a run in a separate process (GOMAXPROCS=1, GOGC=7) differs: %s", name, cfg, d), map[string]any{"scenario": s, "name": name})
		}
	}
	c.Count("scenarios", 1)
	if s.Audio {
		c.Count("scenarios_audio", 1)
		c.Count("audio_samples_compared", int64(t1.AudioSamples))
	}
	if s.Video {
		c.Count("scenarios_video", 1)
	}
	c.Count("frames_compared", int64(len(t1.FrameHashes)))
	c.Count("key_events", int64(len(s.Keys)))
	c.Eval(int64(len(t1.FrameHashes)))
	h := rig.NewHasher()
	h.B(s.ROM[:0x8000])
	h.U(uint64(s.Frames))
	c.DistinctOnly(h.Sum())
}

func tail(s string) string {
	if len(s) > 400 {
		return s[len(s)-400:]
	}
	return s
}

func run(c *rig.Ctx) {
	if os.Getenv("C24_CHILD") != "1" {
		c.Require("scenarios", "scenarios_audio", "scenarios_video", "child_process_runs", "frames_compared", "key_events", "audio_samples_compared")
	}
	// (1) bundled ROMs
	roms := romrun.List()
	var pick []romrun.ROM
	for i, r := range roms {
		if strings.Contains(r.Rel, "bootrom_dumper") {
			continue
		}
		if c.Thorough() || i%6 == 0 || strings.Contains(r.Rel, "cpu_instrs/individual/01") || strings.Contains(r.Rel, "dmg_sound/rom_singles/01") {
			pick = append(pick, r)
		}
	}
	c.Part("roms", int64(len(pick)), func(i int64, r *rig.Rng) {
		img, err := os.ReadFile(pick[i].Path)
		if err != nil {
			return
		}
		frames := int(c.N(30, 300)) + r.Intn(30)
		s := emu.Scenario{ROM: img, Video: i%2 == 0, Audio: false, Frames: frames, Keys: keySchedule(r, frames)}
		check(c, pick[i].Rel, s, fmt.Sprintf("roms:%d", i))
		if i < 2 {
			c.Sample(map[string]any{"class": "rom", "rom": pick[i].Rel, "frames": frames, "video": s.Video, "keys": s.Keys})
		}
	})
	// (2) generated programs, video on/off, no audio
	c.Part("programs", c.N(40, 400), func(i int64, r *rig.Rng) {
		p := prog.Generate(r, prog.Options{Interrupts: i%2 == 0, Hardware: true, Serial: true, MBCWrites: i%3 == 0, AllOpcodes: i%4 == 0, CartType: -1})
		frames := 4 + r.Intn(8)
		s := emu.Scenario{ROM: p.ROM, Video: i%2 == 1, Audio: false, Frames: frames, Keys: keySchedule(r, frames)}
		check(c, p.Describe(), s, fmt.Sprintf("programs:%d", i))
	})
	// (2b) overlapping objects on screen (object priority must not depend on anything but OAM)
	c.Part("sprites", c.N(8, 80), func(i int64, r *rig.Rng) {
		p := prog.Sprites(r)
		frames := 3 + r.Intn(3)
		s := emu.Scenario{ROM: p.ROM, Video: i%2 == 0, Audio: false, Frames: frames, Keys: keySchedule(r, frames)}
		check(c, "overlapping-objects program", s, fmt.Sprintf("sprites:%d", i))
	})
	// (2b") transfers in flight at nearly every frame boundary
	c.Part("dma-stream", c.N(6, 60), func(i int64, r *rig.Rng) {
		p := prog.DMAStream(r)
		frames := 2 + r.Intn(4)
		s := emu.Scenario{ROM: p.ROM, Video: i%2 == 0, Frames: frames, Keys: keySchedule(r, frames)}
		check(c, "dma-stream program", s, fmt.Sprintf("dma-stream:%d", i))
		c.Count("dma_stream_scenarios", 1)
	})
	// (2b"') the biggest images (256 and 512 banks), upper banks read from the first instruction on
	c.Part("big-rom", c.N(4, 24), func(i int64, r *rig.Rng) {
		p := prog.BigROM(r)
		frames := 1 + r.Intn(3)
		s := emu.Scenario{ROM: p.ROM, Video: i%2 == 0, Frames: frames}
		check(c, fmt.Sprintf("big-rom program (%d KiB)", len(p.ROM)>>10), s, fmt.Sprintf("big-rom:%d", i))
		c.Count("big_rom_scenarios", 1)
	})
	// (2b') a different program with the very same header (title, type, sizes, checksums) and
	// length was loaded earlier in the process: the program under test must still behave as in
	// a process of its own
	c.Part("same-header", c.N(14, 84), func(i int64, r *rig.Rng) {
		cart := []int{0x01, 0x03, 0x13, 0x1b, 0x05, 0x10, 0x19}[i%7]
		a := prog.Generate(r, prog.Options{Hardware: true, Serial: true, MBCWrites: true, CartType: cart})
		b := prog.Generate(r, prog.Options{Hardware: true, Serial: true, MBCWrites: true, Interrupts: i%2 == 0, CartType: cart})
		copy(b.ROM[0x134:0x150], a.ROM[0x134:0x150])
		if os.Getenv("C24_CHILD") != "1" {
			sa := emu.Scenario{ROM: a.ROM, Frames: 2}
			if ok, _ := emu.Screen(sa); ok {
				pa := emu.TempROM(a.ROM, "c24h")
				emu.Run(sa, pa)
				os.Remove(pa)
				c.Count("same_header_predecessors_run", 1)
			}
		}
		frames := 3 + r.Intn(4)
		s := emu.Scenario{ROM: b.ROM, Video: i%2 == 1, Frames: frames, Keys: keySchedule(r, frames)}
		check(c, b.Describe()+" (after another image with the same header)", s, fmt.Sprintf("same-header:%d", i))
	})
	// (2c) battery-backed cartridge types whose programs read cartridge RAM before writing it
	// (nothing of an earlier run may survive into a later one, in this process or another)
	batt := []uint8{0x03, 0x06, 0x0f, 0x10, 0x13, 0x1b, 0x1e}
	c.Part("battery", int64(len(batt))*c.N(2, 8), func(i int64, r *rig.Rng) {
		p := prog.Battery(r, batt[i%int64(len(batt))])
		frames := 2 + r.Intn(3)
		s := emu.Scenario{ROM: p.ROM, Video: i%2 == 0, Audio: false, Frames: frames}
		check(c, fmt.Sprintf("battery program cart=%02X", p.CartType), s, fmt.Sprintf("battery:%d", i))
		c.Count("battery_scenarios", 1)
	})
	// (3) audio attached (race-detector build): sound programs and ROMs
	c.Part("audio", c.N(10, 80), func(i int64, r *rig.Rng) {
		p := prog.Sound(r)
		frames := 3 + r.Intn(5)
		s := emu.Scenario{ROM: p.ROM, Video: i%2 == 0, Audio: true, Frames: frames, Keys: keySchedule(r, frames)}
		check(c, p.Describe(), s, fmt.Sprintf("audio:%d", i))
	})
}

func main() {
	rig.Main(rig.Spec{
		ID:        "C24",
		Run:       run,
		RaceParts: []string{"audio"},
		Rule: "one case = (ROM or generated program, video on/off, audio on/off, number of frames, random button schedule); each case is run twice in-process and once in a fresh child process with GOMAXPROCS=1 and GOGC=7; " +
			"evaluations count compared frames, distinct counts distinct (ROM, frames) pairs",
		Assumptions: []string{"button events are delivered at frame boundaries (the only point where the real display polls input)",
			"programs that would reach an undefined opcode are screened out on the component rig (the deliberate stop would end the process)",
			"the state fingerprint walks the emulator's object graph by reflection; function values and channels are not part of it"},
	})
}
