package main

// One instance's host-side failure must stay its own: instance A's serial writer returns an
// error (the emulator's documented reaction is to panic, which A's owner recovers from);
// instances B and C, created before and after, must go on exactly as if alone - in
// particular their own serial output must still be delivered, and promptly.

import (
	"bytes"
	"errors"
	"fmt"
	"time"

	"verif/internal/rig"
)

type failingWriter struct{ after, n int }

func (w *failingWriter) Write(p []byte) (int, error) {
	w.n++
	if w.n > w.after {
		return 0, errors.New("host side: device gone")
	}
	return len(p), nil
}

func failingNeighbour(c *rig.Ctx) {
	c.Require("failing_neighbour_cases")
	c.Part("failing-neighbour", c.N(12, 120), func(i int64, r *rig.Rng) {
		rom := rig.BlankROM(0, 0, 0)
		bb, cb := &bytes.Buffer{}, &bytes.Buffer{}
		b := rig.MustNew(rom, rig.Opts{SerialWriter: bb})
		a := rig.MustNew(rom, rig.Opts{SerialWriter: &failingWriter{after: r.Intn(4)}})
		cc := rig.MustNew(rom, rig.Opts{SerialWriter: cb})
		failed := false
		func() {
			defer func() {
				if recover() != nil {
					failed = true
				}
			}()
			for k := 0; k < 8; k++ {
				a.Mem.Write(0xff01, uint8(k))
			}
		}()
		if !failed {
			c.Note("failing-neighbour: the emulator no longer panics on a serial writer error; case not applicable")
			return
		}
		want := r.Bytes(64)
		done := make(chan struct{})
		go func() {
			for k, v := range want {
				if k%2 == 0 {
					b.Mem.Write(0xff01, v)
				} else {
					cc.Mem.Write(0xff01, v)
				}
			}
			close(done)
		}()
		select {
		case <-done:
		case <-time.After(30 * time.Second):
			c.Violate("neighbour-hangs-after-writer-failure", "after another instance's serial writer failed (and its owner recovered), 64 SB writes on two healthy instances had not completed within 30 s (they take microseconds)", nil)
			return
		}
		var wb, wc []byte
		for k, v := range want {
			if k%2 == 0 {
				wb = append(wb, v)
			} else {
				wc = append(wc, v)
			}
		}
		if !bytes.Equal(bb.Bytes(), wb) || !bytes.Equal(cb.Bytes(), wc) {
			c.Violate("neighbour-transcript-after-writer-failure", fmt.Sprintf("after another instance's serial writer failed: healthy instances delivered % X / % X, their guests wrote % X / % X", bb.Bytes(), cb.Bytes(), wb, wc), nil)
			return
		}
		c.Count("failing_neighbour_cases", 1)
		c.Exact(1)
	})
}
