package main

// One instance's host-side failure must stay its own: instance A's serial writer returns an
// error (the emulator's documented reaction is to panic, which A's owner recovers from);
// instances B and C, created before and after, must go on exactly as if alone - in
// particular their own serial output must still be delivered, and promptly.

import (
	"bytes"
	"context"
	"errors"
	"fmt"
	"os"
	"sync"
	"time"

	"github.com/go-gl/glfw/v3.1/glfw"
	"github.com/gordonklaus/portaudio"
	"github.com/scottyw/tetromino/gameboy"

	"verif/internal/emu"
	"verif/internal/prog"
	"verif/internal/rig"
)

type failingWriter struct{ after, n int }

func (w *failingWriter) Write(p []byte) (int, error) {
	w.n++
	if w.n > w.after {
		return 0, errors.New("host side: device gone")
	}
	return len(p), nil
}

func failingNeighbour(c *rig.Ctx) {
	c.Require("failing_neighbour_cases")
	c.Part("failing-neighbour", c.N(12, 120), func(i int64, r *rig.Rng) {
		rom := rig.BlankROM(0, 0, 0)
		bb, cb := &bytes.Buffer{}, &bytes.Buffer{}
		b := rig.MustNew(rom, rig.Opts{SerialWriter: bb})
		a := rig.MustNew(rom, rig.Opts{SerialWriter: &failingWriter{after: r.Intn(4)}})
		cc := rig.MustNew(rom, rig.Opts{SerialWriter: cb})
		failed := false
		func() {
			defer func() {
				if recover() != nil {
					failed = true
				}
			}()
			for k := 0; k < 8; k++ {
				a.Mem.Write(0xff01, uint8(k))
			}
		}()
		if !failed {
			c.Note("failing-neighbour: the emulator no longer panics on a serial writer error; case not applicable")
			return
		}
		want := r.Bytes(64)
		done := make(chan struct{})
		go func() {
			for k, v := range want {
				if k%2 == 0 {
					b.Mem.Write(0xff01, v)
				} else {
					cc.Mem.Write(0xff01, v)
				}
			}
			close(done)
		}()
		select {
		case <-done:
		case <-time.After(30 * time.Second):
			c.Violate("neighbour-hangs-after-writer-failure", "after another instance's serial writer failed (and its owner recovered), 64 SB writes on two healthy instances had not completed within 30 s (they take microseconds)", nil)
			return
		}
		var wb, wc []byte
		for k, v := range want {
			if k%2 == 0 {
				wb = append(wb, v)
			} else {
				wc = append(wc, v)
			}
		}
		if !bytes.Equal(bb.Bytes(), wb) || !bytes.Equal(cb.Bytes(), wc) {
			c.Violate("neighbour-transcript-after-writer-failure", fmt.Sprintf("after another instance's serial writer failed: healthy instances delivered % X / % X, their guests wrote % X / % X", bb.Bytes(), cb.Bytes(), wb, wc), nil)
			return
		}
		c.Count("failing_neighbour_cases", 1)
		c.Exact(1)
	})
}

// afterShutdown: an instance created after another one has been run and shut down (Run's
// deferred Cleanup, or Cleanup after a frame loop) must be what it would be in a fresh process:
// in particular its picture must not show anything of the earlier one (a program that switches
// the LCD off at once never draws over what its frame buffer held).
func afterShutdown(c *rig.Ctx) {
	c.Require("after_shutdown_cases")
	c.Part("after-shutdown", c.N(12, 96), func(i int64, r *rig.Rng) {
		quiet := prog.Generate(r, prog.Options{LCDOff: true, CartType: 0})
		if i%2 == 0 {
			quiet = prog.LCDOffLoop()
		}
		loud := prog.Sprites(r)
		pq, pl := emu.TempROM(quiet.ROM, "c25q"), emu.TempROM(loud.ROM, "c25l")
		defer os.Remove(pq)
		defer os.Remove(pl)
		video := i%4 >= 2
		okQ, _ := emu.Screen(emu.Scenario{ROM: quiet.ROM, Frames: 3})
		okL, _ := emu.Screen(emu.Scenario{ROM: loud.ROM, Frames: 6})
		if !okQ || !okL {
			c.Count("after_shutdown_programs_screened_out", 1)
			return
		}
		first := emu.Run(emu.Scenario{ROM: quiet.ROM, Frames: 2, Video: video}, pq)
		for k := 0; k < 1+int(i%3); k++ {
			emu.Run(emu.Scenario{ROM: loud.ROM, Frames: 2 + r.Intn(3), Video: k%2 == 0}, pl)
		}
		again := emu.Run(emu.Scenario{ROM: quiet.ROM, Frames: 2, Video: video}, pq)
		if d := emu.Diff(first, again); d != "" {
			c.Violate("instance-after-shutdown-differs", fmt.Sprintf("a program that switches the LCD off at once, run before and after other instances were run and shut down in the same process: %s", d), nil)
			return
		}
		c.Count("after_shutdown_cases", 1)
		c.Case(rig.Hash(uint64(i), quiet.Hash, loud.Hash))
	})
}

// audioPair: two instances with sound output enabled at the same time. Each must have its own
// output stream, and what its stream plays must be what it plays when it is the only instance.
func audioPair(c *rig.Ctx) {
	c.Require("audio_pair_cases")
	c.Part("audio-pair", c.N(8, 64), func(i int64, r *rig.Rng) {
		pa, pb := prog.Sound(r), prog.Sound(r)
		if i%2 == 1 {
			pb = prog.LCDOffLoop() // a silent neighbour
		}
		paths := []string{emu.TempROM(pa.ROM, "c25a"), emu.TempROM(pb.ROM, "c25b")}
		defer os.Remove(paths[0])
		defer os.Remove(paths[1])
		frames := 3 + r.Intn(3)
		run := func(which []int) map[int][]float32 {
			glfw.XReset()
			portaudio.XReset()
			var mu sync.Mutex
			rec := map[*portaudio.Stream][]float32{}
			portaudio.SinkS = func(s *portaudio.Stream, n int64, buf []float32) {
				mu.Lock()
				rec[s] = append(rec[s], buf...)
				mu.Unlock()
			}
			gbs := map[int]*gameboy.Gameboy{}
			streams := map[int]*portaudio.Stream{}
			for _, k := range which {
				gbs[k] = gameboy.New(gameboy.Config{RomFilename: paths[k], DisableVideoOutput: true})
				streams[k] = portaudio.XCurrent()
			}
			for f := 0; f < frames; f++ {
				for _, k := range which {
					gbs[k].XRunFrame(context.Background())
				}
			}
			for _, k := range which {
				gbs[k].Cleanup()
			}
			out := map[int][]float32{}
			mu.Lock()
			for _, k := range which {
				out[k] = append([]float32{}, rec[streams[k]]...)
			}
			mu.Unlock()
			if len(which) == 2 && streams[0] == streams[1] {
				out[-1] = nil // marker: one stream for two instances
			}
			return out
		}
		solo := run([]int{0})[0]
		pair := run([]int{0, 1})
		if _, shared := pair[-1]; shared {
			c.Violate("audio-stream-shared", "two instances with sound output enabled were given one output stream between them", nil)
			return
		}
		n := len(solo)
		if len(pair[0]) < n {
			n = len(pair[0])
		}
		n -= 1024 // what is still queued at shutdown depends on the consumer's timing
		if n < 2000 {
			c.Violate("audio-pair-too-short", fmt.Sprintf("only %d/%d floats delivered for the instance under comparison in %d frames", len(pair[0]), len(solo), frames), nil)
			return
		}
		for k := 0; k < n; k++ {
			if pair[0][k] != solo[k] {
				c.Violate("audio-pair-differs", fmt.Sprintf("instance A's output stream differs at float %d when instance B (sound on as well) runs beside it: %v, alone %v", k, pair[0][k], solo[k]), nil)
				return
			}
		}
		c.Count("audio_pair_cases", 1)
		c.Case(rig.Hash(pa.Hash, pb.Hash, uint64(frames)))
	})
}

// samePath: an instance is made from the file it is given at the time it is made. Another image
// of the same length is written to a path an earlier instance was loaded from (same name, same
// size, the modification time put back to what it was): the new instance must behave as it does
// when it is loaded from a path nobody has used before - whether the earlier instance is still
// alive or not.
func samePath(c *rig.Ctx) {
	c.Require("same_path_cases")
	c.Part("same-path", c.N(8, 48), func(i int64, r *rig.Rng) {
		pa := prog.Generate(r, prog.Options{Hardware: true, Serial: true, CartType: 0})
		pb := prog.Generate(r, prog.Options{Hardware: true, Interrupts: true, CartType: 0})
		if i%3 == 2 {
			pb = prog.Sprites(r)
		}
		n := 30000 + r.Intn(30000)
		okA, _ := emu.Screen(emu.Scenario{ROM: pa.ROM, Frames: 4})
		okB, _ := emu.Screen(emu.Scenario{ROM: pb.ROM, Frames: 4})
		if !okA || !okB || len(pa.ROM) != len(pb.ROM) {
			c.Count("same_path_programs_screened_out", 1)
			return
		}
		fresh := emu.TempROM(pb.ROM, "c25sf")
		defer os.Remove(fresh)
		want := solo(fresh, n)
		path := emu.TempROM(pa.ROM, "c25sp")
		defer os.Remove(path)
		st, err := os.Stat(path)
		if err != nil {
			panic(err)
		}
		earlier := newInst(path)
		for k := 0; k < 5000; k++ {
			earlier.step()
		}
		if err := os.WriteFile(path, pb.ROM, 0o644); err != nil {
			panic(err)
		}
		os.Chtimes(path, st.ModTime(), st.ModTime())
		got := solo(path, n)
		if i%2 == 0 {
			for k := 0; k < 1000; k++ {
				earlier.step() // (the earlier instance lives on meanwhile)
			}
		}
		if ok, at := equal(got, want); !ok {
			c.Violate("instance-from-a-reused-path", fmt.Sprintf("an instance loaded from a file whose contents were replaced (same name, length and modification time as when an earlier instance was loaded from it) differs at probe %d from the same image loaded from a fresh path: it does not run the image that is in the file", at), nil)
			return
		}
		c.Count("same_path_cases", 1)
		c.Case(rig.Hash(pa.Hash, pb.Hash, uint64(n)))
	})
}
