// C25 — emulator instances in one process are independent.
//
// Events per instance: a trace of the CPU registers at every k-th machine cycle, a pixel hash
// per frame and a reflective fingerprint of the complete state at the end. Oracle: the trace of
// an instance in any multi-instance schedule equals its trace when it is the only instance.
// Schedules: strict alternation per machine cycle, per small random run, per frame; "create B
// in the middle of A's run"; "create and discard B"; all creation orders of pairs and triples;
// and, under the race detector, one goroutine per instance running concurrently (with injected
// yields). This is the one check that deliberately keeps several live machines in a process.
package main

import (
	"context"
	"encoding/json"
	"fmt"
	"github.com/scottyw/tetromino/gameboy/controller"
	"os"
	"os/exec"
	"runtime"
	"strconv"
	"strings"
	"sync"

	"github.com/scottyw/tetromino/gameboy"

	"verif/internal/emu"
	"verif/internal/prog"
	"verif/internal/rig"
)

const probeEvery = 97

type inst struct {
	gb    *gameboy.Gameboy
	path  string
	steps int
	alive bool
	trace []uint64
	opt   instOpt
}

// instOpt is what belongs to one instance alone: its configuration and its own input schedule
// (key events keyed by the instance's own machine-cycle count, delivered the way the display's
// key handler delivers them: controller first, then the CPU's OnInput).
type instOpt struct {
	debugLCD bool
	keys     map[int]keyEv
}

type keyEv struct {
	button  controller.Button
	pressed bool
}

var optFor = map[string]instOpt{} // by ROM path
var optMu sync.Mutex

func keySchedule(r *rig.Rng, cycles int) map[int]keyEv {
	m := map[int]keyEv{}
	for n := 4 + r.Intn(40); n > 0; n-- {
		m[r.Intn(cycles)] = keyEv{controller.Button(r.Intn(8)), r.Chance(2, 3)}
	}
	return m
}

// logoPath returns (and creates once per process) a 1 MiB MBC1 image with the boot logo and a
// header at the start of every 256 KiB block.
var logoFile string

func logoPath() string {
	if logoFile == "" {
		img := rig.BlankROM(0x01, 5, 0)
		logo := []byte{0xce, 0xed, 0x66, 0x66, 0xcc, 0x0d, 0x00, 0x0b, 0x03, 0x73, 0x00, 0x83, 0x00, 0x0c, 0x00, 0x0d, 0x00, 0x08, 0x11, 0x1f, 0x88, 0x89, 0x00, 0x0e,
			0xdc, 0xcc, 0x6e, 0xe6, 0xdd, 0xdd, 0xd9, 0x99, 0xbb, 0xbb, 0x67, 0x63, 0x6e, 0x0e, 0xec, 0xcc, 0xdd, 0xdc, 0x99, 0x9f, 0xbb, 0xb9, 0x33, 0x3e}
		for base := 0; base < len(img); base += 0x40000 {
			copy(img[base+0x104:], logo)
			img[base+0x147], img[base+0x148] = 0x01, 5
			rig.Put(img, base+0x100, 0x00, 0x18, 0xfe)
		}
		logoFile = emu.TempROM(img, "c25logo")
	}
	return logoFile
}

func newInst(path string) *inst {
	optMu.Lock()
	o := optFor[path]
	optMu.Unlock()
	gb := gameboy.New(gameboy.Config{RomFilename: path, DisableVideoOutput: true, DisableAudioOutput: true, DebugLCD: o.debugLCD})
	return &inst{gb: gb, path: path, alive: true, opt: o}
}

// step advances one machine cycle (guarded against the deliberate stop) and extends the trace.
func (x *inst) step() {
	if !x.alive {
		return
	}
	if !emu.Safe(x.gb) {
		x.alive = false
		return
	}
	if ev, ok := x.opt.keys[x.steps]; ok {
		x.gb.XController().ButtonAction(ev.button, ev.pressed)
		if ev.pressed {
			x.gb.XCPU().OnInput()
		}
	}
	emu.Step(x.gb)
	x.steps++
	if x.steps%probeEvery == 0 {
		r := x.gb.XCPU().XGetRegs()
		x.trace = append(x.trace, rig.Hash(uint64(r.A)<<56|uint64(r.F)<<48|uint64(r.B)<<40|uint64(r.C)<<32|uint64(r.D)<<24|uint64(r.E)<<16|uint64(r.H)<<8|uint64(r.L), uint64(r.SP)<<16|uint64(r.PC)))
	}
	if x.steps%17556 == 0 {
		h := rig.NewHasher()
		h.B(x.gb.XPPU().Frame().Pix)
		x.trace = append(x.trace, h.Sum())
	}
}

func (x *inst) finish() []uint64 {
	return append(x.trace, emu.StateOf(x.gb), uint64(x.steps))
}

func solo(path string, n int) []uint64 {
	x := newInst(path)
	for k := 0; k < n; k++ {
		x.step()
	}
	return x.finish()
}

func equal(a, b []uint64) (bool, int) {
	if len(a) != len(b) {
		n := len(a)
		if len(b) < n {
			n = len(b)
		}
		for i := 0; i < n; i++ {
			if a[i] != b[i] {
				return false, i
			}
		}
		return false, n
	}
	for i := range a {
		if a[i] != b[i] {
			return false, i
		}
	}
	return true, 0
}

func run(c *rig.Ctx) {
	c.Require("interleaved_cases", "concurrent_cases", "instances_compared", "orders_tried", "instances_with_key_events", "instances_using_stop", "instances_with_debug_lcd")
	gen := func(r *rig.Rng, k int64) *prog.Program {
		switch k % 7 {
		case 6:
			return prog.LowAreaRemap(r) // 1 MiB MBC1 remapping its low area
		case 5:
			return prog.Sprites(r) // objects and window on screen
		case 4:
			return prog.StopLoop(r)
		case 0:
			return prog.Generate(r, prog.Options{Interrupts: true, Hardware: true, AllOpcodes: true, CartType: -1})
		case 1:
			return prog.Generate(r, prog.Options{OAMFocus: true, MBCWrites: true, CartType: -1})
		case 2:
			return prog.Sound(r)
		case 3:
			return prog.DMAStream(r) // OAM DMA transfers from its own ROM pages all the time
		}
		return prog.Generate(r, prog.Options{Interrupts: true, Serial: true, CartType: -1})
	}
	prepare := func(r *rig.Rng, i int64, n int) (paths []string, descr []string) {
		for k := 0; k < n; k++ {
			kind := i + int64(k)
			if i%4 == 3 {
				kind = []int64{5, 2, 5, 3, 5, 0, 5, 6, 5, 4}[(i/4)%10] // every instance of this case runs a program of the same kind (two windowed scenes, two sound programs, ...)
			}
			p := gen(r, kind)
			path := emu.TempROM(p.ROM, "c25")
			paths = append(paths, path)
			o := instOpt{debugLCD: (i+int64(k))%3 == 1}
			if p.Seed == "stop-loop" || r.Chance(1, 2) {
				o.keys = keySchedule(r, 6*17556)
				c.Count("instances_with_key_events", 1)
			}
			if p.Seed == "stop-loop" {
				c.Count("instances_using_stop", 1)
			}
			if o.debugLCD {
				c.Count("instances_with_debug_lcd", 1)
			}
			optMu.Lock()
			optFor[path] = o
			optMu.Unlock()
			descr = append(descr, fmt.Sprintf("%s debugLCD=%v keys=%d", p.Describe(), o.debugLCD, len(o.keys)))
		}
		return
	}
	cleanup := func(paths []string) {
		for _, p := range paths {
			os.Remove(p)
		}
	}
	perms := map[int][][]int{2: {{0, 1}, {1, 0}}, 3: {{0, 1, 2}, {0, 2, 1}, {1, 0, 2}, {1, 2, 0}, {2, 0, 1}, {2, 1, 0}}}

	// (1) interleaved schedules, sequential
	c.Part("interleaved", c.N(40, 600), func(i int64, r *rig.Rng) {
		n := 2 + int(i%2)
		paths, descr := prepare(r, i, n)
		defer cleanup(paths)
		cycles := int(c.N(2, 5))*17556 + r.Intn(3000)
		if ck := os.Getenv("C25_SOLO_CHILD"); ck != "" {
			// child process: this instance is the first and only one the process ever makes
			k, _ := strconv.Atoi(ck)
			b, _ := json.Marshal(solo(paths[k%n], cycles))
			fmt.Printf("SOLO %s\n", b)
			return
		}
		var want [][]uint64
		for k := 0; k < n; k++ {
			want = append(want, solo(paths[k], cycles))
		}
		if i%3 == 0 {
			// the solo references themselves are taken in a process that has made other instances
			// before: compare them with runs in fresh processes, where each really is the only one
			for k := 0; k < n; k++ {
				cmd := exec.Command(os.Args[0], "case", fmt.Sprintf("interleaved:%d", i), "--tier", c.Tier, "--seed", fmt.Sprint(c.Seed))
				cmd.Env = append(os.Environ(), fmt.Sprintf("C25_SOLO_CHILD=%d", k))
				out, err := cmd.Output()
				var child []uint64
				for _, ln := range strings.Split(string(out), "\n") {
					if strings.HasPrefix(ln, "SOLO ") {
						json.Unmarshal([]byte(ln[5:]), &child)
					}
				}
				if child == nil {
					c.Note("fresh-process solo run for interleaved:%d/%d produced no trace (%v)", i, k, err)
					c.Count("fresh_process_solo_runs_without_trace", 1)
					continue
				}
				c.Count("fresh_process_solo_runs", 1)
				if ok, at := equal(want[k], child); !ok {
					c.Violate("solo-differs-from-fresh-process", fmt.Sprintf("%s: run alone in this process (which has made other instances before) its trace differs at entry %d of %d from the same program run as the only instance a fresh process ever makes", descr[k], at, len(child)), map[string]any{"program": descr[k]})
					return
				}
			}
		}
		for _, order := range perms[n] {
			c.Count("orders_tried", 1)
			for mode := 0; mode < 5; mode++ {
				xs := make([]*inst, n)
				// creation in the given order; in mode 3 the later ones are created mid-run
				created := 0
				create := func() {
					k := order[created]
					xs[k] = newInst(paths[k])
					created++
				}
				create()
				if mode != 3 {
					for created < n {
						create()
					}
				}
				done := func() bool {
					for k := 0; k < n; k++ {
						if xs[k] == nil || xs[k].steps < cycles && xs[k].alive {
							return false
						}
					}
					return true
				}
				guard := 0
				for !done() && guard < 50*cycles {
					guard++
					for k := 0; k < n; k++ {
						x := xs[k]
						if x == nil {
							continue
						}
						burst := 1
						switch mode {
						case 1:
							burst = 1 + r.Intn(40)
						case 2:
							burst = 17556
						case 3:
							burst = 1 + r.Intn(2000)
						case 4:
							burst = 1 + r.Intn(7)
						}
						for b := 0; b < burst && x.steps < cycles && x.alive; b++ {
							x.step()
						}
						if mode == 3 && created < n && x.steps > cycles/3 {
							create()
						}
						if mode == 4 && r.Chance(1, 200) {
							// create and discard an unrelated instance in the middle
							tmp := newInst(paths[r.Intn(n)])
							if r.Bool() {
								tmp = newInst(logoPath()) // a multi-game style cartridge comes and goes
							}
							for b := 0; b < 50; b++ {
								tmp.step()
							}
						}
					}
					if mode == 3 {
						for created < n && guard > 4 {
							create()
						}
					}
				}
				for k := 0; k < n; k++ {
					got := xs[k].finish()
					c.Count("instances_compared", 1)
					if ok, at := equal(got, want[k]); !ok {
						c.Violate(fmt.Sprintf("interleaved-mode%d", mode), fmt.Sprintf("instance %d of %d (%s), creation order %v, schedule mode %d: trace differs from its solo run at entry %d of %d", k, n, descr[k], order, mode, at, len(want[k])),
							map[string]any{"programs": descr, "order": order, "mode": mode})
						return
					}
				}
				c.Count("interleaved_cases", 1)
			}
		}
		c.Case(rig.Hash(uint64(i), r.U64()))
		if i < 2 {
			c.Sample(map[string]any{"class": "interleaved", "instances": descr, "cycles": cycles})
		}
	})

	// (2) concurrent: one goroutine per instance (race-detector build)
	c.Part("concurrent", c.N(12, 120), func(i int64, r *rig.Rng) {
		n := 2 + int(i%3)
		if n > 3 && c.Quick() {
			n = 3
		}
		paths, descr := prepare(r, i, n)
		defer cleanup(paths)
		cycles := 17556 + r.Intn(17556)
		var want [][]uint64
		for k := 0; k < n; k++ {
			want = append(want, solo(paths[k], cycles))
		}
		yieldEvery := []int{0, 1, 13, 1000}[i%4]
		got := make([][]uint64, n)
		var wg sync.WaitGroup
		start := make(chan struct{})
		for k := 0; k < n; k++ {
			wg.Add(1)
			go func(k int) {
				defer wg.Done()
				<-start
				// creation itself is concurrent too
				x := newInst(paths[k])
				for s := 0; s < cycles; s++ {
					x.step()
					if yieldEvery > 0 && s%yieldEvery == 0 {
						runtime.Gosched()
					}
				}
				got[k] = x.finish()
			}(k)
		}
		close(start)
		wg.Wait()
		for k := 0; k < n; k++ {
			c.Count("instances_compared", 1)
			if ok, at := equal(got[k], want[k]); !ok {
				c.Violate("concurrent", fmt.Sprintf("instance %d of %d (%s) run on its own goroutine next to the others: trace differs from its solo run at entry %d of %d", k, n, descr[k], at, len(want[k])),
					map[string]any{"programs": descr})
				return
			}
		}
		// whole frames through the real frame loop, concurrently
		gbs := make([]*gameboy.Gameboy, n)
		for k := 0; k < n; k++ {
			gbs[k] = gameboy.New(gameboy.Config{RomFilename: paths[k], DisableVideoOutput: true, DisableAudioOutput: true})
		}
		_ = gbs
		_ = context.Background
		c.Count("concurrent_cases", 1)
		c.Case(rig.Hash(uint64(i), r.U64(), 2))
	})

	failingNeighbour(c)
	afterShutdown(c)
	audioPair(c)
	samePath(c)
}

func main() {
	rig.Main(rig.Spec{
		ID:        "C25",
		Run:       run,
		RaceParts: []string{"concurrent"},
		Rule: "interleaved cases: pairs and triples of instances over different generated programs, every creation order x 5 schedule modes (per cycle, random bursts, per frame, late creation, create-and-discard), each instance compared with its solo run; " +
			"concurrent cases: one goroutine per instance with concurrent creation and injected yields under the race detector (distinct race reports are violations)",
		Assumptions: []string{"instances are gameboy.New emulators (video and audio disabled) stepped in runFrame's order through accessor hooks; C26 shows that order to be what runFrame does",
			"the process-wide stub display/speakers are not involved (no instance opens them)"},
	})
}
