// C26 — the frame loop steps every component once per machine cycle and stops on request.
//
// Oracle A (frame = 17 556 cycles, each component once per cycle, CPU first, timer interrupt
// wired). Twin differential: emulator X is advanced by the real runFrame (hook XRunFrame) and
// its state fingerprinted after every frame; its twin Y (same ROM, created afterwards) is
// advanced by 17 556 steps of the documented order (CPU, video, memory, audio, timer ->
// interrupt request); fingerprints must be equal after every frame. Programs write DIV, LCDC,
// FF46, NR52 and timer registers at arbitrary cycles, so a different order or count changes the
// state. Direct per-component progress is asserted too: DIV counter, LCD position, RTC
// sub-second count, APU clock, DMA completion, CPU cycles (NOP sled), timer overflow -> IF.
//
// Oracle B (stop), against the fake display and speakers, under the race detector: a close
// request during frame n makes Run return after frame n; a context cancelled inside the frame-n
// poll callback allows at most one further frame; cancellation from another goroutine allows at
// most two frames to complete after cancel() returned; afterwards the display was terminated
// and the audio stream closed and terminated exactly once each.
package main

import (
	"context"
	"fmt"
	"os"
	"os/exec"
	"runtime"
	"strings"
	"sync"
	"sync/atomic"
	"time"

	"github.com/go-gl/gl/v2.1/gl"
	"github.com/go-gl/glfw/v3.1/glfw"
	"github.com/gordonklaus/portaudio"
	"github.com/scottyw/tetromino/gameboy"

	"verif/internal/emu"
	"verif/internal/prog"
	"verif/internal/rig"
)

const frameCycles = 17556

func cfgQuiet(path string) gameboy.Config {
	return gameboy.Config{RomFilename: path, DisableVideoOutput: true, DisableAudioOutput: true}
}

// twinHung: a frame of the twin part never returned in this process (its goroutine still spins)
var twinHung bool

func run(c *rig.Ctx) {
	c.Require("twin_frames", "progress_cases", "timer_irq_cases", "stop_close_cases", "stop_cancel_in_poll_cases", "stop_cancel_other_goroutine_cases", "stop_cases_lcd_off", "timer_overflows_in_last_cycles_of_frame", "timer_irq_phase_cases_with_overflow", "stop_cases_deadline_context", "stop_cases_parent_context", "stop_cases_context_over_before_run")

	// A1: twin differential
	c.Part("twin", c.N(60, 1200), func(i int64, r *rig.Rng) {
		var p *prog.Program
		switch i % 3 {
		case 0:
			p = prog.Generate(r, prog.Options{Interrupts: true, Hardware: true, AllOpcodes: true, CartType: -1})
		case 1:
			p = prog.Generate(r, prog.Options{Interrupts: true, Hardware: true, Serial: true, MBCWrites: true, CartType: 0x13})
		default:
			p = prog.Sound(r)
		}
		if i%4 == 3 {
			// the guest sits in STOP mode for most of the time (no key is pressed): every
			// component but the CPU still advances once per machine cycle
			p = prog.StopLoop(r)
			c.Count("twin_stop_programs", 1)
		}
		frames := 3 + r.Intn(4)
		if ok, _ := emu.Screen(emu.Scenario{ROM: p.ROM, Frames: frames}); !ok {
			c.Count("twin_programs_skipped", 1)
			return
		}
		path := emu.TempROM(p.ROM, "c26")
		defer os.Remove(path)
		// the documented stepping first (it ends by construction), timed
		y := gameboy.New(cfgQuiet(path))
		var fys []uint64
		t0 := time.Now()
		for f := 0; f < frames; f++ {
			for k := 0; k < frameCycles; k++ {
				emu.Step(y)
			}
			fys = append(fys, emu.StateOf(y))
		}
		perFrame := time.Since(t0) / time.Duration(frames)
		if twinHung {
			return // a frame that never ended is still spinning in this process
		}
		x := gameboy.New(cfgQuiet(path))
		var fx []uint64
		for f := 0; f < frames; f++ {
			done := make(chan struct{})
			go func() { x.XRunFrame(context.Background()); close(done) }()
			select {
			case <-done:
			case <-time.After(20*time.Second + 500*perFrame):
				twinHung = true
				c.Violate("frame-does-not-end", fmt.Sprintf("%s: frame %d had not ended after 20 s plus 500 times the time the same 17556 machine cycles took when stepped in the documented order (%v)", p.Describe(), f+1, perFrame),
					map[string]any{"program": p.Describe(), "frame": f + 1})
				return
			}
			fx = append(fx, emu.StateOf(x))
		}
		for f := 0; f < frames; f++ {
			fy := fys[f]
			if fy != fx[f] {
				y = gameboy.New(cfgQuiet(path))
				for g := 0; g <= f; g++ {
					for k := 0; k < frameCycles; k++ {
						emu.Step(y)
					}
				}
				// which component differs?
				which := ""
				x2 := gameboy.New(cfgQuiet(path))
				for g := 0; g <= f; g++ {
					x2.XRunFrame(context.Background())
				}
				for _, cmp := range []struct {
					n    string
					a, b any
				}{{"cpu", x2.XCPU(), y.XCPU()}, {"memory", x2.XMapper(), y.XMapper()}, {"video", x2.XPPU(), y.XPPU()}, {"timer", x2.XTimer(), y.XTimer()}, {"audio", x2.XAudio(), y.XAudio()}, {"interrupts", x2.XInterrupts(), y.XInterrupts()}} {
					if emu.Fingerprint(cmp.a) != emu.Fingerprint(cmp.b) {
						which += cmp.n + " "
					}
				}
				c.Violate("frame-differs-from-documented-stepping", fmt.Sprintf("%s: after frame %d the state reached by runFrame differs from 17556 steps in the documented order (differing components: %s)", p.Describe(), f+1, which),
					map[string]any{"program": p.Describe(), "frame": f + 1})
				return
			}
			c.Count("twin_frames", 1)
		}
		c.Eval(int64(frames))
		c.DistinctOnly(p.Hash)
		if i < 2 {
			c.Sample(map[string]any{"class": "twin", "program": p.Describe(), "frames": frames})
		}
	})

	// A2: direct per-component progress over one runFrame
	c.Part("progress", c.N(24, 400), func(i int64, r *rig.Rng) {
		// NOP sled on an MBC3+TIMER cartridge (RTC ticking)
		rom := rig.BlankROM(0x10, 1, 3)
		path := emu.TempROM(rom, "c26p")
		defer os.Remove(path)
		gb := gameboy.New(cfgQuiet(path))
		// random phase: some frames first, then start the measurement from a random state
		pre := r.Intn(3)
		for f := 0; f < pre; f++ {
			gb.XRunFrame(context.Background())
		}
		m := gb.XMapper()
		// keep the CPU in a NOP sled that cannot run out: set PC back to 0x0150
		// (the header's cartridge-type byte 0x10 at 0147 is a STOP when executed: clear that)
		gb.XCPU().XResetToBoundary()
		regs := gb.XCPU().XGetRegs()
		regs.PC = 0x0150
		gb.XCPU().XSetRegs(regs)
		gb.XInterrupts().Disable()
		src := uint8(0xc0 + r.Intn(0x20))
		var want [160]byte
		for k := 0; k < 160; k++ {
			want[k] = r.U8()
			m.Write(uint16(src)<<8+uint16(k), want[k])
		}
		m.Write(0xff46, src) // DMA must be complete after one frame
		div0 := gb.XTimer().XCounter()
		lcd0 := gb.XPPU().XTicks()
		rtc0 := m.XRTC().Ticks
		apu0 := gb.XAudio().XWaveState().Ticks
		pc0 := gb.XCPU().XGetRegs().PC
		gb.XRunFrame(context.Background())
		fail := func(what, msg string) {
			c.Violate("progress-"+what, msg, nil)
		}
		if d := gb.XTimer().XCounter() - div0; d != uint16((4*frameCycles)&0xffff) {
			fail("timer", fmt.Sprintf("DIV counter advanced %d in one frame, expected %d (4 x 17556 mod 65536)", d, uint16((4*frameCycles)&0xffff)))
		}
		if pre > 0 {
			if t := gb.XPPU().XTicks(); t != lcd0 {
				fail("video", fmt.Sprintf("LCD position went from cycle %d to %d of the frame over one runFrame (must be the same position)", lcd0, t))
			}
		}
		if d := (m.XRTC().Ticks - rtc0 + 1048576) % 1048576; d != frameCycles {
			fail("clock", fmt.Sprintf("RTC sub-second count advanced %d in one frame, expected 17556", d))
		}
		if d := gb.XAudio().XWaveState().Ticks - apu0; d != 4*frameCycles {
			fail("audio", fmt.Sprintf("APU clock advanced %d in one frame, expected %d", d, 4*frameCycles))
		}
		if d := gb.XCPU().XGetRegs().PC - pc0; d != frameCycles {
			fail("cpu", fmt.Sprintf("PC advanced %d through a NOP sled in one frame, expected 17556", d))
		}
		snap := gb.XCPU().XAtBoundary()
		_ = snap
		run, _ := oamDMA(gb)
		if run {
			fail("dma", "an OAM DMA started before the frame is still running after it")
		} else {
			got := oamSnap(gb)
			for k := 0; k < 160; k++ {
				if got[k] != want[k] {
					fail("dma", fmt.Sprintf("OAM[%d]=%02X after the frame, the DMA source held %02X", k, got[k], want[k]))
					break
				}
			}
		}
		c.Count("progress_cases", 1)
		c.Case(rig.Hash(uint64(i), r.U64()))
	})

	// A3: a timer overflow inside runFrame raises the timer interrupt request
	c.Part("timerirq", c.N(16, 200), func(i int64, r *rig.Rng) {
		rom := rig.BlankROM(0, 0, 0)
		path := emu.TempROM(rom, "c26t")
		defer os.Remove(path)
		gb := gameboy.New(cfgQuiet(path))
		m := gb.XMapper()
		gb.XInterrupts().Disable()
		m.Write(0xffff, 0x00)
		m.Write(0xff0f, 0x00)
		tac := uint8(4 + r.Intn(4))
		m.Write(0xff06, r.U8())
		m.Write(0xff05, 0xf0|r.U8())
		m.Write(0xff07, tac)
		gb.XRunFrame(context.Background())
		// 17556 cycles: the slowest rate increments every 256 cycles -> at least 68 increments, TIMA >= F0 overflows
		if m.Read(0xff0f)&0x04 == 0 {
			c.Violate("timer-irq-not-wired", fmt.Sprintf("TAC=%02X, TIMA started at F0+: after one runFrame IF=%02X has no timer request", tac, m.Read(0xff0f)), nil)
		}
		c.Count("timer_irq_cases", 1)
		c.Case(rig.Hash(uint64(i), uint64(tac)))
	})

	// A3b: the same at every phase of the frame's end: one overflow per frame, placed by the
	// divider's starting value on every machine cycle of the last 256 (and so also on the very
	// last one); the request must be there when the frame is over, exactly as when the same
	// machine is stepped cycle by cycle in the documented order
	c.Part("timerirq-phase", 256, func(i int64, r *rig.Rng) {
		rom := rig.BlankROM(0, 0, 0)
		path := emu.TempROM(rom, "c26p")
		defer os.Remove(path)
		setup := func() *gameboy.Gameboy {
			gb := gameboy.New(cfgQuiet(path))
			m := gb.XMapper()
			gb.XInterrupts().Disable()
			m.Write(0xffff, 0x00)
			m.Write(0xff06, 0x80)
			m.Write(0xff05, 187)
			m.Write(0xff07, 0x04)
			gb.XTimer().XSetCounter(uint16(i * 4))
			m.Write(0xff0f, 0x00)
			return gb
		}
		a, b := setup(), setup()
		a.XRunFrame(context.Background())
		at := -1
		for k := 1; k <= 17556; k++ {
			emu.Step(b)
			if at < 0 && b.XMapper().Read(0xff0f)&0x04 != 0 {
				at = k
			}
		}
		ga, gb2 := a.XMapper().Read(0xff0f)&0x04 != 0, at >= 0
		if ga != gb2 {
			c.Violate("timer-irq-lost-at-frame-phase", fmt.Sprintf("divider starting at %04X, TIMA=BB, TAC=04: stepping cycle by cycle raises the timer request in machine cycle %d of the frame; after runFrame the request is present=%v", i*4, at, ga), nil)
		}
		if at >= 17553 {
			c.Count("timer_overflows_in_last_cycles_of_frame", 1)
		}
		if gb2 {
			c.Count("timer_irq_phase_cases_with_overflow", 1)
		}
		c.Count("timer_irq_cases", 1)
		c.Exact(1)
	})

	// B: stopping
	c.Part("stop", c.N(36, 400), func(i int64, r *rig.Rng) {
		if os.Getenv("C26_CHILD") == "" && i%3 == 1 && (i/3)%3 != 2 {
			// the same case once more in a process of its own that has a single processor to run
			// on (GOMAXPROCS=1): a cancel issued from the emulator's own goroutine must stop the
			// loop without any help from other goroutines getting processor time
			// (the plain build, not the race-detector one: its frames are fast enough for several
			// to pass between two forced preemptions)
			cmd := exec.Command(strings.TrimSuffix(os.Args[0], "-race"), "case", fmt.Sprintf("stop:%d", i), "--tier", c.Tier, "--seed", fmt.Sprint(c.Seed))
			cmd.Env = append(os.Environ(), "C26_CHILD=1", "GOMAXPROCS=1")
			out, _ := cmd.CombinedOutput()
			c.Count("stop_cases_repeated_on_one_processor", 1)
			for _, ln := range strings.Split(string(out), "\n") {
				if strings.Contains(ln, "violation class=") {
					c.Violate("stop-on-one-processor", fmt.Sprintf("stop case %d repeated in a process with GOMAXPROCS=1: %s", i, strings.TrimSpace(ln)), nil)
					return
				}
			}
		}
		if os.Getenv("C26_CHILD") != "" {
			defer runtime.GOMAXPROCS(runtime.GOMAXPROCS(1))
		}
		p := prog.Sound(r)
		lcdOff := (i/3)%2 == 1
		if lcdOff {
			// the guest has switched the LCD off: stopping must not depend on the LCD
			p = prog.LCDOffLoop()
			c.Count("stop_cases_lcd_off", 1)
		}
		path := emu.TempROM(p.ROM, "c26s")
		defer os.Remove(path)
		mode := int(i % 3)
		n := 2 + r.Intn(6)
		audio := i%2 == 0
		glfw.XReset()
		gl.XReset()
		portaudio.XReset()
		portaudio.Sink = func(int64, []float32) {}
		// how the context ends: cancelled, ended by a deadline (Err() = DeadlineExceeded), or
		// through its parent
		ctx, cancel := context.WithCancel(context.Background())
		switch (i / 6) % 3 {
		case 1:
			mc := &manualCtx{done: make(chan struct{})}
			ctx, cancel = mc, mc.expire
			c.Count("stop_cases_deadline_context", 1)
		case 2:
			parent, pcancel := context.WithCancel(context.Background())
			child, ccancel := context.WithTimeout(parent, 24*time.Hour)
			defer ccancel()
			ctx, cancel = child, pcancel
			c.Count("stop_cases_parent_context", 1)
		}
		defer cancel()
		var framesAtCancel int64 = -1
		var cancelled int32
		var wg sync.WaitGroup
		kick := make(chan struct{}, 1)
		yields := r.Intn(4000)
		if mode == 2 {
			wg.Add(1)
			go func() {
				defer wg.Done()
				<-kick
				for k := 0; k < yields; k++ {
					runtime.Gosched()
				}
				cancel()
				atomic.StoreInt64(&framesAtCancel, atomic.LoadInt64(&glfw.PollCalls))
				atomic.StoreInt32(&cancelled, 1)
			}()
		}
		var extra int64
		glfw.OnPoll = func(w *glfw.Window, k int64) {
			switch mode {
			case 0:
				if int(k) == n && !lcdOff {
					w.SetShouldClose(true)
					atomic.StoreInt32(&cancelled, 1)
				}
			case 1:
				if int(k) == n {
					cancel()
					atomic.StoreInt64(&framesAtCancel, k)
					atomic.StoreInt32(&cancelled, 1)
				}
			case 2:
				if int(k) == n {
					select {
					case kick <- struct{}{}:
					default:
					}
				}
			}
			// watchdog in logical time: a Run that ignores the request is stopped by the
			// display closing a few frames later (or, failing that, by a panic)
			if atomic.LoadInt32(&cancelled) == 1 {
				extra++
				if extra > 5 {
					w.SetShouldClose(true)
				}
				if extra > 40 {
					panic("C26 watchdog: Run ignores both the cancelled context and the close request")
				}
			}
			if k > 400 {
				panic("C26 watchdog: runaway")
			}
		}
		// Logical-time watchdog that does not depend on the display being polled: the programs
		// write a serial byte at least every ~1100 machine cycles; if far more bytes arrive after
		// the stop request than 40 frames can produce, Run is not going to stop.
		perFrame := int64(700)
		if lcdOff {
			perFrame = 20
		}
		wd := &byteWatchdog{requested: &cancelled, closeByByte: mode == 0 && lcdOff, win: glfw.XCurrent, polls: &glfw.PollCalls, n: int64(n), perFrame: perFrame}
		gb := gameboy.New(gameboy.Config{RomFilename: path, DisableAudioOutput: !audio, SerialWriter: wd})
		counter0 := gb.XTimer().XCounter()
		// the context may be over before Run is even called: Run must still return at once
		// (at most one frame) and release what New acquired
		pre := mode == 1 && (i/3)%4 == 3
		if pre {
			cancel()
			atomic.StoreInt32(&cancelled, 1)
			c.Count("stop_cases_context_over_before_run", 1)
		}
		var runPanic any
		func() {
			defer func() { runPanic = recover() }()
			gb.Run(ctx)
		}()
		// release the cancelling goroutine if its cue never came (Run ended some other way)
		select {
		case kick <- struct{}{}:
		default:
		}
		wg.Wait()
		polls := atomic.LoadInt64(&glfw.PollCalls)
		descr := fmt.Sprintf("mode %d (0 close request, 1 cancel inside poll, 2 cancel from another goroutine after %d yields), request at frame %d, audio=%v, guest switched the LCD off=%v", mode, yields, n, audio, lcdOff)
		if runPanic != nil {
			cls := "run-panics-while-stopping"
			if s, ok := runPanic.(string); ok && len(s) > 12 && s[:12] == "C26 watchdog" {
				cls = "run-does-not-stop"
			}
			c.Violate(cls, fmt.Sprintf("%s: %v (frames rendered: %d)", descr, runPanic, polls), nil)
			return
		}
		switch mode {
		case 0:
			if lcdOff {
				if polls > wd.pollsAtReq+2 {
					c.Violate("run-continues-after-close-request", fmt.Sprintf("%s: the close request was made when %d frames had been rendered, Run went on to %d", descr, wd.pollsAtReq, polls), nil)
				}
			} else if polls != int64(n) {
				c.Violate("run-continues-after-close-request", fmt.Sprintf("%s: %d frames were rendered, the display asked to close during frame %d", descr, polls, n), nil)
			}
			c.Count("stop_close_cases", 1)
		case 1:
			if pre && polls > 1 {
				c.Violate("run-continues-after-cancel", fmt.Sprintf("%s: the context was over before Run was called, yet %d frames were rendered", descr, polls), nil)
			}
			if polls > int64(n)+1 {
				c.Violate("run-continues-after-cancel", fmt.Sprintf("%s: %d frames were rendered, the context was cancelled during frame %d (at most one further frame allowed)", descr, polls, n), nil)
			}
			c.Count("stop_cancel_in_poll_cases", 1)
		case 2:
			at := atomic.LoadInt64(&framesAtCancel)
			if at >= 0 && polls > at+2 {
				c.Violate("run-continues-after-cancel", fmt.Sprintf("%s: cancel() returned when %d frames had been rendered, Run went on to %d (at most the frame in flight and one further frame allowed)", descr, at, polls), nil)
			}
			c.Count("stop_cancel_other_goroutine_cases", 1)
			c.Count(fmt.Sprintf("frames_after_cancel_%d", polls-at), 1)
		}
		// whole frames only: the divider (which these programs never write) has advanced by
		// exactly 17 556 machine cycles per frame rendered, however the run was stopped
		if !lcdOff {
			want := uint16(uint32(counter0) + uint32(polls%16384)*70224)
			if got := gb.XTimer().XCounter(); got != want {
				c.Violate("run-ends-in-mid-frame", fmt.Sprintf("%s: %d frames were rendered, the divider counter stands at %04X, %d whole frames from its start value %04X give %04X", descr, polls, got, polls, counter0, want), nil)
			}
			c.Count("stop_cases_whole_frames_checked", 1)
		}
		if glfw.TermCalls != 1 {
			c.Violate("display-not-released-once", fmt.Sprintf("%s: glfw.Terminate called %d times", descr, glfw.TermCalls), nil)
		}
		if audio && (portaudio.CloseCalls != 1 || portaudio.TermCalls != 1) {
			c.Violate("speakers-not-released-once", fmt.Sprintf("%s: stream Close called %d times, portaudio.Terminate %d times", descr, portaudio.CloseCalls, portaudio.TermCalls), nil)
		}
		if !audio && portaudio.OpenCalls != 0 {
			c.Violate("speakers-opened-although-disabled", descr, nil)
		}
		c.Case(rig.Hash(uint64(i), uint64(mode), uint64(n), uint64(yields)))
	})
}

// byteWatchdog counts serial bytes as a logical clock (it runs on the emulator's goroutine).
type byteWatchdog struct {
	requested   *int32
	closeByByte bool // make the close request here (after about n frames) instead of in a poll callback
	win         func() *glfw.Window
	polls       *int64
	n           int64
	perFrame    int64 // upper bound on bytes per frame for this program
	total       int64
	since       int64
	pollsAtReq  int64
}

func (w *byteWatchdog) Write(p []byte) (int, error) {
	w.total += int64(len(p))
	if w.closeByByte && atomic.LoadInt32(w.requested) == 0 && w.total >= w.n*w.perFrame/2 {
		if win := w.win(); win != nil {
			win.SetShouldClose(true)
			w.pollsAtReq = atomic.LoadInt64(w.polls)
			atomic.StoreInt32(w.requested, 1)
		}
	}
	if atomic.LoadInt32(w.requested) == 1 {
		w.since += int64(len(p))
	}
	if w.since > 40*w.perFrame || w.total > 600*w.perFrame {
		panic("C26 watchdog: Run keeps executing frames long after the stop request (serial-byte clock)")
	}
	return len(p), nil
}

// manualCtx is a context that ends the way a deadline ends one (Done closed, Err() =
// context.DeadlineExceeded), but at a moment the harness chooses.
type manualCtx struct {
	mu   sync.Mutex
	done chan struct{}
	err  error
}

func (m *manualCtx) Deadline() (time.Time, bool) { return time.Time{}, false }
func (m *manualCtx) Done() <-chan struct{}       { return m.done }
func (m *manualCtx) Value(any) any               { return nil }
func (m *manualCtx) Err() error {
	m.mu.Lock()
	defer m.mu.Unlock()
	return m.err
}
func (m *manualCtx) expire() {
	m.mu.Lock()
	defer m.mu.Unlock()
	if m.err == nil {
		m.err = context.DeadlineExceeded
		close(m.done)
	}
}

func main() {
	rig.Main(rig.Spec{
		ID:        "C26",
		Run:       run,
		RaceParts: []string{"stop"},
		Rule: "twin cases: a generated program advanced by runFrame vs by 17556 documented-order steps, fingerprints compared after every frame; progress cases: per-component counters over one runFrame from random phases; " +
			"stop cases: close request / cancel inside the poll callback / cancel from another goroutine after a random number of yields, at a random frame, with and without audio, counted in frames by the fake display",
		Assumptions: []string{"the documented order is CPU, video, memory (DMA and clock), audio, timer -> interrupt request", "time is counted in frames rendered by the fake display, never by a wall clock",
			"programs that would reach an undefined opcode are screened out on the component rig"},
	})
}
