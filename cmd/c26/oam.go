package main

import "github.com/scottyw/tetromino/gameboy"

// The OAM object is reachable through the mapper only via reads; the DMA state and contents
// are observed through the mapper's public reads with the LCD state taken into account.
func oamDMA(gb *gameboy.Gameboy) (bool, uint16) {
	// while a transfer runs every FE00-FEFF read returns FF, including the unused tail which
	// otherwise reads 00
	return gb.XMapper().Read(0xfea0) == 0xff, 0
}

func oamSnap(gb *gameboy.Gameboy) [160]byte {
	var s [160]byte
	for k := range s {
		s[k] = gb.XMapper().Read(0xfe00 + uint16(k))
	}
	return s
}
