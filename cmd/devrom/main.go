// devrom: development tool — runs every bundled ROM (optionally under the lock-step follower)
// and prints verdict and cycle count. Not a registered check.
package main

import (
	"fmt"
	"os"
	"strings"
	"sync"
	"time"

	"verif/internal/lockstep"
	"verif/internal/romrun"
)

func main() {
	follow := len(os.Args) > 1 && os.Args[1] == "follow"
	filter := ""
	if len(os.Args) > 2 {
		filter = os.Args[2]
	}
	roms := romrun.List()
	// one live CPU per process until C25 is repaired: run sequentially unless FORK
	var mu sync.Mutex
	_ = mu
	for _, r := range roms {
		if filter != "" && !strings.Contains(r.Rel, filter) {
			continue
		}
		t0 := time.Now()
		m, buf, err := romrun.Load(r)
		if err != nil {
			fmt.Printf("%-90s load-error %v\n", r.Rel, err)
			continue
		}
		var out romrun.Outcome
		nviol := 0
		if follow {
			f := lockstep.New(m)
			f.MemEvery = 64
			seen := map[string]int{}
			f.Violate = func(prop, class, msg string) {
				nviol++
				seen[prop+"/"+class]++
				if seen[prop+"/"+class] <= 2 {
					fmt.Printf("    %s %s: %s\n", prop, class, msg)
				}
			}
			func() {
				defer func() {
					if x := recover(); x != nil {
						out = romrun.Outcome{Verdict: fmt.Sprintf("panic: %v", x)}
					}
				}()
				out = romrun.Run(r, m, buf, f.Cycle)
			}()
			fmt.Printf("%-90s %-8s %9d cyc  instr=%d disp=%d idle=%d wakes=%d partial=%d resync=%d viol=%d ended=%q %.1fs\n", r.Rel, out.Verdict, out.Cycles,
				f.Instrs, f.Dispatches, f.IdleCycles, f.Wakes, f.Partials, f.Resyncs, nviol, f.Ended, time.Since(t0).Seconds())
		} else {
			func() {
				defer func() {
					if x := recover(); x != nil {
						out = romrun.Outcome{Verdict: fmt.Sprintf("panic: %v", x)}
					}
				}()
				out = romrun.Run(r, m, buf, func() bool {
					if m.CPU.XAtBoundary() && !m.CPU.XHalted() && romrunUndefined(m.PeekOpcode()) {
						return false
					}
					m.Step()
					return true
				})
			}()
			fmt.Printf("%-90s %-8s %9d cyc %.1fs\n", r.Rel, out.Verdict, out.Cycles, time.Since(t0).Seconds())
		}
	}
}

func romrunUndefined(op uint8) bool {
	switch op {
	case 0xd3, 0xdb, 0xdd, 0xe3, 0xe4, 0xeb, 0xec, 0xed, 0xf4, 0xfc, 0xfd:
		return true
	}
	return false
}
