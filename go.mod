module verif

go 1.23

require (
	github.com/scottyw/tetromino v0.0.0
)

replace github.com/scottyw/tetromino => /repo

replace github.com/go-gl/glfw => ./stubs/glfw

replace github.com/go-gl/gl => ./stubs/gl

replace github.com/gordonklaus/portaudio => ./stubs/portaudio
