module verif

go 1.23

require (
	github.com/go-gl/glfw v0.0.0-20200222043503-6f7a984d4dc4
	github.com/gordonklaus/portaudio v0.0.0-20180817120803-00e7307ccd93
	github.com/scottyw/tetromino v0.0.0
)

require github.com/go-gl/gl v0.0.0-20190320180904-bf2b1f2f34d7

replace github.com/scottyw/tetromino => /repo

replace github.com/go-gl/glfw => ./stubs/glfw

replace github.com/go-gl/gl => ./stubs/gl

replace github.com/gordonklaus/portaudio => ./stubs/portaudio
