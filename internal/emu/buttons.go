package emu

import "github.com/scottyw/tetromino/gameboy/controller"

func controllerButton(i int) controller.Button { return controller.Button(i) }
