package emu

import (
	"bytes"
	"context"
	"fmt"
	"hash/fnv"
	"math"
	"os"
	"path/filepath"
	"sync"
	"time"

	"github.com/go-gl/gl/v2.1/gl"
	"github.com/go-gl/glfw/v3.1/glfw"
	"github.com/gordonklaus/portaudio"
	"github.com/scottyw/tetromino/gameboy"

	"verif/internal/rig"
)

// KeyEvent is one button event delivered at the poll of a given frame (1-based).
type KeyEvent struct {
	Frame int  `json:"frame"`
	Key   int  `json:"key"` // index into Keys
	Press bool `json:"press"`
}

var Keys = []glfw.Key{glfw.KeyA, glfw.KeyS, glfw.KeyZ, glfw.KeyX, glfw.KeyUp, glfw.KeyDown, glfw.KeyLeft, glfw.KeyRight}

// Scenario is one deterministic whole-emulator run.
type Scenario struct {
	ROM    []byte     `json:"-"`
	Video  bool       `json:"video"`
	Audio  bool       `json:"audio"`
	Frames int        `json:"frames"`
	Keys   []KeyEvent `json:"keys"`
	// the emulator's debug options (DebugCPU traces to standard output, which is discarded)
	DebugCPU bool `json:"debug_cpu,omitempty"`
	DebugLCD bool `json:"debug_lcd,omitempty"`
	// Host-side perturbations (never part of what must be equal between runs): milliseconds to
	// sleep on the audio consumer before callback n, and on the emulator's own goroutine at
	// the end of frame f.
	ConsumerStalls map[int64]int `json:"consumer_stalls,omitempty"`
	ProducerStalls map[int]int   `json:"producer_stalls,omitempty"`
	// Neighbour: the file of another ROM. A second emulator (no display, no sound, no serial
	// writer) is created from it right after the one under observation and runs one frame after
	// each of that one's frames, on the same goroutine. It is part of what else the process is
	// doing, never of what must be equal between runs.
	Neighbour string `json:"neighbour,omitempty"`
	// NoSerialWriter: the emulator is configured without a serial writer (Config.SerialWriter nil)
	NoSerialWriter bool `json:"no_serial_writer,omitempty"`
}

// Trace is everything observable about a run.
type Trace struct {
	FrameHashes   []uint64 `json:"frame_hashes"`   // PPU.Frame() pixels after each frame (video on: also what the display got)
	DisplayHashes []uint64 `json:"display_hashes"` // bytes handed to the fake display
	// AudioPrefix[j] hashes the first 512*(j+1) values delivered to the audio callback. What is
	// still queued when Run shuts the stream down is never played, so the tail length depends
	// on the consumer's timing; everything before it must be identical.
	AudioPrefix  []uint64 `json:"audio_prefix"`
	AudioSamples int      `json:"audio_samples"`
	SerialHash   uint64   `json:"serial_hash"`
	SerialLen    int      `json:"serial_len"`
	RAMHash      uint64   `json:"ram_hash"`
	State        uint64   `json:"state"`
	Regs         string   `json:"regs"`
}

func hashBytes(b []byte) uint64 {
	h := fnv.New64a()
	h.Write(b)
	return h.Sum64()
}

// TempROM writes a ROM image to a private file in the work directory.
func TempROM(rom []byte, tag string) string {
	dir := os.Getenv("VERIF_WORK")
	if dir == "" {
		dir = filepath.Join(rig.VerifDir(), "work")
		os.MkdirAll(dir, 0o755)
	}
	f, err := os.CreateTemp(dir, "rom-"+tag+"-*.gb")
	if err != nil {
		panic(err)
	}
	f.Write(rom)
	f.Close()
	return f.Name()
}

// Step advances a whole emulator by one machine cycle in the documented order.
func Step(gb *gameboy.Gameboy) {
	gb.XCPU().ExecuteMachineCycle()
	gb.XPPU().EndMachineCycle()
	gb.XMapper().EndMachineCycle()
	gb.XAudio().EndMachineCycle()
	if gb.XTimer().EndMachineCycle() {
		gb.XInterrupts().RequestTimer()
	}
}

// Safe reports whether the CPU can execute its next cycle without hitting the deliberate stop.
func Safe(gb *gameboy.Gameboy) bool {
	c := gb.XCPU()
	if c.XAtBoundary() && !c.XHalted() && !c.XStopped() {
		if rig.IsUndefinedOpcode(gb.XMapper().Read(c.XGetRegs().PC)) {
			i := gb.XInterrupts()
			return i.Enabled() && i.Pending()
		}
	}
	return true
}

var runMu sync.Mutex

// Run executes a scenario through gameboy.New and Run (video on) or XRunFrame (video off).
func Run(s Scenario, romPath string) Trace {
	runMu.Lock()
	defer runMu.Unlock()
	glfw.XReset()
	gl.XReset()
	portaudio.XReset()
	var tr Trace
	var mu sync.Mutex
	var samples []float32
	if s.Audio {
		portaudio.Sink = func(n int64, buf []float32) {
			mu.Lock()
			samples = append(samples, buf...)
			mu.Unlock()
		}
	}
	if s.Audio && len(s.ConsumerStalls) > 0 {
		portaudio.BeforeCallback = func(n int64) {
			if ms, ok := s.ConsumerStalls[n]; ok {
				time.Sleep(time.Duration(ms) * time.Millisecond)
			}
		}
	}
	stallProducer := func(frame int) {
		if ms, ok := s.ProducerStalls[frame]; ok {
			time.Sleep(time.Duration(ms) * time.Millisecond)
		}
	}
	serial := &bytes.Buffer{}
	if s.DebugCPU {
		stdout := os.Stdout
		if null, err := os.OpenFile(os.DevNull, os.O_WRONLY, 0); err == nil {
			os.Stdout = null
			defer func() { os.Stdout = stdout; null.Close() }()
		}
	}
	cfg := gameboy.Config{RomFilename: romPath, DisableVideoOutput: !s.Video, DisableAudioOutput: !s.Audio, SerialWriter: serial, DebugCPU: s.DebugCPU, DebugLCD: s.DebugLCD}
	if s.NoSerialWriter {
		cfg.SerialWriter = nil
	}
	gb := gameboy.New(cfg)
	neighbour := func() {}
	if s.Neighbour != "" {
		nb := gameboy.New(gameboy.Config{RomFilename: s.Neighbour, DisableVideoOutput: true, DisableAudioOutput: true})
		neighbour = func() { nb.XRunFrame(context.Background()) }
		defer nb.Cleanup()
	}
	deliver := func(frame int) {
		for _, k := range s.Keys {
			if k.Frame == frame {
				if s.Video {
					act := glfw.Release
					if k.Press {
						act = glfw.Press
					}
					glfw.XCurrent().XKey(Keys[k.Key], act)
				} else {
					// the display is absent: go through the controller as the key handler would
					btn := []int{6, 7, 5, 4, 0, 1, 2, 3}[k.Key] // Start Select B A Up Down Left Right
					gb.XController().ButtonAction(controllerButton(btn), k.Press)
					gb.XCPU().OnInput()
				}
			}
		}
	}
	if s.Video {
		gl.OnFrame = func(n int64, w, h int32, pix []byte) {
			tr.DisplayHashes = append(tr.DisplayHashes, hashBytes(pix))
		}
		glfw.OnPoll = func(w *glfw.Window, n int64) {
			tr.FrameHashes = append(tr.FrameHashes, hashBytes(gb.XPPU().Frame().Pix))
			deliver(int(n))
			stallProducer(int(n))
			neighbour()
			if int(n) >= s.Frames {
				w.SetShouldClose(true)
			}
		}
		gb.Run(context.Background())
	} else {
		for f := 1; f <= s.Frames; f++ {
			gb.XRunFrame(context.Background())
			tr.FrameHashes = append(tr.FrameHashes, hashBytes(gb.XPPU().Frame().Pix))
			deliver(f)
			stallProducer(f)
			neighbour()
		}
		gb.Cleanup()
	}
	mu.Lock()
	// trailing zeros come from the closed channels after Cleanup: trim them
	n := len(samples)
	for n > 0 && samples[n-1] == 0 {
		n--
	}
	h := fnv.New64a()
	var b [4]byte
	for k, f := range samples[:n] {
		u := math.Float32bits(f)
		b[0], b[1], b[2], b[3] = byte(u), byte(u>>8), byte(u>>16), byte(u>>24)
		h.Write(b[:])
		if (k+1)%512 == 0 {
			tr.AudioPrefix = append(tr.AudioPrefix, h.Sum64())
		}
	}
	tr.AudioSamples = n
	mu.Unlock()
	tr.SerialHash, tr.SerialLen = hashBytes(serial.Bytes()), serial.Len()
	tr.RAMHash = hashBytes(gb.XMapper().DumpRAM())
	tr.Regs = fmt.Sprintf("%+v", gb.XCPU().XGetRegs())
	tr.State = StateOf(gb)
	return tr
}

// StateOf fingerprints the emulator's own state (not the display, speakers or configuration).
func StateOf(gb *gameboy.Gameboy) uint64 {
	return rig.Hash(Fingerprint(gb.XCPU()), Fingerprint(gb.XMapper()), Fingerprint(gb.XPPU()), Fingerprint(gb.XTimer()), Fingerprint(gb.XAudio()),
		Fingerprint(gb.XInterrupts()), Fingerprint(gb.XController()))
}

// Diff describes the first difference between two traces ("" if equal).
func Diff(a, b Trace) string {
	switch {
	case len(a.FrameHashes) != len(b.FrameHashes):
		return fmt.Sprintf("%d vs %d frames", len(a.FrameHashes), len(b.FrameHashes))
	}
	for i := range a.FrameHashes {
		if a.FrameHashes[i] != b.FrameHashes[i] {
			return fmt.Sprintf("frame %d pixels differ", i+1)
		}
	}
	if len(a.DisplayHashes) != len(b.DisplayHashes) {
		return fmt.Sprintf("%d vs %d frames handed to the display", len(a.DisplayHashes), len(b.DisplayHashes))
	}
	for i := range a.DisplayHashes {
		if a.DisplayHashes[i] != b.DisplayHashes[i] {
			return fmt.Sprintf("frame %d handed to the display differs", i+1)
		}
	}
	switch {
	case audioDiff(a, b) != "":
		return audioDiff(a, b)
	case a.SerialLen != b.SerialLen || a.SerialHash != b.SerialHash:
		return fmt.Sprintf("serial output differs (%d vs %d bytes)", a.SerialLen, b.SerialLen)
	case a.RAMHash != b.RAMHash:
		return "cartridge RAM differs"
	case a.Regs != b.Regs:
		return "CPU registers differ: " + a.Regs + " vs " + b.Regs
	case a.State != b.State:
		return "internal state fingerprint differs"
	}
	return ""
}

// Screen runs the scenario on the component rig with a peek guard and reports whether it can
// be run through the whole emulator without reaching the deliberate stop (an undefined opcode
// ends the process). It also returns the rig's final register string for cross-checking.
func Screen(s Scenario) (ok bool, regs string) {
	m, err := rig.New(s.ROM, rig.Opts{})
	if err != nil {
		return false, ""
	}
	for f := 1; f <= s.Frames; f++ {
		for k := 0; k < 17556; k++ {
			if m.CPU.XAtBoundary() && !m.CPU.XHalted() && !m.CPU.XStopped() && rig.IsUndefinedOpcode(m.PeekOpcode()) && !(m.IRQ.Enabled() && m.IRQ.Pending()) {
				return false, ""
			}
			m.Step()
		}
		for _, k := range s.Keys {
			if k.Frame == f {
				btn := []int{6, 7, 5, 4, 0, 1, 2, 3}[k.Key]
				m.Ctl.ButtonAction(controllerButton(btn), k.Press)
				m.CPU.OnInput()
			}
		}
	}
	return true, fmt.Sprintf("%+v", m.CPU.XGetRegs())
}

func audioDiff(a, b Trace) string {
	n := len(a.AudioPrefix)
	if len(b.AudioPrefix) < n {
		n = len(b.AudioPrefix)
	}
	for j := 0; j < n; j++ {
		if a.AudioPrefix[j] != b.AudioPrefix[j] {
			return fmt.Sprintf("audio samples differ within the first %d values delivered", 512*(j+1))
		}
	}
	// up to one channel capacity (2 x 200) plus one callback buffer may be cut off at shutdown
	d := a.AudioSamples - b.AudioSamples
	if d < 0 {
		d = -d
	}
	if d > 2*200+1024 {
		return fmt.Sprintf("audio sample counts differ by more than the shutdown tail (%d vs %d values)", a.AudioSamples, b.AudioSamples)
	}
	return ""
}
