// Package emu drives the whole emulator (gameboy.New against the stub display and speakers)
// and fingerprints its complete state.
package emu

import (
	"math"
	"reflect"
	"sort"
	"unsafe"
)

// Fingerprint hashes the complete object graph reachable from v (read-only): every scalar,
// array and slice, following pointers and interfaces once each; funcs and channels are skipped.
// Unexported fields are read through unsafe, so state added by a future change is covered
// automatically. Pointer identity is not hashed, only what is pointed to.
func Fingerprint(v any) uint64 {
	h := &hasher{seen: map[uintptr]bool{}, h: 0xcbf29ce484222325}
	h.walk(reflect.ValueOf(v), 0)
	return h.h
}

type hasher struct {
	seen map[uintptr]bool
	h    uint64
}

func (h *hasher) u(x uint64) {
	h.h ^= x
	h.h *= 1099511628211
	h.h ^= h.h >> 29
}

func (h *hasher) bytes(b []byte) {
	for len(b) >= 8 {
		h.u(uint64(b[0]) | uint64(b[1])<<8 | uint64(b[2])<<16 | uint64(b[3])<<24 | uint64(b[4])<<32 | uint64(b[5])<<40 | uint64(b[6])<<48 | uint64(b[7])<<56)
		b = b[8:]
	}
	for _, x := range b {
		h.u(uint64(x) + 0x100)
	}
}

func access(v reflect.Value) reflect.Value {
	if v.CanInterface() || !v.CanAddr() {
		return v
	}
	return reflect.NewAt(v.Type(), unsafe.Pointer(v.UnsafeAddr())).Elem()
}

func (h *hasher) walk(v reflect.Value, depth int) {
	if !v.IsValid() || depth > 64 {
		h.u(0xdead)
		return
	}
	switch v.Kind() {
	case reflect.Bool:
		if v.Bool() {
			h.u(1)
		} else {
			h.u(2)
		}
	case reflect.Int, reflect.Int8, reflect.Int16, reflect.Int32, reflect.Int64:
		h.u(uint64(v.Int()))
	case reflect.Uint, reflect.Uint8, reflect.Uint16, reflect.Uint32, reflect.Uint64, reflect.Uintptr:
		h.u(v.Uint())
	case reflect.Float32, reflect.Float64:
		h.u(math.Float64bits(v.Float()))
	case reflect.String:
		h.bytes([]byte(v.String()))
	case reflect.Array:
		if v.Type().Elem().Kind() == reflect.Uint8 && v.CanAddr() {
			n := v.Len()
			if n > 0 {
				h.bytes(unsafe.Slice((*byte)(unsafe.Pointer(v.UnsafeAddr())), n))
			}
			return
		}
		for i := 0; i < v.Len(); i++ {
			h.walk(v.Index(i), depth+1)
		}
	case reflect.Slice:
		h.u(uint64(v.Len()))
		if v.Len() == 0 {
			return
		}
		if v.Type().Elem().Kind() == reflect.Uint8 {
			h.bytes(unsafe.Slice((*byte)(unsafe.Pointer(v.Pointer())), v.Len()))
			return
		}
		// slices of large byte arrays (ROM/RAM banks)
		if et := v.Type().Elem(); et.Kind() == reflect.Array && et.Elem().Kind() == reflect.Uint8 {
			h.bytes(unsafe.Slice((*byte)(unsafe.Pointer(v.Pointer())), v.Len()*et.Len()))
			return
		}
		for i := 0; i < v.Len(); i++ {
			h.walk(v.Index(i), depth+1)
		}
	case reflect.Ptr:
		if v.IsNil() {
			h.u(0)
			return
		}
		p := v.Pointer()
		if h.seen[p] {
			h.u(0x5e)
			return
		}
		h.seen[p] = true
		h.walk(v.Elem(), depth+1)
	case reflect.Interface:
		if v.IsNil() {
			h.u(0)
			return
		}
		h.walk(v.Elem(), depth+1)
	case reflect.Struct:
		t := v.Type()
		if !v.CanAddr() {
			// make it addressable so that unexported fields can be read
			c := reflect.New(t).Elem()
			c.Set(v)
			v = c
		}
		for i := 0; i < v.NumField(); i++ {
			h.walk(access(v.Field(i)), depth+1)
		}
	case reflect.Map:
		// order-independent combination
		var sub []uint64
		it := v.MapRange()
		for it.Next() {
			hh := &hasher{seen: h.seen, h: 0xcbf29ce484222325}
			hh.walk(it.Key(), depth+1)
			hh.walk(it.Value(), depth+1)
			sub = append(sub, hh.h)
		}
		sort.Slice(sub, func(a, b int) bool { return sub[a] < sub[b] })
		for _, s := range sub {
			h.u(s)
		}
	case reflect.Func, reflect.Chan, reflect.UnsafePointer:
		// behaviour, not state
	}
}
