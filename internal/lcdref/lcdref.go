// Package lcdref is the reference LCD line/mode counter: a pure function of the number of
// machine cycles since the LCD was switched on. The first line after switching on is 112
// cycles long, every other line 114; a line shows mode 2 for its first 20 cycles, mode 3 until
// cycle 61, then mode 0; lines 144-153 are mode 1; 154 lines per frame.
package lcdref

// Pos describes the cycle with 0-based index p since switch-on.
type Pos struct {
	Line      int
	Q         int  // cycle within the line (0-based)
	FirstLine bool // the shortened line right after switch-on
}

const (
	FirstLineLen = 112
	LineLen      = 114
	Lines        = 154
	FrameLen     = LineLen * Lines
	firstFrame   = FrameLen - 2
)

func At(p int64) Pos {
	if p < firstFrame {
		if p < FirstLineLen {
			return Pos{Line: 0, Q: int(p), FirstLine: true}
		}
		p -= FirstLineLen
		return Pos{Line: 1 + int(p/LineLen), Q: int(p % LineLen)}
	}
	p = (p - firstFrame) % FrameLen
	return Pos{Line: int(p / LineLen), Q: int(p % LineLen)}
}

func (x Pos) Mode() uint8 {
	switch {
	case x.Line >= 144:
		return 1
	case x.Q < 20:
		return 2
	case x.Q < 61:
		return 3
	}
	return 0
}

// LCD tracks the on/off state and the cycle count.
type LCD struct {
	On bool
	N  int64 // machine cycles completed since switch-on
}

// Tick advances one machine cycle; returns the position of the cycle just completed.
func (l *LCD) Tick() (Pos, bool) {
	if !l.On {
		return Pos{}, false
	}
	p := At(l.N)
	l.N++
	return p, true
}

// Visible returns the LY and mode that reads must show now.
func (l *LCD) Visible() (ly uint8, mode uint8) {
	if !l.On {
		return 0, 0
	}
	if l.N == 0 {
		return 0, 2
	}
	p := At(l.N - 1)
	return uint8(p.Line), p.Mode()
}

// WriteLCDC applies an LCDC write.
func (l *LCD) WriteLCDC(v uint8) {
	on := v&0x80 != 0
	if on && !l.On {
		l.On, l.N = true, 0
	} else if !on && l.On {
		l.On = false
	}
}
