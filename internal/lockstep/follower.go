// Package lockstep attaches the SM83 reference model to a running machine: at every
// instruction boundary of the real CPU it predicts the next unit of work (instruction,
// interrupt dispatch, halted idle cycle, halt wake-up) from architectural state and plain
// memory, lets the real machine run, and compares at the next boundary.
//
// It serves C01 (effects), C02 (cycle counts), C04 (dispatch), C05 (HALT), C17 (OAM write
// attribution) and C23 (SB write log) on whole programs and ROMs.
package lockstep

import (
	"fmt"

	"verif/internal/ref"
	"verif/internal/rig"
)

type UnitKind int

const (
	UnitNone UnitKind = iota
	UnitInstr
	UnitDispatch
	UnitIdle
	UnitWake
)

// Retired describes a completed unit (for coverage and property-specific follow-up).
type Retired struct {
	Kind    UnitKind
	Op      uint8
	CB      bool
	PC      uint16
	Cycles  int
	Partial bool // operands came from volatile memory; only timing was checked
	Vector  uint16
	WasHalt bool
	Res     *ref.Result
}

// Follower is the lock-step monitor.
type Follower struct {
	M *rig.Machine
	// Violate receives refutations: property id (C01/C02/C04/C05), class, message.
	Violate func(prop, class, msg string)
	// OnRetire is called after every completed unit.
	OnRetire func(r *Retired)
	// OnWrite is called for every data write the reference predicts (address, value), at retire.
	OnWrite func(addr uint16, v uint8)
	// MemEvery > 0 checks the WRAM/HRAM frame condition on every MemEvery-th instruction.
	MemEvery int

	// reference interrupt/halt state
	IME       bool
	EIPending bool
	Halted    bool
	HaltBug   bool

	Ended string // non-empty once the follower has stopped (undefined opcode, STOP, ...)
	// ThroughStop lets the follower sit through STOP mode (the harness must deliver key events)
	// instead of ending at a STOP instruction.
	ThroughStop bool
	StopCycles  int64
	inStop      bool

	// counters
	Instrs, Dispatches, IdleCycles, Wakes, Partials, Resyncs, HaltBugs, MemChecks int64
	OpSeen                                                                        [512]int64

	// current unit
	kind        UnitKind
	cyc         int
	regs0       ref.Regs
	pred        ref.Result
	if0, ie0    uint8
	raisedEarly uint8     // raised (hardware or injected) before the last cycle's CPU phase
	raisedLast  uint8     // raised in the hardware phase of the most recent cycle
	raisedAt    [16]uint8 // raisedAt[k]: requests raised after k cycles of the unit had completed
	enableAfter bool
	lastKind    UnitKind // kind of the unit in flight or just ended
	wasHalted   bool
	partial     bool
	skipCompare bool
	wram0       [0x2000]byte
	hram0       [0x8f]byte
	memCheck    bool
	lastWasEI   bool
}

// New attaches a follower to a machine that is at an instruction boundary.
func New(m *rig.Machine) *Follower {
	f := &Follower{M: m}
	f.IME = m.IRQ.Enabled()
	f.Halted = m.CPU.XHalted()
	f.HaltBug = m.CPU.XHaltBug()
	return f
}

// Regs converts the hook register file to the reference's.
func Regs(m *rig.Machine) ref.Regs {
	x := m.CPU.XGetRegs()
	return ref.Regs{A: x.A, F: x.F, B: x.B, C: x.C, D: x.D, E: x.E, H: x.H, L: x.L, SP: x.SP, PC: x.PC}
}

// Peek reads a byte without side effects (OAM reads through the mapper can arm the emulated
// OAM bug, so FE00-FEFF is read through the snapshot hook with the same DMA/unused-area
// semantics).
func Peek(m *rig.Machine, addr uint16) uint8 {
	if addr >= 0xfe00 && addr < 0xff00 {
		if run, _ := m.OAM.XDMA(); run {
			return 0xff
		}
		if addr >= 0xfea0 {
			return 0
		}
		s := m.OAM.XSnapshot()
		return s[addr-0xfe00]
	}
	return m.Mem.Read(addr)
}

func volatile(addr uint16) bool { return addr >= 0xfe00 && addr < 0xff80 }

func (f *Follower) violate(prop, class, msg string) {
	if f.Violate != nil {
		f.Violate(prop, class, msg)
	}
}

// Inject raises interrupt requests through the hardware request path between cycles.
func (f *Follower) Inject(bits uint8) {
	if bits&1 != 0 {
		f.M.IRQ.RequestVblank()
	}
	if bits&2 != 0 {
		f.M.IRQ.RequestStat()
	}
	if bits&4 != 0 {
		f.M.IRQ.RequestTimer()
	}
	if bits&8 != 0 {
		f.M.IRQ.RequestSerial()
	}
	if bits&16 != 0 {
		f.M.IRQ.RequestJoypad()
	}
	f.raisedEarly |= f.raisedLast
	f.raisedLast = 0
	f.raisedEarly |= bits & 0x1f
	if f.cyc < len(f.raisedAt) {
		f.raisedAt[f.cyc] |= bits & 0x1f
	}
}

func lowestBit(v uint8) uint8 { return v & -v }

func vectorOf(bit uint8) uint16 {
	switch bit {
	case 1:
		return 0x40
	case 2:
		return 0x48
	case 4:
		return 0x50
	case 8:
		return 0x58
	}
	return 0x60
}

func (f *Follower) begin() bool {
	m := f.M
	if m.CPU.XStopped() {
		if !f.ThroughStop {
			f.Ended = "stopped"
			return false
		}
		// STOP mode: nothing is judged until a key event has ended it (what the CPU does with
		// requests while stopped is outside every statement)
		f.regs0 = Regs(m)
		f.cyc = 0
		f.kind = UnitIdle
		f.skipCompare = true
		f.inStop = true
		f.StopCycles++
		return true
	}
	if f.inStop {
		// back from STOP mode: adopt the machine's interrupt state and carry on
		f.inStop = false
		f.IME = m.IRQ.Enabled()
		f.Halted = m.CPU.XHalted()
		f.HaltBug, f.EIPending, f.enableAfter = false, false, false
		f.lastWasEI = true
	}
	f.regs0 = Regs(m)
	f.if0 = m.IRQ.ReadIF() & 0x1f
	f.ie0 = m.IRQ.ReadIE()
	f.raisedEarly, f.raisedLast = 0, 0
	f.raisedAt = [16]uint8{}
	f.cyc = 0
	f.partial = false
	f.skipCompare = false
	f.memCheck = false
	pending := f.if0 & f.ie0 & 0x1f
	// IME cross-check (skipped right after EI, where implementations may legitimately
	// represent the delayed enable differently)
	if !f.lastWasEI && m.IRQ.Enabled() != f.IME {
		f.violate("C04", "ime-mismatch", fmt.Sprintf("at PC=%04X the master enable is %v, reference says %v", f.regs0.PC, m.IRQ.Enabled(), f.IME))
		f.IME = m.IRQ.Enabled()
	}
	f.lastWasEI = false
	switch {
	case f.IME && pending != 0:
		f.kind = UnitDispatch
		f.wasHalted = f.Halted
		f.Halted = false
		f.EIPending = false
		f.enableAfter = false
	case f.Halted && pending != 0:
		f.kind = UnitWake
		f.Halted = false
		f.predictInstr()
		if f.pred.Undefined {
			// the wake-up itself is fine; the run ends at the undefined opcode afterwards
			f.kind = UnitIdle
			f.skipCompare = true
		}
	case f.Halted:
		f.kind = UnitIdle
	default:
		f.kind = UnitInstr
		f.predictInstr()
		if f.pred.Undefined {
			f.Ended = fmt.Sprintf("undefined opcode %02X at %04X", f.pred.Op, f.regs0.PC)
			return false
		}
	}
	f.lastKind = f.kind
	return true
}

func (f *Follower) predictInstr() {
	m := f.M
	bug := f.HaltBug
	f.HaltBug = false
	f.enableAfter = f.EIPending
	f.EIPending = false
	f.pred = ref.Exec(f.regs0, func(a uint16) uint8 { return Peek(m, a) }, bug)
	pc := f.regs0.PC
	if volatile(pc) || volatile(pc+1) || volatile(pc+2) {
		f.partial = true
	}
	for _, a := range f.pred.Acc {
		if !a.Write && volatile(a.Addr) {
			f.partial = true
		}
	}
	if bug {
		f.HaltBugs++
		if f.pred.CB {
			// CB prefix as the byte after a bugged HALT: not covered by the statement
			f.skipCompare = true
		}
	}
	if f.MemEvery > 0 && f.Instrs%int64(f.MemEvery) == 0 && !f.partial {
		f.memCheck = true
		f.wram0 = *m.Mem.XWRAM()
		f.hram0 = *m.Mem.XHRAM()
	}
}

// Cycle advances the machine by one machine cycle under observation. It returns false
// (without executing anything) once the follower has ended.
func (f *Follower) Cycle() bool {
	m := f.M
	if f.Ended != "" {
		return false
	}
	if m.CPU.XAtBoundary() && f.kind == UnitNone {
		if !f.begin() {
			return false
		}
	}
	f.raisedEarly |= f.raisedLast
	f.raisedLast = 0
	// one machine cycle in the documented order, watching which request bits hardware raises
	m.CPU.ExecuteMachineCycle()
	ifMid := m.IRQ.ReadIF() & 0x1f
	m.PPU.EndMachineCycle()
	m.Mem.EndMachineCycle()
	m.Audio.EndMachineCycle()
	if m.Timer.EndMachineCycle() {
		m.IRQ.RequestTimer()
	}
	m.Cycles++
	if m.L != nil {
		m.Drain()
	}
	f.raisedLast = (m.IRQ.ReadIF() & 0x1f) &^ ifMid
	f.cyc++
	if f.cyc < len(f.raisedAt) {
		f.raisedAt[f.cyc] |= f.raisedLast
	}
	if f.kind == UnitWake && f.cyc == 1 {
		// the wake-up may cost one empty cycle or none (the statement gives no count)
		if m.CPU.XAtBoundary() && Regs(m) == f.regs0 {
			f.Wakes++
			if gotIF, wantIF := m.IRQ.ReadIF()&0x1f, f.if0|f.raisedEarly|f.raisedLast; gotIF != wantIF {
				f.violate("C05", "halt-wake-changed-if", fmt.Sprintf("wake-up with the master enable clear changed IF %02X -> %02X", f.if0, gotIF))
			}
			f.kind = UnitNone
			// the delayed EI enable, if any, still belongs to the instruction that follows
			f.EIPending = f.enableAfter
			return true
		}
		f.kind = UnitInstr
	}
	if m.CPU.XAtBoundary() {
		f.end()
		f.kind = UnitNone
	} else if f.cyc > 8 {
		f.violate("C02", "runaway-instruction", fmt.Sprintf("unit starting at PC=%04X still in flight after %d cycles", f.regs0.PC, f.cyc))
		f.Ended = "runaway"
	}
	return true
}

func (f *Follower) end() {
	m := f.M
	got := Regs(m)
	switch f.kind {
	case UnitIdle:
		f.IdleCycles++
		if f.skipCompare {
			return
		}
		if got != f.regs0 {
			f.violate("C05", "halted-cpu-changed-state", fmt.Sprintf("halted at PC=%04X but registers changed: %+v -> %+v", f.regs0.PC, f.regs0, got))
		}
		if f.cyc != 1 {
			f.violate("C05", "halted-idle-length", fmt.Sprintf("idle unit took %d cycles", f.cyc))
		}
		if f.OnRetire != nil {
			f.OnRetire(&Retired{Kind: UnitIdle, PC: f.regs0.PC, Cycles: f.cyc})
		}
	case UnitDispatch:
		f.Dispatches++
		want := 5
		prop := "C04"
		if f.wasHalted {
			want = 6
			prop = "C05"
		}
		if f.cyc != want {
			f.violate(prop, "dispatch-length", fmt.Sprintf("interrupt dispatch at PC=%04X (halted=%v) took %d cycles, want %d", f.regs0.PC, f.wasHalted, f.cyc, want))
		}
		candA := lowestBit(f.if0 & f.ie0)
		candB := lowestBit((f.if0 | f.raisedEarly) & f.ie0)
		bit := candA
		if got.PC == vectorOf(candB) {
			bit = candB
		}
		if got.PC != vectorOf(bit) {
			f.violate("C04", fmt.Sprintf("dispatch-vector-if%02X-ie%02X", f.if0, f.ie0&0x1f), fmt.Sprintf("IE=%02X IF=%02X: dispatched to %04X, want %04X", f.ie0, f.if0, got.PC, vectorOf(bit)))
		}
		wantRegs := f.regs0
		wantRegs.PC = got.PC
		wantRegs.SP = f.regs0.SP - 2
		if got != wantRegs {
			f.violate("C04", "dispatch-registers", fmt.Sprintf("dispatch changed registers: before %+v after %+v", f.regs0, got))
		}
		// both stack bytes must land in plain memory (SP+1 wraps to ROM when SP is FFFF)
		if !volatile(wantRegs.SP) && !volatile(wantRegs.SP+1) && wantRegs.SP >= 0xc000 && wantRegs.SP != 0xffff {
			lo, hi := Peek(m, wantRegs.SP), Peek(m, wantRegs.SP+1)
			if ret := uint16(hi)<<8 | uint16(lo); ret != f.regs0.PC {
				f.violate("C04", "dispatch-return-address", fmt.Sprintf("pushed %04X at SP=%04X, want %04X", ret, wantRegs.SP, f.regs0.PC))
			}
		}
		wantIF := ((f.if0 | f.raisedEarly) &^ bit) | f.raisedLast
		// a return address pushed onto IF or IE themselves is hardware-specific (not in the statement)
		stackHitsIRQRegs := false
		for _, a := range []uint16{wantRegs.SP, wantRegs.SP + 1} {
			if a == 0xff0f || a == 0xffff {
				stackHitsIRQRegs = true
			}
		}
		if stackHitsIRQRegs {
			f.Resyncs++
		} else if gotIF := m.IRQ.ReadIF() & 0x1f; gotIF != wantIF {
			f.violate("C04", fmt.Sprintf("dispatch-if-clear-bit%02X", bit), fmt.Sprintf("IF before %02X (raised meanwhile %02X/%02X), dispatched bit %02X: IF after %02X, want %02X", f.if0, f.raisedEarly, f.raisedLast, bit, gotIF, wantIF))
		}
		if !stackHitsIRQRegs && m.IRQ.ReadIE() != f.ie0 {
			f.violate("C04", "dispatch-changed-ie", fmt.Sprintf("IE %02X -> %02X", f.ie0, m.IRQ.ReadIE()))
		}
		f.IME = false
		if m.IRQ.Enabled() {
			f.violate("C04", "dispatch-ime-not-cleared", "master enable still set after dispatch")
		}
		if f.OnWrite != nil {
			f.OnWrite(wantRegs.SP+1, uint8(f.regs0.PC>>8))
			f.OnWrite(wantRegs.SP, uint8(f.regs0.PC))
		}
		if f.OnRetire != nil {
			f.OnRetire(&Retired{Kind: UnitDispatch, PC: f.regs0.PC, Cycles: f.cyc, Vector: got.PC, WasHalt: f.wasHalted})
		}
	case UnitInstr:
		f.endInstr(got)
	}
}

func (f *Follower) endInstr(got ref.Regs) {
	m := f.M
	p := &f.pred
	f.Instrs++
	idx := int(p.Op)
	if p.CB {
		idx += 256
	}
	f.OpSeen[idx]++
	name := fmt.Sprintf("op%02X", p.Op)
	if p.CB {
		name = fmt.Sprintf("opCB%02X", p.Op)
	}
	// the real CPU dispatched an interrupt where the reference executes an instruction
	if !f.skipCompare && got != p.Regs && got.SP == f.regs0.SP-2 && got.PC >= 0x40 && got.PC <= 0x60 && got.PC&7 == 0 && p.Regs.PC != got.PC && f.cyc >= 5 {
		f.violate("C04", "dispatch-when-not-allowed", fmt.Sprintf("an interrupt was dispatched to %04X at PC=%04X where the reference executes %s (IME=%v, EI in effect only after this instruction=%v, IE=%02X IF=%02X)", got.PC, f.regs0.PC, name, f.IME, f.enableAfter, f.ie0, f.if0))
		f.IME = m.IRQ.Enabled()
		f.EIPending = false
		f.enableAfter = false
		f.Resyncs++
		return
	}
	if f.skipCompare {
		f.Resyncs++
	} else {
		if f.cyc != p.Cycles {
			f.violate("C02", name+"-cycles", fmt.Sprintf("%s at PC=%04X F=%02X took %d machine cycles, documented %d", name, f.regs0.PC, f.regs0.F, f.cyc, p.Cycles))
		}
		if f.partial {
			f.Partials++
		} else {
			if got != p.Regs {
				f.violate("C01", name+"-registers", fmt.Sprintf("%s at PC=%04X: before %+v, after %+v, documented %+v", name, f.regs0.PC, f.regs0, got, p.Regs))
				// did the CPU skip ahead in time? If the documented execution, carried on from
				// the documented state, reaches exactly the state the CPU is in after some more
				// (store-free) instructions, the CPU got there without spending their cycles.
				st, extra := p.Regs, 0
				for n := 0; n < 6 && st != got; n++ {
					nx := ref.Exec(st, func(a uint16) uint8 { return Peek(m, a) }, false)
					stores := false
					for _, a := range nx.Acc {
						stores = stores || a.Write
					}
					if stores || nx.Halt || nx.Stop || nx.IME != 0 || volatile(st.PC) {
						extra = -1
						break
					}
					st, extra = nx.Regs, extra+nx.Cycles
				}
				if st == got && extra > 0 {
					f.violate("C02", name+"-skips-ahead", fmt.Sprintf("%s at PC=%04X took %d machine cycles and left the CPU at PC=%04X, a state the documented execution reaches only %d machine cycles later (after the instructions that follow at %04X)", name, f.regs0.PC, f.cyc, got.PC, extra, p.Regs.PC))
				}
			}
			if got.F&0x0f != 0 {
				f.violate("C01", "flag-low-nibble", fmt.Sprintf("F=%02X after %s", got.F, name))
			}
			for _, a := range p.Acc {
				if a.Write && a.Addr >= 0xc000 && !volatile(a.Addr) && a.Addr != 0xffff {
					last := a.Val
					for _, b := range p.Acc {
						if b.Write && b.Addr == a.Addr {
							last = b.Val
						}
					}
					if v := Peek(m, a.Addr); v != last {
						f.violate("C01", name+"-memory", fmt.Sprintf("%s wrote [%04X]=%02X, documented %02X", name, a.Addr, v, last))
					}
				}
			}
			if f.memCheck {
				f.MemChecks++
				w, h := f.wram0, f.hram0
				for _, a := range p.Acc {
					if !a.Write {
						continue
					}
					switch {
					case a.Addr >= 0xc000 && a.Addr < 0xe000:
						w[a.Addr-0xc000] = a.Val
					case a.Addr >= 0xe000 && a.Addr < 0xfe00:
						w[a.Addr-0xe000] = a.Val
					case a.Addr >= 0xff80 && a.Addr < 0xffff:
						h[a.Addr-0xff80] = a.Val
					}
				}
				if w != *m.Mem.XWRAM() || h != *m.Mem.XHRAM() {
					f.violate("C01", name+"-frame-condition", fmt.Sprintf("%s at PC=%04X changed work/high RAM outside its documented write set", name, f.regs0.PC))
				}
			}
		}
	}
	if !f.skipCompare && !f.partial {
		// IF and IE change only through the instruction's own writes and new requests (not
		// judged when the instruction read volatile memory, e.g. a read-modify-write on IF itself:
		// the value it writes back depends on requests raised before its read cycle)
		wantIF, wantIE := f.if0|f.raisedAt[0], f.ie0
		for k := 1; k <= f.cyc && k < len(f.raisedAt); k++ {
			for _, a := range p.Acc {
				if a.Write && a.Cycle == k {
					if a.Addr == 0xff0f {
						wantIF = a.Val & 0x1f
					}
					if a.Addr == 0xffff {
						wantIE = a.Val
					}
				}
			}
			wantIF |= f.raisedAt[k]
		}
		if f.cyc == p.Cycles {
			if gotIF := m.IRQ.ReadIF() & 0x1f; gotIF != wantIF {
				f.violate("C04", "if-changed-without-dispatch", fmt.Sprintf("%s at PC=%04X: IF %02X -> %02X, expected %02X (no dispatch happened)", name, f.regs0.PC, f.if0, gotIF, wantIF))
			}
			if gotIE := m.IRQ.ReadIE(); gotIE != wantIE {
				f.violate("C04", "ie-changed", fmt.Sprintf("%s at PC=%04X: IE %02X -> %02X, expected %02X", name, f.regs0.PC, f.ie0, gotIE, wantIE))
			}
		}
	}
	if f.OnWrite != nil {
		for _, a := range p.Acc {
			if a.Write {
				f.OnWrite(a.Addr, a.Val)
			}
		}
	}
	// interrupt-enable bookkeeping of the reference
	if f.enableAfter {
		f.IME = true
	}
	switch p.IME {
	case ref.IMEDI:
		f.IME = false
		f.EIPending = false
	case ref.IMERETI:
		f.IME = true
	case ref.IMEEI:
		if !f.IME {
			f.EIPending = true
		}
		f.lastWasEI = true
	}
	if p.Halt {
		// requests raised by hardware in HALT's own cycle arrive after its decision
		pend0 := f.if0 & f.ie0 & 0x1f
		switch {
		case f.enableAfter:
			// EI immediately followed by HALT: hardware-specific, in neither statement
			f.Halted = m.CPU.XHalted()
			f.HaltBug = m.CPU.XHaltBug()
			f.Resyncs++
		case f.IME:
			f.Halted = true
		case pend0 == 0:
			f.Halted = true
		default:
			f.HaltBug = true
		}
	}
	if p.Stop && !f.ThroughStop {
		f.Ended = "stop"
	}
	if f.OnRetire != nil {
		f.OnRetire(&Retired{Kind: UnitInstr, Op: p.Op, CB: p.CB, PC: f.regs0.PC, Cycles: f.cyc, Partial: f.partial || f.skipCompare, Res: p})
	}
}

// AtBoundary reports whether the follower is between units.
func (f *Follower) AtBoundary() bool { return f.kind == UnitNone }

// RunCycles runs up to n cycles; returns the number executed.
func (f *Follower) RunCycles(n int) int {
	for i := 0; i < n; i++ {
		if !f.Cycle() {
			return i
		}
	}
	return n
}
