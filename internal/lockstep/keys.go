package lockstep

import (
	"github.com/scottyw/tetromino/gameboy/controller"

	"verif/internal/rig"
)

// RunCyclesWithKeys is RunCycles with key events arriving at random machine cycles, delivered
// the way the display's key handler delivers them (controller first, then the CPU's OnInput
// callback). A key event is input to JOYP and ends STOP; it must not touch anything else, so
// every CPU property is monitored unchanged. Returns the cycles run and the events delivered.
func (f *Follower) RunCyclesWithKeys(n int, r *rig.Rng, oneIn int) (int, int) {
	keys := 0
	for i := 0; i < n; i++ {
		if r.Intn(oneIn) == 0 {
			f.M.Ctl.ButtonAction(controller.Button(r.Intn(8)), r.Bool())
			f.M.CPU.OnInput()
			keys++
		}
		if !f.Cycle() {
			return i, keys
		}
	}
	return n, keys
}
