package lockstep

import "verif/internal/ref"

// UnitWrites returns the data writes the reference predicts for the unit in flight (or, when
// called right after a unit ended, for the unit that just ended): the write accesses of an
// instruction, or the two return-address bytes pushed by an interrupt dispatch.
func (f *Follower) UnitWrites() []ref.Access {
	switch f.lastKind {
	case UnitInstr, UnitWake:
		var w []ref.Access
		for _, a := range f.pred.Acc {
			if a.Write {
				w = append(w, a)
			}
		}
		return w
	case UnitDispatch:
		return []ref.Access{
			{Addr: f.regs0.SP - 1, Val: uint8(f.regs0.PC >> 8), Write: true},
			{Addr: f.regs0.SP - 2, Val: uint8(f.regs0.PC), Write: true},
		}
	}
	return nil
}

// UnitPartial reports whether the current/last unit could only be partially predicted.
func (f *Follower) UnitPartial() bool { return f.partial || f.skipCompare }
