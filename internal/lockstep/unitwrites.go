package lockstep

import "verif/internal/ref"

// UnitWrites returns the data writes the reference predicts for the unit in flight (or, when
// called right after a unit ended, for the unit that just ended): the write accesses of an
// instruction, or the two return-address bytes pushed by an interrupt dispatch.
func (f *Follower) UnitWrites() []ref.Access {
	switch f.lastKind {
	case UnitInstr, UnitWake:
		var w []ref.Access
		for _, a := range f.pred.Acc {
			if a.Write {
				w = append(w, a)
			}
		}
		return w
	case UnitDispatch:
		return []ref.Access{
			{Addr: f.regs0.SP - 1, Val: uint8(f.regs0.PC >> 8), Write: true},
			{Addr: f.regs0.SP - 2, Val: uint8(f.regs0.PC), Write: true},
		}
	}
	return nil
}

// UnitPartial reports whether the current/last unit could only be partially predicted.
func (f *Follower) UnitPartial() bool { return f.partial || f.skipCompare }

// UnitNearOAM reports whether the unit in flight (or just ended) could have anything to do with
// FE00-FEFF: a register pair, the stack pointer or the program counter at (or one step beside)
// that area before the unit or now, or a predicted access there. Everything the OAM bug needs
// from the CPU implies this; the reverse does not hold (it is a necessary condition only).
func (f *Follower) UnitNearOAM() bool {
	near := func(a uint16) bool { return a >= 0xfdfe && a <= 0xff01 }
	now := Regs(f.M)
	for _, r := range []ref.Regs{f.regs0, now} {
		if near(r.BC()) || near(r.DE()) || near(r.HL()) || near(r.SP) || near(r.PC) || near(r.SP-2) || near(r.SP+2) {
			return true
		}
	}
	for _, a := range f.pred.Acc {
		if near(a.Addr) {
			return true
		}
	}
	return false
}
