// Package longlife runs one tight loop on a machine for a very long time and demands that every
// pass through the loop looks, machine cycle by machine cycle, exactly like the first passes:
// the same instruction boundaries at the same program counters, and the store in the loop (to
// DIV, whose counter the store clears) landing in the same cycle. Nothing in the documented
// behaviour of the CPU depends on how many machine cycles it has already executed.
package longlife

import (
	"fmt"

	"verif/internal/rig"
)

const period = 8 // LD (HL),A (2) + INC B (1) + NOP NOP (2) + JR (3)

type obs struct {
	pc       uint16
	boundary bool
	counter  uint16
}

// Run steps the loop for n machine cycles and reports the first pass that differs.
func Run(c *rig.Ctx, n int64, class string) bool {
	rom := rig.BlankROM(0, 0, 0)
	rig.Put(rom, 0x100, 0x00, 0xc3, 0x50, 0x01)
	rig.Put(rom, 0x150, 0xf3, 0x21, 0x04, 0xff, // DI; LD HL,FF04
		0x77, 0x04, 0x00, 0x00, 0x18, 0xfa) // loop: LD (HL),A; INC B; NOP; NOP; JR loop
	m := rig.MustNew(rom, rig.Opts{})
	for k := 0; k < 64; k++ {
		m.Step()
	}
	for k := 0; k < period && !(m.CPU.XAtBoundary() && m.CPU.XGetRegs().PC == 0x154); k++ {
		m.Step()
	}
	look := func() obs {
		return obs{m.CPU.XGetRegs().PC, m.CPU.XAtBoundary(), m.Timer.XCounter()}
	}
	var pattern [period]obs
	for k := 0; k < period; k++ {
		m.Step()
		pattern[k] = look()
	}
	// the pattern itself must be sane: the counter is cleared once per pass
	cleared := 0
	for k := 0; k < period; k++ {
		if pattern[k].counter <= 4 {
			cleared++
		}
	}
	if cleared != 1 {
		c.Violate(class+"-pattern", fmt.Sprintf("the 8-cycle loop with one store to DIV does not clear the divider exactly once per pass: %+v", pattern), nil)
		return false
	}
	for t := int64(period); t < n; t++ {
		m.Step()
		if got := look(); got != pattern[t%period] {
			c.Violate(class, fmt.Sprintf("an 8-cycle loop (LD (HL),A with HL=FF04; INC B; NOP; NOP; JR) run for a long time: %d machine cycles after the first pass, cycle %d of the pass shows PC=%04X boundary=%v divider=%04X, the first passes showed PC=%04X boundary=%v divider=%04X",
				t, t%period, got.pc, got.boundary, got.counter, pattern[t%period].pc, pattern[t%period].boundary, pattern[t%period].counter), nil)
			return false
		}
	}
	c.Count("long_life_cycles", n)
	return true
}
