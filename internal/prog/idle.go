package prog

import "verif/internal/rig"

// IdleLoops builds a program made of the wait-for-interrupt idioms guest code uses instead of
// HALT: an instruction that jumps to itself (JR -2, JP self, JR cc,-2 with the condition held,
// NOP; JR -3) with the master enable set and a timer interrupt on its way. Every handler moves
// the return address past the loop (POP HL; ADD HL,DE; PUSH HL) and returns with RETI or
// EI; RET, so each loop is left by exactly one interrupt that arrives at an arbitrary machine
// cycle of the looping instruction.
func IdleLoops(r *rig.Rng) *Program {
	rom := rig.BlankROM(0, 0, 0)
	pc := 0x150
	emit := func(b ...byte) { copy(rom[pc:], b); pc += len(b) }
	io := func(reg, v uint8) { emit(0x3e, v, 0xe0, reg) }
	rig.Put(rom, 0x100, 0x00, 0xc3, 0x50, 0x01)
	kind := r.Intn(4)
	n := []uint8{2, 3, 2, 3}[kind]
	for v := 0x40; v <= 0x60; v += 8 {
		if r.Bool() {
			rig.Put(rom, v, 0xe1, 0x11, n, 0x00, 0x19, 0xe5, 0xd9) // ...; RETI
		} else {
			rig.Put(rom, v, 0xe1, 0x11, n, 0x00, 0x19, 0xe5, 0xfb, 0xc9) // ...; EI; RET
		}
	}
	emit(0x31, 0xf0, 0xdf)
	io(0xff, 0x04)
	io(0x06, r.U8())
	tac := 0x04 | uint8(r.Intn(4))
	if tac == 0x04 {
		tac = 0x05
	}
	io(0x07, tac)
	loop := pc
	items := 0
	for pc < 0x2e00 && items < 120 {
		io(0x05, 0xe0|r.U8())
		for k := r.Intn(4); k > 0; k-- {
			emit([]byte{0x00, 0x04, 0x0c, 0x14, 0x1c, 0x3c}[r.Intn(6)])
		}
		if kind == 2 {
			emit(0x3e, 0x01, 0xb7) // LD A,1; OR A: Z clear
		}
		emit(0xfb)
		if r.Chance(1, 3) {
			emit(0x00) // the EI delay slot is not always the looping instruction
		}
		switch kind {
		case 0:
			emit(0x18, 0xfe)
		case 1:
			emit(0xc3, uint8(pc), uint8(pc>>8))
		case 2:
			emit(0x20, 0xfe)
		case 3:
			emit(0x00, 0x18, 0xfd)
		}
		emit(0x00, 0x00, 0x00, 0x00)
		items++
	}
	emit(0xc3, uint8(loop), uint8(loop>>8))
	h := rig.NewHasher()
	h.B(rom[:0x4000])
	return &Program{ROM: rom, Hash: h.Sum(), CartType: 0, Items: items, Seed: "idle-loops"}
}

// StopLoop builds a program that keeps entering STOP mode (left only by a key press) between
// stretches of work that leave a visible trail (register arithmetic, HRAM counters, JOYP reads,
// objects moved on screen).
func StopLoop(r *rig.Rng) *Program {
	rom := rig.BlankROM(0, 0, 0)
	pc := 0x150
	emit := func(b ...byte) { copy(rom[pc:], b); pc += len(b) }
	io := func(reg, v uint8) { emit(0x3e, v, 0xe0, reg) }
	rig.Put(rom, 0x100, 0x00, 0xc3, 0x50, 0x01)
	emit(0x31, 0xf0, 0xdf)
	io(0x00, uint8(r.Intn(4))<<4) // JOYP select
	loop := pc
	for k := 0; k < 30; k++ {
		for n := 1 + r.Intn(6); n > 0; n-- {
			emit([]byte{0x04, 0x0c, 0x14, 0x1c, 0x24, 0x2c, 0x3c, 0x80, 0x88}[r.Intn(9)])
		}
		emit(0xf0, 0x00, 0x47)                             // LDH A,(00); LD B,A
		emit(0xf0, 0x80, 0x3c, 0xe0, 0x80)                 // counter in HRAM
		emit(0x3e, r.U8(), 0xea, uint8(r.Intn(160)), 0xfe) // an OAM byte
		if r.Chance(2, 3) {
			emit(0x10, 0x00) // STOP
		}
		for n := r.Intn(200); n > 0; n-- {
			emit(0x00)
		}
	}
	emit(0xc3, uint8(loop), uint8(loop>>8))
	h := rig.NewHasher()
	h.B(rom[:0x4000])
	return &Program{ROM: rom, Hash: h.Sum(), CartType: 0, Items: 30, Seed: "stop-loop"}
}

// Battery builds a program for a battery-backed cartridge type whose visible behaviour depends
// on what cartridge RAM (and, for the clock types, the clock registers) holds at power-on: it
// enables RAM, reads bytes before ever writing them, sends them over the serial port, folds them
// into registers, increments them in place and loops.
func Battery(r *rig.Rng, cart uint8) *Program {
	ram := uint8(3)
	if cart == 0x06 || cart == 0x0f {
		ram = 0
	}
	rom := rig.BlankROM(cart, 1, ram)
	pc := 0x150
	emit := func(b ...byte) { copy(rom[pc:], b); pc += len(b) }
	rig.Put(rom, 0x100, 0x00, 0xc3, 0x50, 0x01)
	emit(0x31, 0xf0, 0xdf)
	emit(0x3e, 0x0a, 0xea, 0x00, 0x00) // enable RAM
	loop := pc
	for k := 0; k < 24; k++ {
		a := 0xa000 + uint16(r.Intn(0x200))
		if r.Chance(1, 4) {
			emit(0x3e, uint8(r.Intn(4)), 0xea, 0x00, 0x40) // RAM bank
		}
		if (cart == 0x0f || cart == 0x10) && r.Chance(1, 4) {
			emit(0x3e, uint8(0x08+r.Intn(5)), 0xea, 0x00, 0x40)              // a clock register
			emit(0x3e, 0x00, 0xea, 0x00, 0x60, 0x3e, 0x01, 0xea, 0x00, 0x60) // latch
		}
		emit(0x21, uint8(a), uint8(a>>8)) // LD HL,a
		emit(0x7e, 0xe0, 0x01)            // LD A,(HL); LDH (01),A
		emit(0x80, 0x47)                  // ADD A,B; LD B,A
		emit(0x34)                        // INC (HL)
		if r.Chance(1, 3) {
			emit(0x36, r.U8()) // LD (HL),n
		}
	}
	emit(0xc3, uint8(loop), uint8(loop>>8))
	h := rig.NewHasher()
	h.B(rom[:0x4000])
	return &Program{ROM: rom, Hash: h.Sum(), CartType: cart, Items: 24, Seed: "battery"}
}

// LowAreaRemap builds a 1 MiB MBC1 program that executes from 0000-3FFF while it remaps that
// area: in mode 1 the BANK2 register selects which of banks 00/20 appears there. The
// two banks hold instruction streams of identical layout (same lengths at the same addresses)
// but different opcodes and operands, and the register stores that switch between them sit at the
// same addresses in all of them, so execution carries on in another bank's code after every
// switch.
func LowAreaRemap(r *rig.Rng) *Program {
	rom := rig.BlankROM(0x01, 5, 0)
	banks := []int{0x00, 0x20} // BANK2 values 2 and 3 alias these in a 64-bank image
	put := func(pc int, per func(b int) []byte) int {
		n := 0
		for bi, b := range banks {
			code := per(bi)
			copy(rom[b*0x4000+pc:], code)
			n = len(code)
		}
		return pc + n
	}
	same := func(code ...byte) func(int) []byte { return func(int) []byte { return code } }
	for _, b := range banks {
		rig.Put(rom, b*0x4000+0x100, 0x00, 0xc3, 0x50, 0x01)
		rom[b*0x4000+0x147], rom[b*0x4000+0x148], rom[b*0x4000+0x149] = 0x01, 5, 0
	}
	pc := 0x150
	pc = put(pc, same(0x31, 0xf0, 0xdf))             // LD SP,DFF0
	pc = put(pc, same(0x3e, 0x01, 0xea, 0x00, 0x60)) // mode 1
	loop := pc
	one := [][]byte{{0x04, 0x0c, 0x14, 0x1c}, {0x05, 0x0d, 0x15, 0x1d}, {0x3c, 0x24, 0x2c, 0x07}, {0x3d, 0x25, 0x2d, 0x0f}}
	two := []byte{0x06, 0x0e, 0x16, 0x1e}
	items := 0
	for pc < 0x3e00 && items < 200 {
		for k := r.Intn(6); k > 0; k-- {
			if r.Bool() {
				sel := r.Intn(4)
				pc = put(pc, func(bi int) []byte { return []byte{one[bi][sel]} })
			} else {
				v := r.U8()
				pc = put(pc, func(bi int) []byte { return []byte{two[bi], v + uint8(bi)*0x11} })
			}
		}
		pc = put(pc, same(0x3e, uint8(r.Intn(4)), 0xea, 0x00, 0x40)) // BANK2 <- 0..3
		items++
	}
	pc = put(pc, same(0xc3, uint8(loop), uint8(loop>>8)))
	h := rig.NewHasher()
	h.B(rom[:0x4000])
	h.B(rom[0x20*0x4000 : 0x21*0x4000])
	return &Program{ROM: rom, Hash: h.Sum(), CartType: 0x01, Items: items, Seed: "low-area-remap"}
}

// DMAStream builds a program that keeps OAM DMA transfers in flight nearly all the time (a new
// transfer every ~190 machine cycles, so that one is under way at almost every frame boundary),
// from ROM pages filled with data of its own, with objects switched on; after each transfer it
// folds a few OAM bytes into registers, HRAM and the serial port.
func DMAStream(r *rig.Rng) *Program {
	rom := rig.BlankROM(0, 0, 0)
	for a := 0x1000; a < 0x4000; a++ {
		rom[a] = r.U8()
	}
	pc := 0x150
	emit := func(b ...byte) { copy(rom[pc:], b); pc += len(b) }
	io := func(reg, v uint8) { emit(0x3e, v, 0xe0, reg) }
	rig.Put(rom, 0x100, 0x00, 0xc3, 0x50, 0x01)
	emit(0x31, 0xf0, 0xdf)
	io(0x48, r.U8())
	io(0x49, r.U8())
	io(0x40, 0x93|r.U8()&0x04)
	loop := pc
	for k := 0; k < 24; k++ {
		io(0x46, uint8(0x10+r.Intn(0x30)))
		emit(0x06, uint8(42+r.Intn(8)), 0x05, 0x20, 0xfd)        // LD B,n; DEC B; JR NZ,-3: the transfer completes
		emit(0xfa, uint8(r.Intn(160)), 0xfe, 0x81, 0x4f)         // LD A,(FExx); ADD A,C; LD C,A
		emit(0xe0, uint8(0x80+r.Intn(0x40)), 0xe0, 0x01)         // LDH (80+),A; LDH (01),A
		emit(0xfa, 0x9f, 0xfe, 0xea, uint8(r.Intn(0x100)), 0xc1) // LD A,(FE9F); LD (C1xx),A
	}
	emit(0xc3, uint8(loop), uint8(loop>>8))
	h := rig.NewHasher()
	h.B(rom[:0x4000])
	return &Program{ROM: rom, Hash: h.Sum(), CartType: 0, Items: 24, Seed: "dma-stream"}
}

// BigROM builds a 4 MiB or 8 MiB MBC5 program (256 or 512 banks, every bank holding bytes of its
// own) whose very first action is to map banks from the upper half of the image and read them:
// what it reads goes to the serial port, into registers and into work RAM.
func BigROM(r *rig.Rng) *Program {
	size := uint8(7 + r.Intn(2))
	rom := rig.BlankROM(0x19, size, 0)
	banks := 2 << size
	for b := 1; b < banks; b++ {
		for k := 0; k < 64; k++ {
			rom[b*0x4000+k] = uint8(rig.Hash(uint64(b), uint64(k)) | 1)
		}
	}
	pc := 0x150
	emit := func(b ...byte) { copy(rom[pc:], b); pc += len(b) }
	rig.Put(rom, 0x100, 0x00, 0xc3, 0x50, 0x01)
	loop := pc
	for k := 0; k < 60; k++ {
		b := banks/2 + r.Intn(banks/2)
		if k%4 == 3 {
			b = r.Intn(banks)
		}
		emit(0x3e, uint8(b), 0xea, 0x00, 0x20, 0x3e, uint8(b>>8), 0xea, 0x00, 0x30) // bank number, low and high part
		emit(0xfa, uint8(r.Intn(64)), 0x40)                                         // LD A,(40xx)
		emit(0xe0, 0x01, 0x80, 0x47, 0xea, uint8(k), 0xc0)                          // LDH (01),A; ADD A,B; LD B,A; LD (C0kk),A
	}
	emit(0xc3, uint8(loop), uint8(loop>>8))
	h := rig.NewHasher()
	h.B(rom[:0x4000])
	h.U(uint64(size))
	return &Program{ROM: rom, Hash: h.Sum(), CartType: 0x19, Items: 60, Seed: "big-rom"}
}
