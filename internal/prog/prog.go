// Package prog generates SM83 programs (workload W-PROG). A program is a complete ROM image,
// so the same program can run on the component rig and, written to a file, through
// gameboy.New. Two generators: Generate (grammar: well-formed instruction sequences with
// pointer loads aimed at interesting regions, balanced stack use, interrupt handlers, bounded
// control flow) and RandomBytes (hostile: random bytes as code).
package prog

import (
	"fmt"

	"verif/internal/rig"
)

type Options struct {
	Interrupts bool // enable timer/IF-driven interrupts, EI/DI/HALT/RETI in the body
	AllOpcodes bool // draw opcodes uniformly from all 501 defined ones
	OAMFocus   bool // aim 16-bit registers and SP at FE00-FEFF
	Serial     bool // write SB/SC often
	Hardware   bool // LCD on/off, DMA starts, timer and sound register writes
	MBCWrites  bool // writes to 0000-7FFF (cartridge control)
	CartType   int  // -1 = random among supported small carts
	LCDOff     bool // switch the LCD off in the prologue
	Stops      bool // STOP instructions in the body (the harness delivers key events)
	NoHalt     bool
}

type Program struct {
	ROM      []byte
	Hash     uint64
	CartType uint8
	Items    int
	Opt      Options
	Seed     string
}

func (p *Program) Describe() string {
	return fmt.Sprintf("grammar program cart=%02X items=%d opts=%+v hash=%016x", p.CartType, p.Items, p.Opt, p.Hash)
}

const (
	mainOrg = 0x0150
	mainEnd = 0x2f00
	subOrg  = 0x3000
	subSize = 0x40
	nSubs   = 16
)

type gen struct {
	r    *rig.Rng
	o    Options
	rom  []byte
	pc   int
	mbc  bool
	nops int
}

func (g *gen) emit(b ...byte) {
	copy(g.rom[g.pc:], b)
	g.pc += len(b)
}

func isUndefined(op uint8) bool {
	switch op {
	case 0xd3, 0xdb, 0xdd, 0xe3, 0xe4, 0xeb, 0xec, 0xed, 0xf4, 0xfc, 0xfd:
		return true
	}
	return false
}

// aimed returns an address in an interesting region.
func (g *gen) aimed() uint16 {
	r := g.r
	if g.o.OAMFocus && r.Chance(3, 5) {
		return 0xfe00 + uint16(r.Intn(0x100))
	}
	switch r.Intn(16) {
	case 0:
		return 0xfe00 + uint16(r.Intn(0x100)) // OAM and the unused area behind it
	case 1:
		return 0xff00 + uint16(r.Intn(0x80)) // I/O
	case 2:
		return 0x8000 + uint16(r.Intn(0x2000)) // VRAM
	case 3:
		return 0xa000 + uint16(r.Intn(0x2000)) // cartridge RAM
	case 4:
		return 0xe000 + uint16(r.Intn(0x1e00)) // echo
	case 5:
		return 0xff80 + uint16(r.Intn(0x7f)) // HRAM
	case 6:
		return r.Pick16([]uint16{0xdfff, 0xe000, 0xfdff, 0xfe00, 0xfe9f, 0xfea0, 0xfeff, 0xff00, 0xff7f, 0xff80, 0xfffe, 0xffff, 0x9fff, 0xa000, 0xbfff, 0xc000, 0x7fff, 0x8000})
	case 7:
		if g.o.MBCWrites {
			return uint16(r.Intn(0x8000))
		}
		return 0xc000 + uint16(r.Intn(0x2000))
	}
	return 0xc000 + uint16(r.Intn(0x1f00)) // WRAM (below the stack page)
}

func (g *gen) stackAddr() uint16 {
	if g.o.OAMFocus && g.r.Chance(1, 3) {
		return 0xfe00 + uint16(g.r.Intn(0x100))&0xfffe
	}
	switch g.r.Intn(6) {
	case 0:
		return 0xfffe
	case 1:
		return 0xffa0 + uint16(g.r.Intn(0x2f))*2 // high RAM (FFA0-FFFC)
	case 2:
		return 0xfd00 + uint16(g.r.Intn(0x40))*2 // the top of the echo area (FD00-FD7E)
	}
	return 0xdf00 + uint16(g.r.Intn(0x80))*2
}

func (g *gen) loadPtr(which int, addr uint16) {
	g.emit([]byte{0x01, 0x11, 0x21}[which], uint8(addr), uint8(addr>>8))
}

// oneByteFiller emits k one-byte register instructions (valid landing pads for skips).
func (g *gen) oneByteFiller(k int) {
	pool := []byte{0x00, 0x04, 0x05, 0x0c, 0x0d, 0x14, 0x1c, 0x24, 0x2c, 0x3c, 0x3d, 0x07, 0x0f, 0x17, 0x1f, 0x27, 0x2f, 0x37, 0x3f,
		0x41, 0x4a, 0x53, 0x5c, 0x65, 0x6f, 0x78, 0x80, 0x89, 0x92, 0x9b, 0xa4, 0xad, 0xb0, 0xb9, 0x03, 0x0b, 0x13, 0x1b, 0x23, 0x2b, 0x09, 0x19, 0x29}
	for i := 0; i < k; i++ {
		g.emit(pool[g.r.Intn(len(pool))])
	}
}

// emitOp emits opcode op wrapped so that execution stays inside the program.
func (g *gen) emitOp(op uint8) {
	r := g.r
	x, y, z := op>>6, (op>>3)&7, op&7
	switch {
	case op == 0xcb:
		cb := r.U8()
		if cb&7 == 6 && r.Chance(3, 4) {
			g.loadPtr(2, g.aimed())
		}
		g.emit(0xcb, cb)
	case op == 0x10: // STOP: never emitted (needs a button press to resume)
		g.emit(0x00)
	case op == 0x76:
		if g.o.Interrupts && !g.o.NoHalt {
			g.emit(0x76)
			g.oneByteFiller(1 + r.Intn(2))
		} else {
			g.emit(0x00)
		}
	case x == 0 && z == 0 && y >= 3: // JR / JR cc
		k := r.Intn(5)
		g.emit(op, uint8(k))
		g.oneByteFiller(k)
	case x == 0 && z == 0 && y == 1: // LD (nn),SP
		a := g.aimed()
		g.emit(op, uint8(a), uint8(a>>8))
	case x == 0 && z == 1 && y&1 == 0: // LD rp,nn
		if y>>1 == 3 {
			a := g.stackAddr()
			g.emit(op, uint8(a), uint8(a>>8))
		} else if r.Chance(2, 3) {
			a := g.aimed()
			g.emit(op, uint8(a), uint8(a>>8))
		} else {
			g.emit(op, r.U8(), r.U8())
		}
	case x == 0 && z == 2: // LD (rp),A / LD A,(rp)
		if r.Chance(3, 4) {
			p := int(y >> 1)
			if p > 2 {
				p = 2
			}
			g.loadPtr(p, g.aimed())
		}
		g.emit(op)
	case x == 0 && (z == 4 || z == 5) && y == 6, x == 1 && (y == 6 || z == 6), x == 2 && z == 6: // (HL) forms
		if r.Chance(3, 4) {
			g.loadPtr(2, g.aimed())
		}
		g.emit(op)
	case x == 0 && z == 6: // LD r,n / LD (HL),n
		if y == 6 && r.Chance(3, 4) {
			g.loadPtr(2, g.aimed())
		}
		g.emit(op, r.U8())
	case x == 3 && z == 0 && y < 4, op == 0xc9, op == 0xd9: // RET cc / RET / RETI: return to the next instruction
		if op == 0xd9 && !g.o.Interrupts {
			op = 0xc9
		}
		next := g.pc + 3 + 1 + 1
		if op != 0xc9 && op != 0xd9 {
			next++ // POP BC after a not-taken RET cc
		}
		g.emit(0x01, uint8(next), uint8(next>>8), 0xc5, op)
		if op != 0xc9 && op != 0xd9 {
			g.emit(0xc1)
		}
	case x == 3 && z == 0 && (y == 4 || y == 6): // LDH (n),A / LDH A,(n)
		n := r.U8()
		if r.Chance(1, 2) {
			n |= 0x80
		}
		if g.o.Serial && r.Chance(1, 2) {
			n = uint8(1 + r.Intn(2))
		}
		g.emit(op, n)
	case x == 3 && z == 0 && (y == 5 || y == 7): // ADD SP,e / LD HL,SP+e
		g.emit(op, r.U8())
		if y == 5 {
			a := g.stackAddr()
			g.emit(0x31, uint8(a), uint8(a>>8))
		}
	case x == 3 && z == 1 && y&1 == 0: // POP: balanced with a PUSH
		g.emit([]byte{0xc5, 0xd5, 0xe5, 0xf5}[r.Intn(4)])
		g.oneByteFiller(r.Intn(3))
		g.emit(op)
	case op == 0xe9: // JP HL
		next := g.pc + 4
		g.emit(0x21, uint8(next), uint8(next>>8), 0xe9)
	case op == 0xf9: // LD SP,HL
		a := g.stackAddr()
		g.emit(0x21, uint8(a), uint8(a>>8), 0xf9)
	case x == 3 && z == 2 && y < 4, op == 0xc3: // JP cc,nn / JP nn: over a valid landing pad
		k := r.Intn(4)
		next := g.pc + 3 + k
		g.emit(op, uint8(next), uint8(next>>8))
		g.oneByteFiller(k)
	case x == 3 && z == 2 && (y == 4 || y == 6): // LD (C),A / LD A,(C)
		if r.Chance(2, 3) {
			n := r.U8()
			if r.Chance(1, 2) {
				n |= 0x80
			}
			g.emit(0x0e, n)
		}
		g.emit(op)
	case x == 3 && z == 2 && (y == 5 || y == 7): // LD (nn),A / LD A,(nn)
		a := g.aimed()
		g.emit(op, uint8(a), uint8(a>>8))
	case op == 0xf3:
		g.emit(op)
	case op == 0xfb:
		if g.o.Interrupts {
			g.emit(op)
		} else {
			g.emit(0x00)
		}
	case x == 3 && z == 4 && y < 4, op == 0xcd: // CALL cc / CALL
		s := subOrg + r.Intn(nSubs)*subSize
		g.emit(op, uint8(s), uint8(s>>8))
	case x == 3 && z == 5 && y&1 == 0: // PUSH: balanced with a POP
		g.emit(op)
		g.oneByteFiller(r.Intn(3))
		g.emit([]byte{0xc1, 0xd1, 0xe1, 0xf1}[r.Intn(4)])
	case x == 3 && z == 6: // ALU A,n
		g.emit(op, r.U8())
	case x == 3 && z == 7: // RST
		g.emit(op)
	default:
		g.emit(op)
	}
}

func (g *gen) ioWrite(reg uint8, v uint8) { g.emit(0x3e, v, 0xe0, reg) }

func (g *gen) item() {
	r := g.r
	o := g.o
	k := r.Intn(100)
	switch {
	case o.Stops && k >= 98:
		// STOP (left by a key press, which the harness must deliver), sometimes after a store to
		// the unmapped FF4D; the byte after STOP is a NOP
		if r.Chance(1, 2) {
			g.ioWrite(0x4d, r.U8())
		}
		g.emit(0x10, 0x00)
	case k == 97 && !o.Interrupts && !o.AllOpcodes: // (no interrupt may arrive while the stack is there)
		// a push immediately followed by a pop with the stack pointer somewhere stores do not
		// stick (ROM, unmapped I/O, read-only registers): the pop must read what is there
		a := r.Pick16([]uint16{uint16(r.Intn(0x8000)), 0xff00 + uint16(r.Intn(0x80)), 0xfea0 + uint16(r.Intn(0x60)), 0xff44, 0xff05})
		g.emit(0x31, uint8(a), uint8(a>>8))
		g.emit([]byte{0xc5, 0xd5, 0xe5, 0xf5}[r.Intn(4)])
		g.emit([]byte{0xc1, 0xd1, 0xe1}[r.Intn(3)])
		s := g.stackAddr()
		g.emit(0x31, uint8(s), uint8(s>>8))
	case k == 96:
		// the no-op register moves that debuggers and test harnesses use as markers: a breakpoint
		// (LD B,B), a debug message (LD D,D; JR over "64 64 00 00" and a text) and their siblings.
		// For the CPU they are plain one-cycle loads and a three-cycle jump.
		switch r.Intn(3) {
		case 0:
			g.emit(0x40)
		case 1:
			n := r.Intn(12)
			g.emit(0x52, 0x18, uint8(4+n), 0x64, 0x64, 0x00, 0x00)
			for ; n > 0; n-- {
				g.emit(uint8(0x20 + r.Intn(0x5f)))
			}
		case 2:
			g.emit([]byte{0x49, 0x52, 0x5b, 0x64, 0x6d, 0x7f}[r.Intn(6)])
		}
	case o.Interrupts && k < 6:
		switch r.Intn(6) {
		case 0:
			g.ioWrite(0xff, r.U8()&0x1f) // IE
		case 1:
			g.ioWrite(0x0f, r.U8()&0x1f) // IF
		case 2:
			g.emit(0xfb)
		case 3:
			g.emit(0xf3)
		case 4:
			g.ioWrite(0x07, 0x04|uint8(r.Intn(4))) // TAC on
			g.ioWrite(0x05, 0xf0|r.U8())
		case 5:
			if !o.NoHalt {
				g.ioWrite(0xff, 0x04)
				g.ioWrite(0x07, 0x05)
				g.emit(0x76)
				g.oneByteFiller(2)
			}
		}
	case o.Serial && k < 16:
		if r.Chance(4, 5) {
			g.ioWrite(0x01, r.U8())
		} else {
			g.ioWrite(0x02, r.U8())
		}
	case o.Hardware && k < 26:
		switch r.Intn(8) {
		case 0:
			g.ioWrite(0x40, r.U8()|0x80)
		case 1:
			g.ioWrite(0x40, r.U8()&0x7f)
		case 2:
			g.ioWrite(0x46, uint8(r.Intn(0xf2)))
		case 3:
			g.ioWrite(0x41, r.U8())
		case 4:
			g.ioWrite(0x26, r.U8())
		case 5:
			g.ioWrite(uint8(0x10+r.Intn(0x30)), r.U8())
		case 6:
			g.ioWrite(uint8(0x04+r.Intn(4)), r.U8())
		case 7:
			g.ioWrite(0x45, uint8(r.Intn(160)))
		}
	case o.MBCWrites && g.mbc && k < 32:
		if r.Chance(1, 5) {
			// a register of the cartridge's clock (if it has one) or a RAM bank is selected and
			// A000 accessed back to back
			g.emit(0x3e, uint8(r.Intn(0x10)), 0xea, 0x00, 0x40)
			for n := 1 + r.Intn(3); n > 0; n-- {
				if r.Bool() {
					g.emit(0xfa, 0x00, 0xa0)
				} else {
					g.emit(0xea, 0x00, 0xa0)
				}
			}
			return
		}
		a := uint16(r.Intn(0x8000))
		g.emit(0x3e, r.U8(), 0xea, uint8(a), uint8(a>>8))
	case o.OAMFocus && k < 50:
		// move a 16-bit register or SP through FE00-FEFF
		a := 0xfe00 + uint16(r.Intn(0x100))
		switch r.Intn(8) {
		case 0:
			g.loadPtr(r.Intn(3), a)
			g.emit([]byte{0x03, 0x13, 0x23, 0x0b, 0x1b, 0x2b}[r.Intn(6)])
		case 1:
			g.emit(0x31, uint8(a), uint8(a>>8))
			g.emit([]byte{0x33, 0x3b, 0xc5, 0xd5, 0xe5, 0xf5, 0xc1, 0xd1, 0xe1}[r.Intn(9)])
			s := g.stackAddr()
			g.emit(0x31, uint8(s), uint8(s>>8))
		case 2:
			g.loadPtr(2, a)
			g.emit([]byte{0x22, 0x32, 0x2a, 0x3a}[r.Intn(4)])
		case 3:
			g.loadPtr(r.Intn(2), a)
			g.emit([]byte{0x02, 0x12, 0x0a, 0x1a}[r.Intn(4)])
		case 4:
			g.loadPtr(2, a)
			g.emit([]byte{0x77, 0x7e, 0x34, 0x35, 0x36, 0x46, 0x70, 0x86}[r.Intn(8)])
			if g.rom[g.pc-1] == 0x36 {
				g.emit(r.U8())
			}
		case 5:
			g.emit(0xea, uint8(a), uint8(a>>8))
		case 6:
			g.emit(0xfa, uint8(a), uint8(a>>8))
		case 7:
			g.loadPtr(0, a)
			g.loadPtr(1, a+uint16(r.Intn(8)))
			g.emit(0x03, 0x13, 0x0b, 0x1b)
		}
	default:
		var op uint8
		if o.AllOpcodes || r.Chance(1, 3) {
			for {
				op = r.U8()
				if !isUndefined(op) {
					break
				}
			}
			if r.Chance(1, 2) && o.AllOpcodes {
				op = 0xcb // half of all defined opcodes are CB-prefixed
			}
		} else {
			pool := []byte{0x04, 0x0c, 0x3c, 0x80, 0x88, 0x90, 0xa0, 0xb8, 0x47, 0x78, 0x06, 0x3e, 0xc6, 0x09, 0x03, 0x23, 0x77, 0x7e, 0x22, 0x2a, 0x34, 0xc5, 0xf1, 0xcd, 0x18, 0x20, 0xcb}
			op = pool[r.Intn(len(pool))]
		}
		g.emitOp(op)
	}
}

// Generate builds a grammar program.
func Generate(r *rig.Rng, o Options) *Program {
	cart := o.CartType
	if cart < 0 || (cart == 0 && !o.MBCWrites && r.Chance(1, 2)) {
		cart = r.PickInt([]int{0x00, 0x01, 0x03, 0x13, 0x1b, 0x05, 0x10})
	}
	romSize, ramSize := byte(1), byte(2)
	if cart == 0 {
		romSize, ramSize = 0, 0
	}
	if cart == 5 || cart == 1 {
		ramSize = 0
	}
	rom := rig.BlankROM(byte(cart), romSize, ramSize)
	g := &gen{r: r, o: o, rom: rom, mbc: cart != 0}
	// RST stubs
	for v := 0; v < 0x40; v += 8 {
		g.pc = v
		g.oneByteFiller(r.Intn(3))
		g.emit(0xc9)
	}
	// interrupt handlers
	for v := 0x40; v <= 0x60; v += 8 {
		g.pc = v
		switch r.Intn(6) {
		case 0:
			g.emit(0xd9)
		case 1:
			g.oneByteFiller(2)
			g.emit(0xd9)
		case 2:
			g.emit(0xf5, 0xf1, 0xd9)
		case 3:
			g.emit(0xc9) // RET: leaves the master enable clear
		case 4:
			g.emit(0xfb, 0xc9)
		case 5:
			g.emit(0xfb, 0x00, 0xc9)
		}
	}
	// entry
	g.pc = 0x100
	g.emit(0x00, 0xc3, uint8(mainOrg&0xff), uint8(mainOrg>>8))
	// subroutines
	for s := 0; s < nSubs; s++ {
		g.pc = subOrg + s*subSize
		n := 1 + r.Intn(6)
		for i := 0; i < n; i++ {
			g.oneByteFiller(1)
		}
		if r.Chance(1, 3) {
			g.emit([]byte{0xc0, 0xc8, 0xd0, 0xd8}[r.Intn(4)])
			g.oneByteFiller(1)
		}
		g.emit(0xc9)
	}
	// prologue
	g.pc = mainOrg
	sp := g.stackAddr()
	g.emit(0x31, uint8(sp), uint8(sp>>8))
	if o.LCDOff {
		// wait-free: this emulator allows switching the LCD off at any time
		g.ioWrite(0x40, 0x11)
	}
	if g.mbc && r.Chance(3, 4) {
		g.emit(0x3e, 0x0a, 0xea, 0x00, 0x00) // enable cartridge RAM
	}
	if o.Interrupts {
		g.ioWrite(0xff, r.U8()&0x1f)
		g.ioWrite(0x06, r.U8())
		g.ioWrite(0x07, 0x04|uint8(r.Intn(4)))
		if r.Chance(2, 3) {
			g.emit(0xfb)
		}
	}
	loop := g.pc
	items := 0
	limit := mainEnd - 64
	want := 40 + r.Intn(400)
	for g.pc < limit && items < want {
		g.item()
		items++
		if items%24 == 23 {
			a := g.stackAddr()
			g.emit(0x31, uint8(a), uint8(a>>8))
		}
	}
	g.emit(0xc3, uint8(loop), uint8(loop>>8))
	h := rig.NewHasher()
	h.B(rom[:0x4000])
	return &Program{ROM: rom, Hash: h.Sum(), CartType: byte(cart), Items: items, Opt: o}
}

// RandomBytes builds a hostile program: random bytes as code from 0x0150, random cart type
// among the supported ones.
func RandomBytes(r *rig.Rng) *Program {
	cart := r.PickInt([]int{0x00, 0x01, 0x03, 0x05, 0x13, 0x10, 0x1b, 0x19})
	romSize, ramSize := byte(1), byte(r.PickInt([]int{0, 2, 3}))
	if cart == 0 {
		romSize = 0
	}
	rom := rig.BlankROM(byte(cart), romSize, ramSize)
	for i := 0; i < len(rom); i++ {
		if i < 0x147 || i > 0x149 {
			rom[i] = r.U8()
		}
	}
	rom[0x100], rom[0x101], rom[0x102], rom[0x103] = 0x00, 0xc3, 0x50, 0x01
	h := rig.NewHasher()
	h.B(rom[:0x4000])
	return &Program{ROM: rom, Hash: h.Sum(), CartType: byte(cart)}
}
