package prog

import "verif/internal/rig"

// Sound builds a program that powers the APU, routes everything to both sides, keeps
// triggering audible channels with random parameters and burns time in between.
func Sound(r *rig.Rng) *Program {
	rom := rig.BlankROM(0, 0, 0)
	pc := 0x150
	emit := func(b ...byte) { copy(rom[pc:], b); pc += len(b) }
	io := func(reg, v uint8) { emit(0x3e, v, 0xe0, reg) }
	rig.Put(rom, 0x100, 0x00, 0xc3, 0x50, 0x01)
	if r.Chance(1, 2) {
		io(0x26, 0x00) // the sound hardware is switched off and on again first
	}
	io(0x26, 0x80)
	io(0x24, 0x77)
	io(0x25, 0xff)
	loop := pc
	for k := 0; k < 40; k++ {
		switch r.Intn(6) {
		case 0:
			io(0x10, r.U8()&0x7f)
			io(0x12, 0xf0|r.U8()&0x0f)
			io(0x13, r.U8())
			io(0x14, 0x80|r.U8()&7)
		case 1:
			io(0x17, 0xf0)
			io(0x18, r.U8())
			io(0x19, 0x80|r.U8()&7)
		case 2:
			io(0x1a, 0x80)
			io(0x1c, 0x20)
			io(0x1e, 0x80|r.U8()&7)
		case 3:
			io(0x21, 0xf1)
			io(0x22, r.U8())
			io(0x23, 0x80)
		case 4:
			io(0x25, r.U8())
		case 5:
			// the sound hardware is switched off in mid-play (samples may still be on their way
			// to the host) and on again
			io(0x26, 0x00)
			emit(0x06, uint8(1+r.Intn(40)), 0x05, 0x20, 0xfd)
			io(0x26, 0x80)
			io(0x24, 0x77)
			io(0x25, 0xff)
		}
		io(0x01, uint8(k)) // a serial byte per item: a logical clock for harnesses that cannot count frames
		// burn some time: LD B,n; DEC B; JR NZ,-3
		emit(0x06, uint8(1+r.Intn(255)), 0x05, 0x20, 0xfd)
	}
	emit(0xc3, uint8(loop), uint8(loop>>8))
	h := rig.NewHasher()
	h.B(rom[:0x4000])
	return &Program{ROM: rom, Hash: h.Sum(), CartType: 0, Items: 40}
}
