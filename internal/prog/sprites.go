package prog

import "verif/internal/rig"

// Sprites builds a program that draws overlapping objects: it switches the LCD off, fills a
// few tiles with solid colours, places groups of objects that share pixels (different tiles,
// palettes, priorities), sets the palettes, switches the LCD on with objects enabled and spins.
func Sprites(r *rig.Rng) *Program {
	rom := rig.BlankROM(0, 0, 0)
	pc := 0x150
	emit := func(b ...byte) { copy(rom[pc:], b); pc += len(b) }
	io := func(reg, v uint8) { emit(0x3e, v, 0xe0, reg) }
	rig.Put(rom, 0x100, 0x00, 0xc3, 0x50, 0x01)
	io(0x40, 0x11) // LCD off
	// tiles 1..4: solid colours 1, 2, 3 and a striped one
	fill := func(addr uint16, lo, hi uint8) {
		emit(0x21, uint8(addr), uint8(addr>>8)) // LD HL,addr
		for row := 0; row < 8; row++ {
			emit(0x36, lo, 0x23, 0x36, hi, 0x23) // LD (HL),lo; INC HL; LD (HL),hi; INC HL
		}
	}
	fill(0x8010, 0xff, 0x00)
	fill(0x8020, 0x00, 0xff)
	fill(0x8030, 0xff, 0xff)
	fill(0x8040, 0xaa, 0xcc)
	// objects: groups of 2-4 sharing pixels
	emit(0x21, 0x00, 0xfe) // LD HL,FE00
	n := 0
	for g := 0; g < 6 && n < 36; g++ {
		y := uint8(16 + r.Intn(130))
		x := uint8(8 + r.Intn(150))
		k := 2 + r.Intn(3)
		for j := 0; j < k; j++ {
			oy, ox := y+uint8(r.Intn(5)), x+uint8(j*3)
			tile := uint8(1 + r.Intn(4))
			attr := r.U8() & 0xf0
			for _, v := range []uint8{oy, ox, tile, attr} {
				emit(0x36, v, 0x23) // LD (HL),v; INC HL
			}
			n++
		}
	}
	io(0x47, 0xe4)
	io(0x48, 0xe4)
	io(0x49, 0x1b)
	lcdc := uint8(0x93) // LCD on, BG on, objects on
	if r.Chance(2, 3) {
		// and the window over part of the screen
		io(0x4a, uint8(r.Intn(120)))
		io(0x4b, uint8(7+r.Intn(140)))
		lcdc |= 0x20
		// what the window shows depends on the window line: a tile whose eight rows all differ,
		// and other tiles in the rows below it
		emit(0x21, 0x50, 0x80) // LD HL,8050 (tile 5)
		for row := uint(0); row < 8; row++ {
			emit(0x36, 1<<row, 0x23, 0x36, 0xff>>row, 0x23)
		}
		for row := 0; row < 18; row++ {
			a := 0x9800 + 32*row
			emit(0x21, uint8(a), uint8(a>>8))
			for col := 0; col < 4; col++ {
				emit(0x36, uint8(5-(row+col)%3), 0x23) // tiles 5, 4, 3
			}
		}
	}
	io(0x40, lcdc)
	emit(0x18, 0xfe) // JR -2
	h := rig.NewHasher()
	h.B(rom[:0x4000])
	return &Program{ROM: rom, Hash: h.Sum(), CartType: 0, Items: n}
}

// LCDOffLoop builds a program that switches the LCD off and spins, writing a serial byte about
// every thousand machine cycles (a logical clock for harnesses that cannot count frames).
func LCDOffLoop() *Program {
	rom := rig.BlankROM(0, 0, 0)
	rig.Put(rom, 0x100, 0x00, 0xc3, 0x50, 0x01)
	// LD A,11; LDH (40),A; loop: LD A,55; LDH (01),A; LD B,FF; DEC B; JR NZ,-3; JR loop
	rig.Put(rom, 0x150, 0x3e, 0x11, 0xe0, 0x40, 0x3e, 0x55, 0xe0, 0x01, 0x06, 0xff, 0x05, 0x20, 0xfd, 0x18, 0xf5)
	h := rig.NewHasher()
	h.B(rom[:0x4000])
	return &Program{ROM: rom, Hash: h.Sum()}
}
