package ref

// Reference cartridge controllers. The models keep the raw registers exactly as written and
// compute the effective bank at access time (the implementation under test precomputes banks
// at write time), from the documented register semantics:
//
//	ROM only  no registers; A000-BFFF reads FF
//	MBC1      RAMG 0000-1FFF (low nibble A), BANK1 2000-3FFF (5 bits, 0 reads as 1),
//	          BANK2 4000-5FFF (2 bits), MODE 6000-7FFF (bit 0);
//	          4000-7FFF shows (BANK2<<5 | BANK1), 0000-3FFF shows BANK2<<5 in mode 1 else 0,
//	          RAM bank = BANK2 in mode 1 else 0
//	MBC2      0000-3FFF: address bit 8 clear -> RAMG (low nibble A), set -> ROMB (4 bits, 0 -> 1);
//	          512 x 4 bit RAM repeated through A000-BFFF, upper nibble reads 1
//	MBC3      RAMG, ROMB 2000-3FFF (7 bits, 0 -> 1), RAMB/RTC select 4000-5FFF (0-7 RAM, 8-C clock),
//	          latch 6000-7FFF
//	MBC5      RAMG, ROMB low 2000-2FFF (8 bits), ROMB high 3000-3FFF (bit 0), RAMB 4000-5FFF (4 bits);
//	          bank 0 is allowed
//
// All bank numbers are reduced modulo the number of banks present.

type MBCKind int

const (
	MBCNone MBCKind = iota
	MBC1
	MBC2
	MBC3
	MBC5
)

// KindOf maps a cartridge type byte to a controller (ok=false: not supported by the
// emulator, construction is expected to fail).
func KindOf(cartType uint8) (MBCKind, bool) {
	switch cartType {
	case 0x00:
		return MBCNone, true
	case 0x01, 0x02, 0x03:
		return MBC1, true
	case 0x05, 0x06:
		return MBC2, true
	case 0x0f, 0x10, 0x11, 0x12, 0x13:
		return MBC3, true
	case 0x19, 0x1a, 0x1b, 0x1c, 0x1d, 0x1e:
		return MBC5, true
	}
	return MBCNone, false
}

// RAMBanks returns the number of 8 KiB banks for a RAM size code (a single bank when the
// header declares none).
func RAMBanks(code uint8) int {
	switch code {
	case 0x02:
		return 1
	case 0x03:
		return 4
	case 0x04:
		return 16
	case 0x05:
		return 8
	}
	return 1
}

// MaxROMCode is the largest ROM size code a controller can address.
func MaxROMCode(k MBCKind) uint8 {
	switch k {
	case MBCNone:
		return 0
	case MBC1:
		return 6 // 2 MiB
	case MBC2:
		return 3 // 256 KiB
	case MBC3:
		return 6 // 2 MiB
	case MBC5:
		return 8 // 8 MiB
	}
	return 0
}

type MBC struct {
	Kind     MBCKind
	ROMBanks int
	RAMCount int
	RAM      [][]byte // RAMCount x 0x2000 (MBC2: 1 x 512, low nibbles)

	RAMG  bool
	Bank1 uint8 // MBC1 BANK1 raw 5 bits / MBC2 ROMB raw 4 bits / MBC3 ROMB raw 7 bits
	Bank2 uint8 // MBC1 BANK2 / MBC3 RAMB (4 bits) / MBC5 RAMB (4 bits)
	Mode  bool
	ROMB5 uint16 // MBC5 9-bit bank
}

func NewMBC(cartType, romCode, ramCode uint8) *MBC {
	k, _ := KindOf(cartType)
	m := &MBC{Kind: k, ROMBanks: 2 << romCode, RAMCount: RAMBanks(ramCode)}
	switch k {
	case MBC2:
		m.RAMCount = 1
		m.RAM = [][]byte{make([]byte, 512)}
		for i := range m.RAM[0] {
			m.RAM[0][i] = 0x0f // unknown until written; tracked by the monitors via unique writes
		}
	case MBCNone:
		m.RAMCount = 0
	default:
		m.RAM = make([][]byte, m.RAMCount)
		for i := range m.RAM {
			m.RAM[i] = make([]byte, 0x2000)
			for j := range m.RAM[i] {
				m.RAM[i][j] = 0xff
			}
		}
	}
	m.Bank1 = 0 // reads as 1
	m.ROMB5 = 1
	return m
}

// LowPage is the ROM page visible at 0000-3FFF.
func (m *MBC) LowPage() int {
	if m.Kind == MBC1 && m.Mode {
		return (int(m.Bank2&3) << 5) % m.ROMBanks
	}
	return 0
}

// HighPage is the ROM page visible at 4000-7FFF.
func (m *MBC) HighPage() int {
	switch m.Kind {
	case MBCNone:
		return 1
	case MBC1:
		b := int(m.Bank1 & 0x1f)
		if b == 0 {
			b = 1
		}
		return (int(m.Bank2&3)<<5 | b) % m.ROMBanks
	case MBC2:
		b := int(m.Bank1 & 0x0f)
		if b == 0 {
			b = 1
		}
		return b % m.ROMBanks
	case MBC3:
		b := int(m.Bank1 & 0x7f)
		if b == 0 {
			b = 1
		}
		return b % m.ROMBanks
	case MBC5:
		return int(m.ROMB5&0x1ff) % m.ROMBanks
	}
	return 1
}

// RAMBank is the RAM bank visible at A000-BFFF (-1: a clock register or nothing is selected).
func (m *MBC) RAMBank() int {
	switch m.Kind {
	case MBC1:
		if m.Mode {
			return int(m.Bank2&3) % m.RAMCount
		}
		return 0
	case MBC2:
		return 0
	case MBC3:
		if m.Bank2&0x0f >= 8 {
			return -1
		}
		return int(m.Bank2&0x0f) % m.RAMCount
	case MBC5:
		return int(m.Bank2&0x0f) % m.RAMCount
	}
	return -1
}

// Write applies a guest write to 0000-7FFF or A000-BFFF. It returns true if the write was a
// data write to cartridge RAM that took effect.
func (m *MBC) Write(addr uint16, v uint8) bool {
	switch {
	case addr < 0x8000:
		m.control(addr, v)
		return false
	case addr >= 0xa000 && addr < 0xc000:
		if !m.RAMG || m.Kind == MBCNone {
			return false
		}
		if m.Kind == MBC2 {
			m.RAM[0][addr&0x1ff] = v & 0x0f
			return true
		}
		b := m.RAMBank()
		if b < 0 {
			return false
		}
		m.RAM[b][addr-0xa000] = v
		return true
	}
	return false
}

func (m *MBC) control(addr uint16, v uint8) {
	switch m.Kind {
	case MBC1:
		switch {
		case addr < 0x2000:
			m.RAMG = v&0x0f == 0x0a
		case addr < 0x4000:
			m.Bank1 = v & 0x1f
		case addr < 0x6000:
			m.Bank2 = v & 0x03
		default:
			m.Mode = v&1 != 0
		}
	case MBC2:
		if addr < 0x4000 {
			if addr&0x0100 == 0 {
				m.RAMG = v&0x0f == 0x0a
			} else {
				m.Bank1 = v & 0x0f
			}
		}
	case MBC3:
		switch {
		case addr < 0x2000:
			m.RAMG = v&0x0f == 0x0a
		case addr < 0x4000:
			m.Bank1 = v & 0x7f
		case addr < 0x6000:
			m.Bank2 = v & 0x0f
		}
	case MBC5:
		switch {
		case addr < 0x2000:
			m.RAMG = v&0x0f == 0x0a
		case addr < 0x3000:
			m.ROMB5 = m.ROMB5&0x100 | uint16(v)
		case addr < 0x4000:
			m.ROMB5 = m.ROMB5&0xff | uint16(v&1)<<8
		case addr < 0x6000:
			m.Bank2 = v & 0x0f
		}
	}
}

// ReadRAM returns the documented value of a read from A000-BFFF and whether the model
// defines it (false when an MBC3 clock register is selected: C10 judges those).
func (m *MBC) ReadRAM(addr uint16) (uint8, bool) {
	if m.Kind == MBCNone || !m.RAMG {
		return 0xff, true
	}
	if m.Kind == MBC2 {
		return 0xf0 | m.RAM[0][addr&0x1ff], true
	}
	b := m.RAMBank()
	if b < 0 {
		return 0, false
	}
	return m.RAM[b][addr-0xa000], true
}
