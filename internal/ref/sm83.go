// Package ref holds reference models written from the public documentation (Pan Docs, the
// SM83 opcode tables, blargg's and Gekkio's test-ROM notes). Nothing here imports tetromino.
//
// The SM83 model decodes by bit-fields (x = op>>6, y = (op>>3)&7, z = op&7, register array
// indexed by z) rather than by a 512-entry table, and derives effect, length, machine-cycle
// count and the data-access schedule from the same decode.
package ref

// Regs is the architectural register file.
type Regs struct {
	A, F, B, C, D, E, H, L uint8
	SP, PC                 uint16
}

func (r *Regs) BC() uint16     { return uint16(r.B)<<8 | uint16(r.C) }
func (r *Regs) DE() uint16     { return uint16(r.D)<<8 | uint16(r.E) }
func (r *Regs) HL() uint16     { return uint16(r.H)<<8 | uint16(r.L) }
func (r *Regs) SetBC(v uint16) { r.B, r.C = uint8(v>>8), uint8(v) }
func (r *Regs) SetDE(v uint16) { r.D, r.E = uint8(v>>8), uint8(v) }
func (r *Regs) SetHL(v uint16) { r.H, r.L = uint8(v>>8), uint8(v) }

const (
	FZ = 0x80
	FN = 0x40
	FH = 0x20
	FC = 0x10
)

// IME effects of an instruction.
const (
	IMENone = 0
	IMEDI   = 1 // cleared immediately
	IMEEI   = 2 // set after the following instruction
	IMERETI = 3 // set immediately
)

// Access is one data access through an address (not an opcode or immediate fetch).
type Access struct {
	Addr  uint16
	Val   uint8 // value written, or value the model consumed for a read
	Write bool
	Cycle int // 1-based machine cycle of the instruction in which it happens
}

// Result is the documented outcome of executing one instruction.
type Result struct {
	Regs      Regs
	Acc       []Access
	Cycles    int
	Len       int // bytes including CB prefix
	IME       int
	Halt      bool
	Stop      bool
	Undefined bool
	Op        uint8
	CB        bool
	Cond      bool // conditional instruction
	Taken     bool
	accBuf    [4]Access
}

// Writes returns the write accesses.
func (r *Result) Writes() []Access {
	var w []Access
	for _, a := range r.Acc {
		if a.Write {
			w = append(w, a)
		}
	}
	return w
}

type exec struct {
	r   Regs
	rd  func(uint16) uint8
	res *Result
	bug bool
}

func (e *exec) read(addr uint16, cycle int) uint8 {
	v := e.rd(addr)
	e.res.Acc = append(e.res.Acc, Access{Addr: addr, Val: v, Cycle: cycle})
	return v
}

func (e *exec) write(addr uint16, v uint8, cycle int) {
	e.res.Acc = append(e.res.Acc, Access{Addr: addr, Val: v, Write: true, Cycle: cycle})
}

func (e *exec) imm8() uint8 {
	v := e.rd(e.r.PC)
	e.r.PC++
	return v
}

func (e *exec) imm16() uint16 {
	lo := e.imm8()
	hi := e.imm8()
	return uint16(hi)<<8 | uint16(lo)
}

// reg8 reads register z (0=B 1=C 2=D 3=E 4=H 5=L 7=A); 6 is (HL) and handled by callers.
func (e *exec) reg8(z uint8) uint8 {
	switch z {
	case 0:
		return e.r.B
	case 1:
		return e.r.C
	case 2:
		return e.r.D
	case 3:
		return e.r.E
	case 4:
		return e.r.H
	case 5:
		return e.r.L
	case 7:
		return e.r.A
	}
	panic("reg8(6)")
}

func (e *exec) setReg8(z uint8, v uint8) {
	switch z {
	case 0:
		e.r.B = v
	case 1:
		e.r.C = v
	case 2:
		e.r.D = v
	case 3:
		e.r.E = v
	case 4:
		e.r.H = v
	case 5:
		e.r.L = v
	case 7:
		e.r.A = v
	default:
		panic("setReg8(6)")
	}
}

// rp: 0 BC, 1 DE, 2 HL, 3 SP
func (e *exec) rp(p uint8) uint16 {
	switch p {
	case 0:
		return e.r.BC()
	case 1:
		return e.r.DE()
	case 2:
		return e.r.HL()
	}
	return e.r.SP
}

func (e *exec) setRp(p uint8, v uint16) {
	switch p {
	case 0:
		e.r.SetBC(v)
	case 1:
		e.r.SetDE(v)
	case 2:
		e.r.SetHL(v)
	default:
		e.r.SP = v
	}
}

func (e *exec) cond(y uint8) bool {
	switch y & 3 {
	case 0:
		return e.r.F&FZ == 0
	case 1:
		return e.r.F&FZ != 0
	case 2:
		return e.r.F&FC == 0
	}
	return e.r.F&FC != 0
}

func flags(z, n, h, c bool) uint8 {
	var f uint8
	if z {
		f |= FZ
	}
	if n {
		f |= FN
	}
	if h {
		f |= FH
	}
	if c {
		f |= FC
	}
	return f
}

// alu performs operation y (0 ADD 1 ADC 2 SUB 3 SBC 4 AND 5 XOR 6 OR 7 CP) on A.
func (e *exec) alu(y uint8, v uint8) {
	a := e.r.A
	var cin uint16
	if e.r.F&FC != 0 {
		cin = 1
	}
	switch y {
	case 0, 1:
		if y == 0 {
			cin = 0
		}
		sum := uint16(a) + uint16(v) + cin
		h := uint16(a&0xf)+uint16(v&0xf)+cin > 0xf
		e.r.A = uint8(sum)
		e.r.F = flags(uint8(sum) == 0, false, h, sum > 0xff)
	case 2, 3, 7:
		if y != 3 {
			cin = 0
		}
		diff := int(a) - int(v) - int(cin)
		h := int(a&0xf)-int(v&0xf)-int(cin) < 0
		res := uint8(diff)
		e.r.F = flags(res == 0, true, h, diff < 0)
		if y != 7 {
			e.r.A = res
		}
	case 4:
		e.r.A = a & v
		e.r.F = flags(e.r.A == 0, false, true, false)
	case 5:
		e.r.A = a ^ v
		e.r.F = flags(e.r.A == 0, false, false, false)
	case 6:
		e.r.A = a | v
		e.r.F = flags(e.r.A == 0, false, false, false)
	}
}

func (e *exec) inc8(v uint8) uint8 {
	r := v + 1
	e.r.F = e.r.F&FC | flags(r == 0, false, v&0xf == 0xf, false)
	return r
}

func (e *exec) dec8(v uint8) uint8 {
	r := v - 1
	e.r.F = e.r.F&FC | flags(r == 0, true, v&0xf == 0, false)
	return r
}

// rot performs CB operation y (0 RLC 1 RRC 2 RL 3 RR 4 SLA 5 SRA 6 SWAP 7 SRL).
func (e *exec) rot(y uint8, v uint8) uint8 {
	cin := uint8(0)
	if e.r.F&FC != 0 {
		cin = 1
	}
	var r uint8
	var c bool
	switch y {
	case 0:
		c = v&0x80 != 0
		r = v<<1 | v>>7
	case 1:
		c = v&1 != 0
		r = v>>1 | v<<7
	case 2:
		c = v&0x80 != 0
		r = v<<1 | cin
	case 3:
		c = v&1 != 0
		r = v>>1 | cin<<7
	case 4:
		c = v&0x80 != 0
		r = v << 1
	case 5:
		c = v&1 != 0
		r = v>>1 | v&0x80
	case 6:
		r = v<<4 | v>>4
	case 7:
		c = v&1 != 0
		r = v >> 1
	}
	e.r.F = flags(r == 0, false, false, c)
	return r
}

func (e *exec) push16(v uint16, c1, c2 int) {
	e.r.SP--
	e.write(e.r.SP, uint8(v>>8), c1)
	e.r.SP--
	e.write(e.r.SP, uint8(v), c2)
}

func (e *exec) pop16(c1, c2 int) uint16 {
	lo := e.read(e.r.SP, c1)
	e.r.SP++
	hi := e.read(e.r.SP, c2)
	e.r.SP++
	return uint16(hi)<<8 | uint16(lo)
}

func (e *exec) addSPe(ev uint8) uint16 {
	sp := e.r.SP
	h := (sp&0xf)+uint16(ev&0xf) > 0xf
	c := (sp&0xff)+uint16(ev) > 0xff
	e.r.F = flags(false, false, h, c)
	return sp + uint16(int16(int8(ev)))
}

// Exec executes the instruction at r.PC. rd must be a side-effect-free view of memory as it
// is at the start of the instruction. haltBug makes the opcode fetch not advance PC.
func Exec(r Regs, rd func(uint16) uint8, haltBug bool) Result {
	var res Result
	res.Acc = res.accBuf[:0]
	e := &exec{r: r, rd: rd, res: &res}
	pc0 := r.PC
	op := rd(e.r.PC)
	if !haltBug {
		e.r.PC++
	}
	res.Op = op
	x, y, z := op>>6, (op>>3)&7, op&7
	p, q := y>>1, y&1
	cyc := 1
	switch x {
	case 0:
		switch z {
		case 0:
			switch {
			case y == 0: // NOP
			case y == 1: // LD (nn),SP
				nn := e.imm16()
				e.write(nn, uint8(e.r.SP), 4)
				e.write(nn+1, uint8(e.r.SP>>8), 5)
				cyc = 5
			case y == 2: // STOP
				res.Stop = true
			case y == 3: // JR e
				ev := e.imm8()
				e.r.PC += uint16(int16(int8(ev)))
				cyc = 3
			default: // JR cc,e
				res.Cond = true
				ev := e.imm8()
				if e.cond(y - 4) {
					res.Taken = true
					e.r.PC += uint16(int16(int8(ev)))
					cyc = 3
				} else {
					cyc = 2
				}
			}
		case 1:
			if q == 0 { // LD rp,nn
				e.setRp(p, e.imm16())
				cyc = 3
			} else { // ADD HL,rp
				hl := e.r.HL()
				v := e.rp(p)
				sum := uint32(hl) + uint32(v)
				h := (hl&0xfff)+(v&0xfff) > 0xfff
				e.r.SetHL(uint16(sum))
				e.r.F = e.r.F&FZ | flags(false, false, h, sum > 0xffff)
				cyc = 2
			}
		case 2:
			var addr uint16
			switch p {
			case 0:
				addr = e.r.BC()
			case 1:
				addr = e.r.DE()
			default:
				addr = e.r.HL()
			}
			if q == 0 {
				e.write(addr, e.r.A, 2)
			} else {
				e.r.A = e.read(addr, 2)
			}
			if p == 2 {
				e.r.SetHL(e.r.HL() + 1)
			} else if p == 3 {
				e.r.SetHL(e.r.HL() - 1)
			}
			cyc = 2
		case 3:
			if q == 0 {
				e.setRp(p, e.rp(p)+1)
			} else {
				e.setRp(p, e.rp(p)-1)
			}
			cyc = 2
		case 4, 5:
			if y == 6 {
				v := e.read(e.r.HL(), 2)
				if z == 4 {
					v = e.inc8(v)
				} else {
					v = e.dec8(v)
				}
				e.write(e.r.HL(), v, 3)
				cyc = 3
			} else {
				if z == 4 {
					e.setReg8(y, e.inc8(e.reg8(y)))
				} else {
					e.setReg8(y, e.dec8(e.reg8(y)))
				}
			}
		case 6:
			n := e.imm8()
			if y == 6 {
				e.write(e.r.HL(), n, 3)
				cyc = 3
			} else {
				e.setReg8(y, n)
				cyc = 2
			}
		case 7:
			switch y {
			case 0, 1, 2, 3: // RLCA RRCA RLA RRA
				e.r.A = e.rot(y, e.r.A)
				e.r.F &= FC
			case 4: // DAA
				a := e.r.A
				n, h, c := e.r.F&FN != 0, e.r.F&FH != 0, e.r.F&FC != 0
				if !n {
					if c || a > 0x99 {
						a += 0x60
						c = true
					}
					if h || a&0xf > 9 {
						a += 6
					}
				} else {
					if c {
						a -= 0x60
					}
					if h {
						a -= 6
					}
				}
				e.r.A = a
				e.r.F = flags(a == 0, n, false, c)
			case 5: // CPL
				e.r.A = ^e.r.A
				e.r.F |= FN | FH
			case 6: // SCF
				e.r.F = e.r.F&FZ | FC
			case 7: // CCF
				e.r.F = (e.r.F & (FZ | FC)) ^ FC
			}
		}
	case 1:
		if op == 0x76 {
			res.Halt = true
		} else if z == 6 {
			e.setReg8(y, e.read(e.r.HL(), 2))
			cyc = 2
		} else if y == 6 {
			e.write(e.r.HL(), e.reg8(z), 2)
			cyc = 2
		} else {
			e.setReg8(y, e.reg8(z))
		}
	case 2:
		if z == 6 {
			e.alu(y, e.read(e.r.HL(), 2))
			cyc = 2
		} else {
			e.alu(y, e.reg8(z))
		}
	case 3:
		switch z {
		case 0:
			switch {
			case y < 4: // RET cc
				res.Cond = true
				if e.cond(y) {
					res.Taken = true
					e.r.PC = e.pop16(3, 4)
					cyc = 5
				} else {
					cyc = 2
				}
			case y == 4: // LDH (n),A
				n := e.imm8()
				e.write(0xff00|uint16(n), e.r.A, 3)
				cyc = 3
			case y == 5: // ADD SP,e
				e.r.SP = e.addSPe(e.imm8())
				cyc = 4
			case y == 6: // LDH A,(n)
				n := e.imm8()
				e.r.A = e.read(0xff00|uint16(n), 3)
				cyc = 3
			case y == 7: // LD HL,SP+e
				e.r.SetHL(e.addSPe(e.imm8()))
				cyc = 3
			}
		case 1:
			if q == 0 { // POP
				v := e.pop16(2, 3)
				switch p {
				case 0:
					e.r.SetBC(v)
				case 1:
					e.r.SetDE(v)
				case 2:
					e.r.SetHL(v)
				case 3:
					e.r.A = uint8(v >> 8)
					e.r.F = uint8(v) & 0xf0
				}
				cyc = 3
			} else {
				switch p {
				case 0: // RET
					e.r.PC = e.pop16(2, 3)
					cyc = 4
				case 1: // RETI
					e.r.PC = e.pop16(2, 3)
					res.IME = IMERETI
					cyc = 4
				case 2: // JP HL
					e.r.PC = e.r.HL()
				case 3: // LD SP,HL
					e.r.SP = e.r.HL()
					cyc = 2
				}
			}
		case 2:
			switch {
			case y < 4: // JP cc,nn
				res.Cond = true
				nn := e.imm16()
				if e.cond(y) {
					res.Taken = true
					e.r.PC = nn
					cyc = 4
				} else {
					cyc = 3
				}
			case y == 4: // LD (C),A
				e.write(0xff00|uint16(e.r.C), e.r.A, 2)
				cyc = 2
			case y == 5: // LD (nn),A
				nn := e.imm16()
				e.write(nn, e.r.A, 4)
				cyc = 4
			case y == 6: // LD A,(C)
				e.r.A = e.read(0xff00|uint16(e.r.C), 2)
				cyc = 2
			case y == 7: // LD A,(nn)
				nn := e.imm16()
				e.r.A = e.read(nn, 4)
				cyc = 4
			}
		case 3:
			switch y {
			case 0: // JP nn
				e.r.PC = e.imm16()
				cyc = 4
			case 1: // CB prefix
				res.CB = true
				cb := e.imm8()
				res.Op = cb
				cx, cy, cz := cb>>6, (cb>>3)&7, cb&7
				var v uint8
				if cz == 6 {
					v = e.read(e.r.HL(), 3)
				} else {
					v = e.reg8(cz)
				}
				cyc = 2
				switch cx {
				case 0:
					v = e.rot(cy, v)
				case 1:
					e.r.F = e.r.F&FC | FH
					if v&(1<<cy) == 0 {
						e.r.F |= FZ
					}
				case 2:
					v &^= 1 << cy
				case 3:
					v |= 1 << cy
				}
				if cz == 6 {
					if cx == 1 {
						cyc = 3
					} else {
						e.write(e.r.HL(), v, 4)
						cyc = 4
					}
				} else if cx != 1 {
					e.setReg8(cz, v)
				}
			case 6:
				res.IME = IMEDI
			case 7:
				res.IME = IMEEI
			default:
				res.Undefined = true
			}
		case 4:
			if y < 4 { // CALL cc,nn
				res.Cond = true
				nn := e.imm16()
				if e.cond(y) {
					res.Taken = true
					e.push16(e.r.PC, 5, 6)
					e.r.PC = nn
					cyc = 6
				} else {
					cyc = 3
				}
			} else {
				res.Undefined = true
			}
		case 5:
			if q == 0 { // PUSH
				var v uint16
				switch p {
				case 0:
					v = e.r.BC()
				case 1:
					v = e.r.DE()
				case 2:
					v = e.r.HL()
				case 3:
					v = uint16(e.r.A)<<8 | uint16(e.r.F)
				}
				e.push16(v, 3, 4)
				cyc = 4
			} else if p == 0 { // CALL nn
				nn := e.imm16()
				e.push16(e.r.PC, 5, 6)
				e.r.PC = nn
				cyc = 6
			} else {
				res.Undefined = true
			}
		case 6:
			e.alu(y, e.imm8())
			cyc = 2
		case 7: // RST
			e.push16(e.r.PC, 3, 4)
			e.r.PC = uint16(y) * 8
			cyc = 4
		}
	}
	res.Regs = e.r
	res.Cycles = cyc
	res.Len = int(e.lenFrom(pc0, haltBug))
	if res.Undefined {
		res.Regs = r
		res.Cycles = 0
	}
	return res
}

// lenFrom is only used for reporting: number of bytes the decode consumed.
func (e *exec) lenFrom(pc0 uint16, bug bool) uint16 {
	return lengthOf(e.rd(pc0))
}

func lengthOf(op uint8) uint16 {
	x, y, z := op>>6, (op>>3)&7, op&7
	switch x {
	case 0:
		switch z {
		case 0:
			if y == 1 {
				return 3
			}
			if y >= 3 {
				return 2
			}
			return 1
		case 1:
			if y&1 == 0 {
				return 3
			}
			return 1
		case 6:
			return 2
		}
		return 1
	case 1, 2:
		return 1
	}
	switch z {
	case 0:
		if y >= 4 {
			return 2
		}
		return 1
	case 2:
		if y == 4 || y == 6 {
			return 1
		}
		return 3
	case 3:
		if y == 0 {
			return 3
		}
		if y == 1 {
			return 2
		}
		return 1
	case 4:
		return 3
	case 5:
		if op == 0xcd {
			return 3
		}
		return 1
	case 6:
		return 2
	}
	return 1
}

// Length returns the instruction length in bytes for a base opcode (CB = 2).
func Length(op uint8) int { return int(lengthOf(op)) }

// IsUndefined reports whether op is one of the 11 undefined base opcodes.
func IsUndefined(op uint8) bool {
	switch op {
	case 0xd3, 0xdb, 0xdd, 0xe3, 0xe4, 0xeb, 0xec, 0xed, 0xf4, 0xfc, 0xfd:
		return true
	}
	return false
}

// Cycles returns the documented machine-cycle counts (taken, not taken) of a base opcode
// (for CB use CyclesCB). For unconditional instructions both are equal.
func Cycles(op uint8) (taken, notTaken int) {
	mem := func(a uint16) uint8 {
		if a == 0 {
			return op
		}
		return 0
	}
	// run with all flags clear and all flags set: exactly one of them takes each condition
	r0 := Exec(Regs{F: 0x00, SP: 0x8000, PC: 0}, mem, false)
	r1 := Exec(Regs{F: 0xf0, SP: 0x8000, PC: 0}, mem, false)
	if !r0.Cond {
		return r0.Cycles, r0.Cycles
	}
	if r0.Taken {
		return r0.Cycles, r1.Cycles
	}
	return r1.Cycles, r0.Cycles
}

// CyclesCB returns the machine-cycle count of CB-prefixed opcode cb.
func CyclesCB(cb uint8) int {
	if cb&7 != 6 {
		return 2
	}
	if cb>>6 == 1 {
		return 3
	}
	return 4
}
