package rig

import (
	"bufio"
	"encoding/json"
	"fmt"
	"os"
	"os/exec"
	"path/filepath"
	"runtime"
	"sort"
	"strconv"
	"strings"
	"sync"
	"time"
)

// VerifDir is the framework root (evidence, replays, known findings live here).
func VerifDir() string {
	if d := os.Getenv("VERIF_DIR"); d != "" {
		return d
	}
	return "/verif"
}

// Violation is one refutation observed by a monitor.
type Violation struct {
	Property string `json:"property"`
	// Class names the specific failing-case class (controller type + operation, opcode +
	// operand pattern, ...). Known findings match on it, never on the property alone.
	Class string `json:"class"`
	// Case is "part:index" and replays exactly that case.
	Case   string `json:"case"`
	Msg    string `json:"msg"`
	Detail any    `json:"detail,omitempty"`
}

// Rec accumulates what one process observed.
type Rec struct {
	mu            sync.Mutex
	Evaluations   int64    `json:"evaluations"`
	DistinctExact int64    `json:"distinct_exact"`
	Distinct      []uint64 `json:"distinct,omitempty"`
	distinct      map[uint64]struct{}
	Counters      map[string]int64 `json:"counters"`
	Samples       []any            `json:"samples"`
	Violations    []Violation      `json:"violations"`
	ViolationsAll int64            `json:"violations_all"`
	Required      []string         `json:"required"`
	Exhaustive    map[string]bool  `json:"exhaustive"`
	Notes         []string         `json:"notes"`
}

const maxDistinct = 1 << 21
const maxViolationsKept = 40
const maxSamples = 6

func newRec() *Rec {
	return &Rec{distinct: map[uint64]struct{}{}, Counters: map[string]int64{}, Exhaustive: map[string]bool{}}
}

// Ctx is what a monitor gets.
type Ctx struct {
	ID        string
	Tier      string
	Seed      uint64
	Shard     int
	NShards   int
	OnlyPart  string
	OnlyIdx   int64
	Replay    bool
	Verbose   bool
	Rec       *Rec
	curCase   string
	journal   string
	onlyParts map[string]bool
	skipParts map[string]bool
}

func (c *Ctx) Quick() bool    { return c.Tier != "thorough" }
func (c *Ctx) Thorough() bool { return c.Tier == "thorough" }

// N picks a count by tier.
func (c *Ctx) N(quick, thorough int64) int64 {
	if c.Thorough() {
		return thorough
	}
	return quick
}

// Part runs f for every case index of this part that belongs to this shard. The Rng handed
// to f depends only on (seed, property, part, index), so any case can be replayed alone.
func (c *Ctx) Part(name string, n int64, f func(i int64, r *Rng)) {
	if c.OnlyPart != "" && c.OnlyPart != name {
		return
	}
	if c.OnlyPart == "" && ((c.onlyParts != nil && !c.onlyParts[name]) || c.skipParts[name]) {
		return
	}
	for i := int64(0); i < n; i++ {
		if c.OnlyPart != "" {
			if i != c.OnlyIdx {
				continue
			}
		} else if int(i%int64(c.NShards)) != c.Shard {
			continue
		}
		c.curCase = name + ":" + strconv.FormatInt(i, 10)
		if c.journal != "" {
			os.WriteFile(c.journal, []byte(c.curCase), 0o644)
		}
		c.guarded(func() { f(i, NewRng(c.Seed, HashStr(c.ID), HashStr(name), uint64(i))) })
	}
	c.curCase = ""
}

// guarded runs one case. A panic raised inside the emulator's own code while the monitor was
// driving it is a refutation of the property being monitored (the emulator produced no
// behaviour at all); a panic raised in harness code is re-thrown and ends the worker, which the
// parent reports as inconclusive.
func (c *Ctx) guarded(f func()) {
	defer func() {
		r := recover()
		if r == nil {
			return
		}
		buf := make([]byte, 1<<16)
		buf = buf[:runtime.Stack(buf, false)]
		where := panicOrigin(string(buf))
		if !strings.Contains(where, "github.com/scottyw/tetromino/") {
			panic(fmt.Sprintf("%v\n(harness panic in case %s)\n%s", r, c.curCase, buf))
		}
		msg := fmt.Sprint(r)
		cls := msg
		if k := strings.IndexAny(cls, "[:"); k > 0 {
			cls = cls[:k]
		}
		c.Count("emulator_panics", 1)
		c.Violate("emulator-panic-"+sanitize(strings.TrimSpace(cls))+"-"+sanitize(filepathBase(where)), fmt.Sprintf("the emulator panicked in %s: %s", where, msg), map[string]any{"stack": string(buf)})
	}()
	f()
}

func filepathBase(fn string) string {
	if k := strings.LastIndex(fn, "/"); k >= 0 {
		fn = fn[k+1:]
	}
	return fn
}

// panicOrigin returns the function in which the panic was raised: the first frame below the
// runtime's own panic machinery.
func panicOrigin(stack string) string {
	lines := strings.Split(stack, "\n")
	seenPanic := false
	for _, ln := range lines {
		if strings.HasPrefix(ln, "\t") || ln == "" || strings.HasPrefix(ln, "goroutine ") {
			continue
		}
		fn := ln
		if k := strings.LastIndex(fn, "("); k > 0 {
			fn = fn[:k]
		}
		if strings.HasPrefix(fn, "panic") || strings.HasPrefix(fn, "runtime.") {
			if strings.HasPrefix(fn, "panic") || strings.Contains(fn, "gopanic") || strings.Contains(fn, "panic") {
				seenPanic = true
			}
			continue
		}
		if !seenPanic {
			continue
		}
		// a panic raised inside the standard library (or a stub) belongs to whoever called it:
		// walk down to the nearest emulator or harness frame
		if !strings.Contains(fn, "github.com/scottyw/tetromino/") && !strings.HasPrefix(fn, "verif/") && !strings.HasPrefix(fn, "main.") {
			continue
		}
		return fn
	}
	return ""
}

// Eval counts n oracle evaluations.
func (c *Ctx) Eval(n int64) {
	c.Rec.mu.Lock()
	c.Rec.Evaluations += n
	c.Rec.mu.Unlock()
}

// Case counts one evaluation and records its fingerprint for the distinct count.
func (c *Ctx) Case(h uint64) {
	r := c.Rec
	r.mu.Lock()
	r.Evaluations++
	if len(r.distinct) < maxDistinct {
		r.distinct[h] = struct{}{}
	}
	r.mu.Unlock()
}

// DistinctOnly records a fingerprint without counting an evaluation.
func (c *Ctx) DistinctOnly(h uint64) {
	r := c.Rec
	r.mu.Lock()
	if len(r.distinct) < maxDistinct {
		r.distinct[h] = struct{}{}
	}
	r.mu.Unlock()
}

// Exact counts n evaluations of cases that are pairwise distinct by construction
// (complete enumerations).
func (c *Ctx) Exact(n int64) {
	r := c.Rec
	r.mu.Lock()
	r.Evaluations += n
	r.DistinctExact += n
	r.mu.Unlock()
}

func (c *Ctx) Count(name string, n int64) {
	r := c.Rec
	r.mu.Lock()
	r.Counters[name] += n
	r.mu.Unlock()
}

// Require declares a coverage counter that must be non-zero over the whole run, otherwise
// the run is inconclusive (the monitor observed nothing of that kind).
func (c *Ctx) Require(names ...string) {
	r := c.Rec
	r.mu.Lock()
	for _, n := range names {
		found := false
		for _, x := range r.Required {
			if x == n {
				found = true
			}
		}
		if !found {
			r.Required = append(r.Required, n)
		}
	}
	r.mu.Unlock()
}

// MarkExhaustive records that a named finite sub-space was enumerated completely (each shard
// marks its slice; the merged run is exhaustive for the name if every shard says so).
func (c *Ctx) MarkExhaustive(name string) {
	r := c.Rec
	r.mu.Lock()
	r.Exhaustive[name] = true
	r.mu.Unlock()
}

func (c *Ctx) Sample(v any) {
	r := c.Rec
	r.mu.Lock()
	if len(r.Samples) < maxSamples {
		r.Samples = append(r.Samples, v)
	}
	r.mu.Unlock()
}

func (c *Ctx) Note(format string, a ...any) {
	r := c.Rec
	r.mu.Lock()
	if len(r.Notes) < 50 {
		r.Notes = append(r.Notes, fmt.Sprintf(format, a...))
	}
	r.mu.Unlock()
}

// Counter returns the current value of a counter.
func (c *Ctx) Counter(name string) int64 {
	c.Rec.mu.Lock()
	defer c.Rec.mu.Unlock()
	return c.Rec.Counters[name]
}

// FoldCounters removes all counters with the given prefix and returns them (name -> value).
func (c *Ctx) FoldCounters(prefix string) map[string]int64 {
	c.Rec.mu.Lock()
	defer c.Rec.mu.Unlock()
	out := map[string]int64{}
	for k, v := range c.Rec.Counters {
		if strings.HasPrefix(k, prefix) {
			out[k[len(prefix):]] = v
			delete(c.Rec.Counters, k)
		}
	}
	return out
}

// CaseID returns the id of the case being run ("part:index").
func (c *Ctx) CaseID() string { return c.curCase }

// Violate records a refutation.
func (c *Ctx) Violate(class, msg string, detail any) {
	c.ViolateAs(c.ID, class, msg, detail)
}

func (c *Ctx) ViolateAs(prop, class, msg string, detail any) {
	r := c.Rec
	r.mu.Lock()
	r.ViolationsAll++
	keep := len(r.Violations) < maxViolationsKept
	if keep {
		// keep at most 3 per class so one defect does not mask the rest
		n := 0
		for _, v := range r.Violations {
			if v.Class == class {
				n++
			}
		}
		keep = n < 3
	}
	if keep {
		r.Violations = append(r.Violations, Violation{Property: prop, Class: class, Case: c.curCase, Msg: msg, Detail: detail})
	}
	r.mu.Unlock()
	if c.Replay || c.Verbose {
		fmt.Printf("  violation class=%s case=%s: %s\n", class, c.curCase, msg)
		if detail != nil {
			b, _ := json.MarshalIndent(detail, "    ", "  ")
			fmt.Printf("    %s\n", b)
		}
	}
}

// ---------------------------------------------------------------------------------------------

type finding struct {
	status, property, class, rest string
}

func loadFindings() []finding {
	f, err := os.Open(filepath.Join(VerifDir(), "known_findings.txt"))
	if err != nil {
		return nil
	}
	defer f.Close()
	var out []finding
	sc := bufio.NewScanner(f)
	sc.Buffer(make([]byte, 1<<20), 1<<20)
	for sc.Scan() {
		line := strings.TrimSpace(sc.Text())
		if line == "" || strings.HasPrefix(line, "#") {
			continue
		}
		var fd finding
		switch {
		case strings.HasPrefix(line, "known:"):
			fd.status = "known"
			line = strings.TrimSpace(line[len("known:"):])
		case strings.HasPrefix(line, "fixed:"):
			fd.status = "fixed"
			line = strings.TrimSpace(line[len("fixed:"):])
		default:
			continue
		}
		fields := strings.Fields(line)
		var rest []string
		for _, fl := range fields {
			switch {
			case strings.HasPrefix(fl, "property=") && fd.property == "":
				fd.property = fl[len("property="):]
			case strings.HasPrefix(fl, "class=") && fd.class == "":
				fd.class = fl[len("class="):]
			default:
				rest = append(rest, fl)
			}
		}
		fd.rest = strings.Join(rest, " ")
		out = append(out, fd)
	}
	return out
}

// Spec describes one property's check.
type Spec struct {
	ID  string
	Run func(c *Ctx)
	// Rule is the evidence "rule" text: how cases are generated and what makes one distinct.
	Rule string
	// Assumptions for the evidence file.
	Assumptions []string
	// Shards overrides the number of worker processes (0 = 16).
	Shards int
	// InProcess runs the monitor in the parent only (it manages its own children).
	InProcess bool
	// DeathIsViolation: a worker process that dies (runtime fatal error, os.Exit) while a
	// case was running is a violation naming that case (workers journal the case id before
	// running it); a harness panic still counts as inconclusive.
	DeathIsViolation bool
	// RaceParts names the Parts that must run under the Go race detector: ordinary workers skip
	// them and a second set of workers from the -race build (<binary>-race) runs only them,
	// with GORACE logging to files; every distinct race report is a violation.
	RaceParts  []string
	RaceShards int
	// Finish, when set, runs in the parent on the merged record (derived counters, coverage
	// obligations that need the union over shards).
	Finish func(c *Ctx)
}

func usage() {
	fmt.Fprintln(os.Stderr, "usage: <check> run --tier quick|thorough [--seed N] | shard ... | replay <file> | case <part:index> [--tier T] [--seed N]")
	os.Exit(2)
}

// Main is the entry point of every per-property binary.
func Main(spec Spec) {
	runtime.GOMAXPROCS(runtime.NumCPU()) // display's init() lowers it to 2
	if len(os.Args) < 2 {
		usage()
	}
	args := os.Args[2:]
	tier := os.Getenv("VERIF_TIER")
	seedStr := os.Getenv("VERIF_SEED")
	shard, nshards := 0, 1
	out := ""
	verbose := false
	for i := 0; i < len(args); i++ {
		switch args[i] {
		case "--tier":
			i++
			tier = args[i]
		case "--seed":
			i++
			seedStr = args[i]
		case "--shard":
			i++
			fmt.Sscanf(args[i], "%d/%d", &shard, &nshards)
		case "--out":
			i++
			out = args[i]
		case "-v":
			verbose = true
		}
	}
	if tier == "" {
		tier = "quick"
	}
	if tier != "quick" && tier != "thorough" {
		fmt.Fprintln(os.Stderr, "bad tier", tier)
		os.Exit(2)
	}
	var seed uint64 = 1
	if seedStr != "" {
		if v, err := strconv.ParseUint(seedStr, 10, 64); err == nil {
			seed = v
		} else if v, err := strconv.ParseInt(seedStr, 10, 64); err == nil {
			seed = uint64(v)
		}
	}
	switch os.Args[1] {
	case "run":
		os.Exit(parent(spec, tier, seed, verbose))
	case "shard":
		c := &Ctx{ID: spec.ID, Tier: tier, Seed: seed, Shard: shard, NShards: nshards, Rec: newRec(), Verbose: verbose, journal: os.Getenv("VERIF_JOURNAL")}
		if v := os.Getenv("VERIF_PARTS"); v != "" {
			c.onlyParts = map[string]bool{}
			for _, p := range strings.Split(v, ",") {
				c.onlyParts[p] = true
			}
		}
		if v := os.Getenv("VERIF_SKIP_PARTS"); v != "" {
			c.skipParts = map[string]bool{}
			for _, p := range strings.Split(v, ",") {
				c.skipParts[p] = true
			}
		}
		spec.Run(c)
		if Siblings > 0 {
			c.Count("sibling_machines_built", Siblings)
		}
		writeRec(c.Rec, out)
		os.Exit(0)
	case "replay":
		if len(os.Args) < 3 {
			usage()
		}
		os.Exit(replay(spec, os.Args[2]))
	case "case":
		if len(os.Args) < 3 {
			usage()
		}
		os.Exit(runCase(spec, tier, seed, os.Args[2]))
	default:
		usage()
	}
}

func writeRec(r *Rec, path string) {
	r.Distinct = r.Distinct[:0]
	for h := range r.distinct {
		r.Distinct = append(r.Distinct, h)
	}
	b, err := json.Marshal(r)
	if err != nil {
		fmt.Fprintln(os.Stderr, "marshal:", err)
		os.Exit(3)
	}
	if err := os.WriteFile(path+".tmp", b, 0o644); err != nil {
		fmt.Fprintln(os.Stderr, "write:", err)
		os.Exit(3)
	}
	os.Rename(path+".tmp", path)
}

func runCase(spec Spec, tier string, seed uint64, caseID string) int {
	part, idx, ok := splitCase(caseID)
	if !ok {
		fmt.Fprintln(os.Stderr, "bad case id", caseID)
		return 2
	}
	c := &Ctx{ID: spec.ID, Tier: tier, Seed: seed, Shard: 0, NShards: 1, OnlyPart: part, OnlyIdx: idx, Replay: true, Rec: newRec()}
	spec.Run(c)
	fmt.Printf("case %s tier=%s seed=%d: evaluations=%d violations=%d\n", caseID, tier, seed, c.Rec.Evaluations, c.Rec.ViolationsAll)
	if c.Rec.ViolationsAll > 0 {
		return 1
	}
	return 0
}

func splitCase(s string) (string, int64, bool) {
	k := strings.LastIndex(s, ":")
	if k < 0 {
		return "", 0, false
	}
	idx, err := strconv.ParseInt(s[k+1:], 10, 64)
	if err != nil {
		return "", 0, false
	}
	return s[:k], idx, true
}

type replayFile struct {
	Property  string    `json:"property"`
	Tier      string    `json:"tier"`
	Seed      uint64    `json:"seed"`
	Violation Violation `json:"violation"`
	Command   string    `json:"command"`
}

func replay(spec Spec, path string) int {
	b, err := os.ReadFile(path)
	if err != nil {
		fmt.Fprintln(os.Stderr, err)
		return 2
	}
	var rf replayFile
	if err := json.Unmarshal(b, &rf); err != nil {
		fmt.Fprintln(os.Stderr, err)
		return 2
	}
	if rf.Property != spec.ID {
		fmt.Fprintf(os.Stderr, "replay file is for %s, this binary checks %s\n", rf.Property, spec.ID)
		return 2
	}
	fmt.Printf("replaying %s case %s (tier %s, seed %d); recorded: %s\n", rf.Property, rf.Violation.Case, rf.Tier, rf.Seed, rf.Violation.Msg)
	return runCase(spec, rf.Tier, rf.Seed, rf.Violation.Case)
}

func parent(spec Spec, tier string, seed uint64, verbose bool) int {
	t0 := time.Now()
	dir := VerifDir()
	os.MkdirAll(filepath.Join(dir, "evidence"), 0o755)
	os.MkdirAll(filepath.Join(dir, "replays"), 0o755)
	evPath := filepath.Join(dir, "evidence", spec.ID+".json")
	os.Remove(evPath)
	work, err := os.MkdirTemp(filepath.Join(dir, "work"), spec.ID+"-")
	if err != nil {
		os.MkdirAll(filepath.Join(dir, "work"), 0o755)
		work, err = os.MkdirTemp(filepath.Join(dir, "work"), spec.ID+"-")
		if err != nil {
			fmt.Println("INCONCLUSIVE property=" + spec.ID + " cannot create work dir: " + err.Error())
			return 2
		}
	}
	defer os.RemoveAll(work)
	os.Setenv("VERIF_WORK", work)

	merged := newRec()
	inconclusive := []string{}

	if spec.InProcess {
		c := &Ctx{ID: spec.ID, Tier: tier, Seed: seed, Shard: 0, NShards: 1, Rec: merged, Verbose: verbose}
		func() {
			defer func() {
				if r := recover(); r != nil {
					buf := make([]byte, 1<<16)
					buf = buf[:runtime.Stack(buf, false)]
					inconclusive = append(inconclusive, fmt.Sprintf("monitor panicked: %v\n%s", r, buf))
				}
			}()
			spec.Run(c)
		}()
	} else {
		n := spec.Shards
		if n == 0 {
			n = 16
		}
		if v := os.Getenv("VERIF_SHARDS"); v != "" {
			if k, err := strconv.Atoi(v); err == nil && k > 0 {
				n = k
			}
		}
		first := true
		launch := func(bin string, n int, tag string, extraEnv []string) {
			// Generous wall-clock watchdog: its firing is "inconclusive", never a verdict.
			limit := 40 * time.Minute
			if tier == "thorough" {
				limit = 6 * time.Hour
			}
			if v := os.Getenv("VERIF_WATCHDOG_S"); v != "" {
				if k, err := strconv.Atoi(v); err == nil && k > 0 {
					limit = time.Duration(k) * time.Second
				}
			}
			type res struct {
				i   int
				err error
				log string
			}
			ch := make(chan res, n)
			for i := 0; i < n; i++ {
				go func(i int) {
					outp := filepath.Join(work, fmt.Sprintf("%sshard%02d.json", tag, i))
					logp := filepath.Join(work, fmt.Sprintf("%sshard%02d.log", tag, i))
					lf, _ := os.Create(logp)
					cmd := exec.Command(bin, "shard", "--tier", tier, "--seed", strconv.FormatUint(seed, 10),
						"--shard", fmt.Sprintf("%d/%d", i, n), "--out", outp)
					cmd.Stdout = lf
					cmd.Stderr = lf
					cmd.Env = append(os.Environ(), "VERIF_WORK="+work)
					cmd.Env = append(cmd.Env, extraEnv...)
					if tag == "race-" {
						cmd.Env = append(cmd.Env, fmt.Sprintf("GORACE=halt_on_error=0 log_path=%s", filepath.Join(work, fmt.Sprintf("racelog.%02d", i))))
					}
					if spec.DeathIsViolation {
						cmd.Env = append(cmd.Env, "VERIF_JOURNAL="+outp+".journal")
					}
					err := cmd.Start()
					if err == nil {
						done := make(chan error, 1)
						go func() { done <- cmd.Wait() }()
						select {
						case err = <-done:
						case <-time.After(limit):
							cmd.Process.Signal(os.Interrupt)
							time.Sleep(200 * time.Millisecond)
							cmd.Process.Kill()
							<-done
							err = fmt.Errorf("wall-clock watchdog (%v) fired", limit)
						}
					}
					lf.Close()
					lb, _ := os.ReadFile(logp)
					if len(lb) > 6000 {
						lb = lb[len(lb)-6000:]
					}
					ch <- res{i, err, string(lb)}
				}(i)
			}
			for k := 0; k < n; k++ {
				r := <-ch
				outp := filepath.Join(work, fmt.Sprintf("%sshard%02d.json", tag, r.i))
				if r.err != nil {
					jb, _ := os.ReadFile(outp + ".journal")
					if spec.DeathIsViolation && len(jb) > 0 && !strings.Contains(r.log, "(harness panic in case") && !strings.Contains(r.err.Error(), "watchdog") {
						merged.ViolationsAll++
						merged.Violations = append(merged.Violations, Violation{Property: spec.ID, Class: "worker-process-died", Case: string(jb),
							Msg: fmt.Sprintf("the worker process died (%v) while running case %s; last output: %s", r.err, jb, lastLines(r.log, 12))})
						continue
					}
					inconclusive = append(inconclusive, fmt.Sprintf("%sshard %d: %v\n%s", tag, r.i, r.err, r.log))
					continue
				}
				b, err := os.ReadFile(outp)
				if err != nil {
					inconclusive = append(inconclusive, fmt.Sprintf("shard %d wrote no result: %v\n%s", r.i, err, r.log))
					continue
				}
				var sr Rec
				if err := json.Unmarshal(b, &sr); err != nil {
					inconclusive = append(inconclusive, fmt.Sprintf("shard %d result unreadable: %v", r.i, err))
					continue
				}
				if verbose && r.log != "" {
					fmt.Printf("--- shard %d log ---\n%s\n", r.i, r.log)
				}
				mergeRec(merged, &sr, first)
				first = false
			}
		}
		var normalEnv []string
		if len(spec.RaceParts) > 0 {
			normalEnv = append(normalEnv, "VERIF_SKIP_PARTS="+strings.Join(spec.RaceParts, ","))
		}
		launch(os.Args[0], n, "", normalEnv)
		if len(spec.RaceParts) > 0 {
			raceBin := os.Args[0] + "-race"
			if _, err := os.Stat(raceBin); err != nil {
				inconclusive = append(inconclusive, "race-detector build "+raceBin+" is missing")
			} else {
				rn := spec.RaceShards
				if rn == 0 {
					rn = 4
				}
				launch(raceBin, rn, "race-", []string{"VERIF_PARTS=" + strings.Join(spec.RaceParts, ",")})
				reports := collectRaceReports(work)
				merged.Counters["race_detector_workers"] += int64(rn)
				merged.Counters["race_reports_distinct"] += int64(len(reports))
				for key, rep := range reports {
					merged.ViolationsAll++
					merged.Violations = append(merged.Violations, Violation{Property: spec.ID, Class: "data-race-" + sanitize(key), Case: "race",
						Msg: "the race detector reported a data race: " + key, Detail: map[string]any{"report": rep}})
				}
			}
		}
	}

	if spec.Finish != nil {
		spec.Finish(&Ctx{ID: spec.ID, Tier: tier, Seed: seed, Shard: 0, NShards: 1, Rec: merged, Verbose: verbose})
	}

	// classify violations against the committed known-findings list (read-only)
	findings := loadFindings()
	type knownHit struct {
		f finding
		n int
	}
	known := map[string]*knownHit{}
	var fresh []Violation
	for _, v := range merged.Violations {
		matched := false
		for _, f := range findings {
			if f.status == "known" && f.property == v.Property && f.class == v.Class {
				key := f.property + "/" + f.class
				if known[key] == nil {
					known[key] = &knownHit{f: f}
				}
				known[key].n++
				matched = true
				break
			}
		}
		if !matched {
			fresh = append(fresh, v)
		}
	}

	// coverage obligations
	for _, name := range merged.Required {
		if merged.Counters[name] == 0 {
			inconclusive = append(inconclusive, "coverage counter '"+name+"' is zero: the monitor observed nothing of that kind")
		}
	}

	wall := time.Since(t0).Seconds()
	distinct := merged.DistinctExact + int64(len(merged.distinct))
	exh := len(merged.Exhaustive) > 0
	exhNames := []string{}
	for k, v := range merged.Exhaustive {
		if v {
			exhNames = append(exhNames, k)
		} else {
			exh = false
		}
	}
	sort.Strings(exhNames)
	cov := map[string]any{
		"evaluations":         merged.Evaluations,
		"distinct_nontrivial": distinct,
		"rule":                spec.Rule,
		"samples":             merged.Samples,
		"counters":            merged.Counters,
		"exhaustive_parts":    exhNames,
		"violations_observed": merged.ViolationsAll,
		"known_findings_hit":  len(known),
		"notes":               merged.Notes,
		"workers":             map[bool]any{true: "in-process", false: "sub-processes"}[spec.InProcess],
	}
	if exh && len(exhNames) > 0 {
		cov["exhaustive_note"] = "the finite sub-spaces listed in exhaustive_parts were enumerated completely; sampled parts are not exhaustive"
	}
	if len(merged.Samples) == 0 {
		cov["samples"] = []any{"(no sample recorded)"}
	}
	ev := map[string]any{
		"property_id": spec.ID,
		"tier":        tier,
		"seed":        int64(seed & 0x7fffffffffffffff),
		"level":       "exploration",
		"coverage":    cov,
		"assumptions": spec.Assumptions,
		"wall_s":      wall,
		"violations":  len(fresh),
	}
	if len(inconclusive) > 0 {
		ev["inconclusive"] = inconclusive
	}
	eb, _ := json.MarshalIndent(ev, "", " ")
	os.WriteFile(evPath, eb, 0o644)

	for _, kh := range known {
		fmt.Printf("KNOWN-FINDING: property=%s class=%s %s (%d observation(s) kept)\n", kh.f.property, kh.f.class, kh.f.rest, kh.n)
	}
	rc := 0
	seen := map[string]int{}
	for _, v := range fresh {
		seen[v.Class]++
		if seen[v.Class] > 1 {
			continue
		}
		name := fmt.Sprintf("%s-%s-seed%d-%s.json", v.Property, tier, seed, sanitize(v.Class+"-"+v.Case))
		rp := filepath.Join(dir, "replays", name)
		rf := replayFile{Property: spec.ID, Tier: tier, Seed: seed, Violation: v,
			Command: fmt.Sprintf("./run.sh replay %s", rp)}
		rb, _ := json.MarshalIndent(rf, "", " ")
		os.WriteFile(rp, rb, 0o644)
		fmt.Printf("VIOLATION property=%s replay=%s\n", v.Property, rp)
		fmt.Printf("  class=%s case=%s: %s\n", v.Class, v.Case, v.Msg)
		rc = 1
	}
	if len(inconclusive) > 0 {
		for _, s := range inconclusive {
			fmt.Printf("INCONCLUSIVE property=%s %s\n", spec.ID, s)
		}
		if rc == 0 {
			rc = 2
		}
	}
	fmt.Printf("%s tier=%s seed=%d: evaluations=%d distinct=%d violations=%d (all observations %d) known=%d wall=%.1fs\n",
		spec.ID, tier, seed, merged.Evaluations, distinct, len(fresh), merged.ViolationsAll, len(known), wall)
	if verbose || rc != 0 {
		keys := make([]string, 0, len(merged.Counters))
		for k := range merged.Counters {
			keys = append(keys, k)
		}
		sort.Strings(keys)
		for _, k := range keys {
			fmt.Printf("  %-40s %d\n", k, merged.Counters[k])
		}
	}
	return rc
}

// collectRaceReports reads the race detector's log files and returns one report per distinct
// pair of outermost tetromino/harness functions (line numbers stripped).
func collectRaceReports(work string) map[string]string {
	out := map[string]string{}
	files, _ := filepath.Glob(filepath.Join(work, "racelog.*"))
	for _, f := range files {
		b, err := os.ReadFile(f)
		if err != nil {
			continue
		}
		for _, blk := range strings.Split(string(b), "==================") {
			if !strings.Contains(blk, "WARNING: DATA RACE") {
				continue
			}
			var fns []string
			for _, ln := range strings.Split(blk, "\n") {
				t := strings.TrimSpace(ln)
				if strings.HasPrefix(t, "github.com/scottyw/tetromino/") || strings.HasPrefix(t, "verif/") || strings.HasPrefix(t, "main.") {
					if k := strings.Index(t, "("); k > 0 && !strings.HasPrefix(t, "(") {
						t = t[:strings.LastIndex(t, "(")]
					}
					fns = append(fns, t)
				}
			}
			key := "unknown"
			if len(fns) > 0 {
				key = fns[0]
				// the first frame of the second stack follows the "Previous ..." line
				if k := strings.Index(blk, "Previous "); k > 0 {
					rest := blk[k:]
					for _, ln := range strings.Split(rest, "\n") {
						t := strings.TrimSpace(ln)
						if strings.HasPrefix(t, "github.com/scottyw/tetromino/") || strings.HasPrefix(t, "verif/") || strings.HasPrefix(t, "main.") {
							if strings.Contains(t, "(") {
								t = t[:strings.LastIndex(t, "(")]
							}
							key += " vs " + t
							break
						}
					}
				}
			}
			if _, ok := out[key]; !ok {
				if len(blk) > 3000 {
					blk = blk[:3000]
				}
				out[key] = blk
			}
		}
	}
	return out
}

func lastLines(s string, n int) string {
	lines := strings.Split(strings.TrimSpace(s), "\n")
	if len(lines) > n {
		lines = lines[len(lines)-n:]
	}
	return strings.Join(lines, " | ")
}

func sanitize(s string) string {
	var b strings.Builder
	for _, r := range s {
		switch {
		case r >= 'a' && r <= 'z', r >= 'A' && r <= 'Z', r >= '0' && r <= '9', r == '-', r == '_', r == '.':
			b.WriteRune(r)
		default:
			b.WriteByte('_')
		}
	}
	out := b.String()
	if len(out) > 120 {
		out = out[:120]
	}
	return out
}

func mergeRec(dst, src *Rec, first bool) {
	dst.Evaluations += src.Evaluations
	dst.DistinctExact += src.DistinctExact
	for _, h := range src.Distinct {
		if len(dst.distinct) < 4*maxDistinct {
			dst.distinct[h] = struct{}{}
		}
	}
	for k, v := range src.Counters {
		dst.Counters[k] += v
	}
	for _, s := range src.Samples {
		if len(dst.Samples) < maxSamples {
			dst.Samples = append(dst.Samples, s)
		}
	}
	dst.ViolationsAll += src.ViolationsAll
	for _, v := range src.Violations {
		if len(dst.Violations) < 400 {
			dst.Violations = append(dst.Violations, v)
		}
	}
	for _, r := range src.Required {
		found := false
		for _, x := range dst.Required {
			if x == r {
				found = true
			}
		}
		if !found {
			dst.Required = append(dst.Required, r)
		}
	}
	// exhaustive only if every shard marked it
	if first {
		for k, v := range src.Exhaustive {
			dst.Exhaustive[k] = v
		}
	} else {
		for k := range dst.Exhaustive {
			if !src.Exhaustive[k] {
				dst.Exhaustive[k] = false
			}
		}
		for k := range src.Exhaustive {
			if _, ok := dst.Exhaustive[k]; !ok {
				dst.Exhaustive[k] = false
			}
		}
	}
	for _, n := range src.Notes {
		if len(dst.Notes) < 50 {
			dst.Notes = append(dst.Notes, n)
		}
	}
}
