package rig

import (
	"fmt"
	"io"
	"os"

	"github.com/scottyw/tetromino/gameboy/audio"
	"github.com/scottyw/tetromino/gameboy/controller"
	"github.com/scottyw/tetromino/gameboy/cpu"
	"github.com/scottyw/tetromino/gameboy/interrupts"
	"github.com/scottyw/tetromino/gameboy/memory"
	"github.com/scottyw/tetromino/gameboy/oam"
	"github.com/scottyw/tetromino/gameboy/ppu"
	"github.com/scottyw/tetromino/gameboy/serial"
	"github.com/scottyw/tetromino/gameboy/timer"
)

// Machine is the component rig: the emulator's parts wired exactly as gameboy.New wires
// them (same constructors, same order), from an in-memory ROM image, without display or
// speakers. Step() is the loop body of gameboy.runFrame in the same order. That this is a
// faithful stand-in for gameboy.New + runFrame is itself monitored by C26.
type Machine struct {
	IRQ    *interrupts.Interrupts
	OAM    *oam.OAM
	Audio  *audio.Audio
	PPU    *ppu.PPU
	Serial *serial.Serial
	Timer  *timer.Timer
	Ctl    *controller.Controller
	Mem    *memory.Mapper
	CPU    *cpu.CPU

	L, R     chan float32
	OnSample func(l, r float32)
	OnHalf   func(left bool)
	Cycles   uint64
}

type Opts struct {
	// AudioOut attaches capacity-2 sample channels (drained after every Step).
	AudioOut bool
	// SerialWriter is passed to serial.New (nil = none).
	SerialWriter io.Writer
	// DebugCPU / DebugLCD are the emulator's debug options (the CPU trace goes to standard
	// output: use QuietStdout around such runs).
	DebugCPU bool
	DebugLCD bool

	noBystander bool
}

var (
	elder, younger *Machine
	siblingROM     []byte
	// Siblings counts the bystander machines built so far (for coverage reports).
	Siblings int64
)

// sibling builds a bystander machine and lets it run: it writes its registers and memory,
// sets the palettes and sound registers, enables and takes a V-blank interrupt.
func sibling() *Machine {
	if siblingROM == nil {
		rom := BlankROM(0, 0, 0)
		Put(rom, 0x40, 0x3c, 0xd9) // INC A; RETI
		Put(rom, 0x100, 0x00, 0xc3, 0x50, 0x01)
		// LD SP,DFF0; sound hardware off and on again (XOR A; LDH (26),A; LD A,80; LDH (26),A);
		// LD A,01; LDH (FF),A; LDH (0F),A; EI; NOP; LD HL,C123
		Put(rom, 0x150, 0x31, 0xf0, 0xdf, 0xaf, 0xe0, 0x26, 0x3e, 0x80, 0xe0, 0x26, 0x3e, 0x01, 0xe0, 0xff, 0xe0, 0x0f, 0xfb, 0x00, 0x21, 0x23, 0xc1,
			// loop: INC A; palettes, scroll, window, wave RAM, envelope, sweep, serial, TMA, an OAM DMA transfer, work RAM;
			// channel 1 restarted (LD B,A; LD A,87; LDH (14),A; LD A,B); JR loop
			0x3c, 0xe0, 0x47, 0xe0, 0x48, 0xe0, 0x49, 0xe0, 0x42, 0xe0, 0x43, 0xe0, 0x4a, 0xe0, 0x4b, 0xe0, 0x30, 0xe0, 0x12, 0xe0, 0x10, 0xe0, 0x01, 0xe0, 0x06, 0xe0, 0x46, 0x77,
			// timer control, JOYP select, STAT, LYC, channels 2-4, volume and routing
			0xe0, 0x07, 0xe0, 0x00, 0xe0, 0x41, 0xe0, 0x45, 0xe0, 0x16, 0xe0, 0x17, 0xe0, 0x18, 0xe0, 0x19, 0xe0, 0x1a, 0xe0, 0x1c, 0xe0, 0x1e, 0xe0, 0x21, 0xe0, 0x22, 0xe0, 0x23, 0xe0, 0x24, 0xe0, 0x25,
			0x47, 0x3e, 0x87, 0xe0, 0x14, 0x78, 0x18, 0xbc)
		siblingROM = rom
	}
	b, err := New(siblingROM, Opts{noBystander: true})
	if err != nil {
		panic("rig: the bystander machine does not load: " + err.Error())
	}
	for k := 0; k < 330; k++ { // start-up, the interrupt and more than one pass through its loop
		b.Step()
	}
	Siblings++
	return b
}

// QuietStdout redirects the process's standard output to the null device until the returned
// function is called (results never travel over standard output in worker processes).
func QuietStdout() func() {
	old := os.Stdout
	null, err := os.OpenFile(os.DevNull, os.O_WRONLY, 0)
	if err != nil {
		return func() {}
	}
	os.Stdout = null
	return func() { os.Stdout = old; null.Close() }
}

// New builds a machine. A panic during construction is returned as an error
// ("fails during construction" is a legal outcome for a bad image).
func New(rom []byte, o Opts) (m *Machine, err error) {
	defer func() {
		if r := recover(); r != nil {
			m = nil
			err = fmt.Errorf("construction panic: %v", r)
		}
	}()
	if !o.noBystander {
		// Every machine a check builds has company: one sibling created before any other
		// machine of the process and one created right after it, each of which has run a few
		// instructions and taken an interrupt. Nothing a sibling does may matter to m; state that
		// is wrongly shared between instances ("first one wins", "last one wins") then shows in
		// the single-instance checks too.
		if elder == nil {
			elder = sibling()
		}
		defer func() {
			if m != nil {
				younger = sibling()
			}
		}()
	}
	m = &Machine{}
	m.IRQ = interrupts.New()
	m.OAM = oam.New()
	if o.AudioOut {
		m.L = make(chan float32, 2)
		m.R = make(chan float32, 2)
		m.Audio = audio.New(m.L, m.R)
	} else {
		m.Audio = audio.New(nil, nil)
	}
	m.PPU = ppu.New(m.IRQ, m.OAM, o.DebugLCD)
	m.Serial = serial.New(o.SerialWriter)
	m.Timer = timer.New()
	m.Ctl = controller.New()
	m.Mem = memory.New(rom, m.IRQ, m.OAM, m.PPU, m.Ctl, m.Serial, m.Timer, m.Audio)
	m.CPU = cpu.New(m.IRQ, m.OAM, o.DebugCPU, m.Mem)
	m.CPU.Initialize()
	return m, nil
}

// MustNew panics if construction fails (for harness-made images that must load).
func MustNew(rom []byte, o Opts) *Machine {
	m, err := New(rom, o)
	if err != nil {
		panic(err)
	}
	return m
}

// SiblingRun lets the younger bystander machine run n machine cycles (it keeps rewriting its
// palettes, scroll and window registers, wave RAM, an envelope, SB, TMA and a work RAM byte).
func SiblingRun(n int) {
	if younger == nil {
		return
	}
	for k := 0; k < n; k++ {
		younger.Step()
	}
}

// Step advances one machine cycle in the documented order: CPU, video, memory (DMA and
// clock), audio, timer (overflow raises the timer interrupt request).
func (m *Machine) Step() {
	m.CPU.ExecuteMachineCycle()
	m.PPU.EndMachineCycle()
	m.Mem.EndMachineCycle()
	m.Audio.EndMachineCycle()
	if m.Timer.EndMachineCycle() {
		m.IRQ.RequestTimer()
	}
	m.Cycles++
	if m.L != nil {
		m.Drain()
	}
	if m.Cycles&63 == 0 && m != younger && m != elder && younger != nil {
		younger.Step()
	}
}

// Drain empties the sample channels (at most one stereo sample per machine cycle can have
// been produced) and reports pairs to OnSample.
func (m *Machine) Drain() {
	for {
		var l, r float32
		var gotL, gotR bool
		select {
		case l = <-m.L:
			gotL = true
		default:
		}
		select {
		case r = <-m.R:
			gotR = true
		default:
		}
		if !gotL && !gotR {
			return
		}
		if m.OnSample != nil {
			if gotL != gotR {
				// report a half sample with NaN-free sentinel; monitors count via OnHalf
				if m.OnHalf != nil {
					m.OnHalf(gotL)
				}
			}
			if gotL && gotR {
				m.OnSample(l, r)
			}
		}
	}
}

// PeekOpcode returns the byte at PC (plain read through the mapper).
func (m *Machine) PeekOpcode() uint8 {
	pc := m.CPU.XGetRegs().PC
	if pc >= 0xfe00 && pc < 0xff00 {
		// a read of FE00-FEFF through the mapper counts as an access (it can arm the emulated OAM
		// bug): the harness looks at the snapshot instead, with the same transfer/unused-area rules
		if run, _ := m.OAM.XDMA(); run {
			return 0xff
		}
		if pc >= 0xfea0 {
			return 0
		}
		s := m.OAM.XSnapshot()
		return s[pc-0xfe00]
	}
	return m.Mem.Read(pc)
}

// IsUndefinedOpcode reports whether op is one of the 11 undefined base opcodes.
func IsUndefinedOpcode(op uint8) bool {
	switch op {
	case 0xd3, 0xdb, 0xdd, 0xe3, 0xe4, 0xeb, 0xec, 0xed, 0xf4, 0xfc, 0xfd:
		return true
	}
	return false
}

// LCDOff switches the LCD off through the register interface.
func (m *Machine) LCDOff() { m.Mem.Write(0xff40, m.Mem.Read(0xff40)&0x7f) }

// Quiet puts the machine in the state most single-component monitors want: LCD off,
// IME off, IE=0, IF=0, sound left as is.
func (m *Machine) Quiet() {
	m.LCDOff()
	m.IRQ.Disable()
	m.Mem.Write(0xffff, 0)
	m.Mem.Write(0xff0f, 0)
}

// SiblingPC returns the younger bystander's program counter (for self-tests of the rig).
func SiblingPC() uint16 {
	if younger == nil {
		return 0
	}
	return younger.CPU.XGetRegs().PC
}
