package rig

import (
	"fmt"
	"io"

	"github.com/scottyw/tetromino/gameboy/audio"
	"github.com/scottyw/tetromino/gameboy/controller"
	"github.com/scottyw/tetromino/gameboy/cpu"
	"github.com/scottyw/tetromino/gameboy/interrupts"
	"github.com/scottyw/tetromino/gameboy/memory"
	"github.com/scottyw/tetromino/gameboy/oam"
	"github.com/scottyw/tetromino/gameboy/ppu"
	"github.com/scottyw/tetromino/gameboy/serial"
	"github.com/scottyw/tetromino/gameboy/timer"
)

// Machine is the component rig: the emulator's parts wired exactly as gameboy.New wires
// them (same constructors, same order), from an in-memory ROM image, without display or
// speakers. Step() is the loop body of gameboy.runFrame in the same order. That this is a
// faithful stand-in for gameboy.New + runFrame is itself monitored by C26.
type Machine struct {
	IRQ    *interrupts.Interrupts
	OAM    *oam.OAM
	Audio  *audio.Audio
	PPU    *ppu.PPU
	Serial *serial.Serial
	Timer  *timer.Timer
	Ctl    *controller.Controller
	Mem    *memory.Mapper
	CPU    *cpu.CPU

	L, R     chan float32
	OnSample func(l, r float32)
	OnHalf   func(left bool)
	Cycles   uint64
}

type Opts struct {
	// AudioOut attaches capacity-2 sample channels (drained after every Step).
	AudioOut bool
	// SerialWriter is passed to serial.New (nil = none).
	SerialWriter io.Writer
}

// New builds a machine. A panic during construction is returned as an error
// ("fails during construction" is a legal outcome for a bad image).
func New(rom []byte, o Opts) (m *Machine, err error) {
	defer func() {
		if r := recover(); r != nil {
			m = nil
			err = fmt.Errorf("construction panic: %v", r)
		}
	}()
	m = &Machine{}
	m.IRQ = interrupts.New()
	m.OAM = oam.New()
	if o.AudioOut {
		m.L = make(chan float32, 2)
		m.R = make(chan float32, 2)
		m.Audio = audio.New(m.L, m.R)
	} else {
		m.Audio = audio.New(nil, nil)
	}
	m.PPU = ppu.New(m.IRQ, m.OAM, false)
	m.Serial = serial.New(o.SerialWriter)
	m.Timer = timer.New()
	m.Ctl = controller.New()
	m.Mem = memory.New(rom, m.IRQ, m.OAM, m.PPU, m.Ctl, m.Serial, m.Timer, m.Audio)
	m.CPU = cpu.New(m.IRQ, m.OAM, false, m.Mem)
	m.CPU.Initialize()
	return m, nil
}

// MustNew panics if construction fails (for harness-made images that must load).
func MustNew(rom []byte, o Opts) *Machine {
	m, err := New(rom, o)
	if err != nil {
		panic(err)
	}
	return m
}

// Step advances one machine cycle in the documented order: CPU, video, memory (DMA and
// clock), audio, timer (overflow raises the timer interrupt request).
func (m *Machine) Step() {
	m.CPU.ExecuteMachineCycle()
	m.PPU.EndMachineCycle()
	m.Mem.EndMachineCycle()
	m.Audio.EndMachineCycle()
	if m.Timer.EndMachineCycle() {
		m.IRQ.RequestTimer()
	}
	m.Cycles++
	if m.L != nil {
		m.Drain()
	}
}

// Drain empties the sample channels (at most one stereo sample per machine cycle can have
// been produced) and reports pairs to OnSample.
func (m *Machine) Drain() {
	for {
		var l, r float32
		var gotL, gotR bool
		select {
		case l = <-m.L:
			gotL = true
		default:
		}
		select {
		case r = <-m.R:
			gotR = true
		default:
		}
		if !gotL && !gotR {
			return
		}
		if m.OnSample != nil {
			if gotL != gotR {
				// report a half sample with NaN-free sentinel; monitors count via OnHalf
				if m.OnHalf != nil {
					m.OnHalf(gotL)
				}
			}
			if gotL && gotR {
				m.OnSample(l, r)
			}
		}
	}
}

// PeekOpcode returns the byte at PC (plain read through the mapper).
func (m *Machine) PeekOpcode() uint8 { return m.Mem.Read(m.CPU.XGetRegs().PC) }

// IsUndefinedOpcode reports whether op is one of the 11 undefined base opcodes.
func IsUndefinedOpcode(op uint8) bool {
	switch op {
	case 0xd3, 0xdb, 0xdd, 0xe3, 0xe4, 0xeb, 0xec, 0xed, 0xf4, 0xfc, 0xfd:
		return true
	}
	return false
}

// LCDOff switches the LCD off through the register interface.
func (m *Machine) LCDOff() { m.Mem.Write(0xff40, m.Mem.Read(0xff40)&0x7f) }

// Quiet puts the machine in the state most single-component monitors want: LCD off,
// IME off, IE=0, IF=0, sound left as is.
func (m *Machine) Quiet() {
	m.LCDOff()
	m.IRQ.Disable()
	m.Mem.Write(0xffff, 0)
	m.Mem.Write(0xff0f, 0)
}
