package rig

// Rng is a SplitMix64 stream. All case lists are functions of (seed, property, part, index)
// only; nothing in the harness consults a clock to decide anything.
type Rng struct{ s uint64 }

func NewRng(parts ...uint64) *Rng {
	var s uint64 = 0x9e3779b97f4a7c15
	for _, p := range parts {
		s = mix(s ^ mix(p+0x632be59bd9b4e019))
	}
	return &Rng{s}
}

func mix(z uint64) uint64 {
	z += 0x9e3779b97f4a7c15
	z = (z ^ (z >> 30)) * 0xbf58476d1ce4e5b9
	z = (z ^ (z >> 27)) * 0x94d049bb133111eb
	return z ^ (z >> 31)
}

func HashStr(s string) uint64 {
	var h uint64 = 1469598103934665603
	for i := 0; i < len(s); i++ {
		h ^= uint64(s[i])
		h *= 1099511628211
	}
	return mix(h)
}

func (r *Rng) U64() uint64 {
	r.s += 0x9e3779b97f4a7c15
	z := r.s
	z = (z ^ (z >> 30)) * 0xbf58476d1ce4e5b9
	z = (z ^ (z >> 27)) * 0x94d049bb133111eb
	return z ^ (z >> 31)
}

func (r *Rng) U8() uint8   { return uint8(r.U64() >> 32) }
func (r *Rng) U16() uint16 { return uint16(r.U64() >> 32) }
func (r *Rng) U32() uint32 { return uint32(r.U64() >> 32) }

// Intn returns a value in [0,n).
func (r *Rng) Intn(n int) int {
	if n <= 0 {
		return 0
	}
	return int((r.U64() >> 11) % uint64(n))
}

// Range returns a value in [lo,hi].
func (r *Rng) Range(lo, hi int) int { return lo + r.Intn(hi-lo+1) }

func (r *Rng) Bool() bool { return r.U64()&(1<<40) != 0 }

// Chance is true with probability num/den.
func (r *Rng) Chance(num, den int) bool { return r.Intn(den) < num }

func (r *Rng) Pick8(xs []uint8) uint8    { return xs[r.Intn(len(xs))] }
func (r *Rng) Pick16(xs []uint16) uint16 { return xs[r.Intn(len(xs))] }
func (r *Rng) PickInt(xs []int) int      { return xs[r.Intn(len(xs))] }

func (r *Rng) Bytes(n int) []byte {
	b := make([]byte, n)
	for i := 0; i < n; i += 8 {
		v := r.U64()
		for j := 0; j < 8 && i+j < n; j++ {
			b[i+j] = byte(v >> (8 * j))
		}
	}
	return b
}

// Hasher accumulates a 64-bit case fingerprint.
type Hasher struct{ h uint64 }

func NewHasher() *Hasher     { return &Hasher{0xcbf29ce484222325} }
func (h *Hasher) U(v uint64) { h.h = mix(h.h ^ v) }
func (h *Hasher) B(b []byte) {
	for _, x := range b {
		h.h = (h.h ^ uint64(x)) * 1099511628211
	}
	h.h = mix(h.h)
}
func (h *Hasher) S(s string)  { h.B([]byte(s)) }
func (h *Hasher) Sum() uint64 { return h.h }
func Hash(vs ...uint64) uint64 {
	h := NewHasher()
	for _, v := range vs {
		h.U(v)
	}
	return h.Sum()
}
