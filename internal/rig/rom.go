package rig

// ROM image builders. Every 16 KiB page carries a signature so that the page visible in a
// window is identified exactly: page number (little-endian 16 bit) at offsets 0x0000,
// 0x0150, 0x2000 and 0x3FFE, and a page-dependent fill elsewhere. Header bytes
// 0x0147-0x0149 of page 0 hold cartridge type, ROM size code and RAM size code.

// PageFill is the fill byte of page p at offset off.
func PageFill(p int, off int) byte {
	return byte(mix(uint64(p)<<20|uint64(off)) >> 17)
}

var sigOffsets = [...]int{0x0000, 0x0150, 0x2000, 0x3ffe}

// ROMByte is the byte of the signature image at page p, offset off (0..0x3fff).
func ROMByte(p, off int, cartType, romSize, ramSize byte) byte {
	for _, so := range sigOffsets {
		if off == so {
			return byte(p)
		}
		if off == so+1 {
			return byte(p >> 8)
		}
	}
	if p == 0 {
		switch off {
		case 0x147:
			return cartType
		case 0x148:
			return romSize
		case 0x149:
			return ramSize
		}
	}
	return PageFill(p, off)
}

// SignatureROM builds an image of 2<<romSize pages.
func SignatureROM(cartType, romSize, ramSize byte) []byte {
	pages := 2 << romSize
	img := make([]byte, pages*0x4000)
	for p := 0; p < pages; p++ {
		base := p * 0x4000
		for off := 0; off < 0x4000; off++ {
			img[base+off] = PageFill(p, off)
		}
		for _, so := range sigOffsets {
			img[base+so] = byte(p)
			img[base+so+1] = byte(p >> 8)
		}
	}
	img[0x147], img[0x148], img[0x149] = cartType, romSize, ramSize
	return img
}

// BlankROM builds a zero-filled (NOP sled) image with the given header; code can be
// placed with Put. Entry point is 0x0100.
func BlankROM(cartType, romSize, ramSize byte) []byte {
	img := make([]byte, (2<<romSize)*0x4000)
	img[0x147], img[0x148], img[0x149] = cartType, romSize, ramSize
	return img
}

// Put copies code into the image at addr.
func Put(img []byte, addr int, code ...byte) { copy(img[addr:], code) }
