package romrun

import (
	"encoding/json"
	"fmt"
	"os"
	"path/filepath"
	"strings"

	"verif/internal/lockstep"
	"verif/internal/rig"
)

// Expectations is the set of ROMs (relative paths) that report success on the repaired tree
// (/verif/rom_expectations.json). A ROM in the set that stops passing is a violation of the
// property the ROM targets.
func Expectations() map[string]bool {
	out := map[string]bool{}
	b, err := os.ReadFile(filepath.Join(rig.VerifDir(), "rom_expectations.json"))
	if err != nil {
		return out
	}
	var l []string
	if json.Unmarshal(b, &l) == nil {
		for _, s := range l {
			out[s] = true
		}
	}
	return out
}

// FollowOpts selects what a lock-step ROM run reports.
type FollowOpts struct {
	// Props are the property ids whose lock-step violations are reported (others are ignored
	// here; their own checks report them).
	Props []string
	// Verdict: report a ROM of the expectation set that no longer passes.
	Verdict bool
	// MemEvery forwards to the follower.
	MemEvery int
	// OnFollower lets the caller attach extra hooks before the run.
	OnFollower func(r ROM, m *rig.Machine, f *lockstep.Follower)
	// WrapStep, when set, supplies the per-cycle step function (it must call f.Cycle itself).
	WrapStep func(r ROM, m *rig.Machine, f *lockstep.Follower) func() bool
	// AfterRun is called with the outcome.
	AfterRun func(r ROM, m *rig.Machine, f *lockstep.Follower, out Outcome)
}

// FollowROMs runs the selected ROMs (one Part case per ROM) under the lock-step monitor.
func FollowROMs(c *rig.Ctx, part string, roms []ROM, o FollowOpts) {
	exp := Expectations()
	want := map[string]bool{}
	for _, p := range o.Props {
		want[p] = true
	}
	c.Part(part, int64(len(roms)), func(i int64, _ *rig.Rng) {
		r := roms[i]
		m, buf, err := Load(r)
		if err != nil {
			c.Count("rom_load_errors", 1)
			return
		}
		f := lockstep.New(m)
		f.MemEvery = o.MemEvery
		f.Violate = func(prop, class, msg string) {
			if want[prop] {
				c.ViolateAs(prop, "rom-"+class, fmt.Sprintf("%s: %s", r.Rel, msg), map[string]any{"rom": r.Rel})
			}
		}
		if o.OnFollower != nil {
			o.OnFollower(r, m, f)
		}
		step := f.Cycle
		if o.WrapStep != nil {
			step = o.WrapStep(r, m, f)
		}
		out := Run(r, m, buf, step)
		c.Eval(f.Instrs + f.Dispatches)
		c.Count("rom_runs", 1)
		c.Count("rom_instructions", f.Instrs)
		c.Count("rom_dispatches", f.Dispatches)
		c.Count("rom_halt_idle_cycles", f.IdleCycles)
		c.Count("rom_halt_wakes", f.Wakes)
		c.Count("rom_halt_bugs", f.HaltBugs)
		c.Count("rom_partial_instructions", f.Partials)
		c.Count("rom_verdict_"+strings.SplitN(out.Verdict, ":", 2)[0], 1)
		c.DistinctOnly(rig.HashStr("rom:" + r.Rel))
		if o.Verdict && exp[r.Rel] && out.Verdict != "pass" {
			c.Violate("rom-regression-"+filepath.Base(r.Rel), fmt.Sprintf("%s passed on the reference tree and now reports %q after %d cycles (follower ended: %q)", r.Rel, out.Verdict, out.Cycles, f.Ended), map[string]any{"rom": r.Rel, "serial": out.Serial})
		}
		if o.AfterRun != nil {
			o.AfterRun(r, m, f, out)
		}
		if i < 3 {
			c.Sample(map[string]any{"class": "rom", "rom": r.Rel, "verdict": out.Verdict, "cycles": out.Cycles, "instructions": f.Instrs, "dispatches": f.Dispatches})
		}
	})
}

// Select returns the ROMs whose relative path contains any of the substrings.
func Select(subs ...string) []ROM {
	var out []ROM
	for _, r := range List() {
		for _, s := range subs {
			if strings.Contains(r.Rel, s) {
				out = append(out, r)
				break
			}
		}
	}
	return out
}
