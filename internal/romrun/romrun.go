// Package romrun runs the bundled test ROMs headless on the component rig and reads each
// ROM's own verdict (blargg: "Passed"/"Failed" on serial or in cartridge RAM; mooneye: the
// LD B,B breakpoint with the Fibonacci register signature).
package romrun

import (
	"bytes"
	"os"
	"path/filepath"
	"sort"
	"strings"

	"verif/internal/rig"
)

const Root = "/repo/gameboy/testdata"

type ROM struct {
	Path string // absolute
	Rel  string // relative to testdata
	Kind string // "blargg" | "mooneye" | "other"
}

// List returns all non-empty .gb files under the repository's testdata, sorted.
func List() []ROM {
	var out []ROM
	filepath.Walk(Root, func(p string, info os.FileInfo, err error) error {
		if err != nil || info.IsDir() || !strings.HasSuffix(p, ".gb") || info.Size() == 0 {
			return nil
		}
		rel, _ := filepath.Rel(Root, p)
		kind := "other"
		switch {
		case strings.HasPrefix(rel, "blargg/"):
			kind = "blargg"
		case strings.HasPrefix(rel, "mts-"):
			kind = "mooneye"
		}
		out = append(out, ROM{Path: p, Rel: rel, Kind: kind})
		return nil
	})
	sort.Slice(out, func(i, j int) bool { return out[i].Rel < out[j].Rel })
	return out
}

// Budget is the machine-cycle budget for a ROM (a per-ROM constant; no wall clock).
func Budget(r ROM) uint64 {
	switch {
	case strings.HasSuffix(r.Rel, "cpu_instrs/cpu_instrs.gb"):
		return 70_000_000
	case strings.HasSuffix(r.Rel, "dmg_sound/dmg_sound.gb"):
		return 45_000_000
	case strings.HasSuffix(r.Rel, "oam_bug/oam_bug.gb"):
		return 30_000_000
	case r.Kind == "blargg":
		return 40_000_000
	case r.Kind == "mooneye":
		return 16_000_000
	}
	return 4_000_000
}

type Outcome struct {
	Verdict string // "pass" | "fail" | "timeout" | "ended:<why>" | "load-error"
	Cycles  uint64
	Serial  string
}

// Run drives a machine built from the ROM with step() (one machine cycle; returns false to
// end early) until the ROM reports a verdict or the budget is exhausted.
func Run(r ROM, m *rig.Machine, serial *bytes.Buffer, step func() bool) Outcome {
	budget := Budget(r)
	var cyc uint64
	check := func() string {
		if r.Kind == "mooneye" || r.Kind == "other" {
			if regs := m.CPU.CheckMooneye(); regs != nil {
				if bytes.Equal(regs, []byte{3, 5, 8, 13, 21, 34}) {
					return "pass"
				}
				return "fail"
			}
		}
		if r.Kind == "blargg" {
			s := serial.String()
			if strings.Contains(s, "Passed") {
				return "pass"
			}
			if strings.Contains(s, "Failed") {
				return "fail"
			}
			ram := m.Mem.DumpRAM()
			if len(ram) > 4 && ram[1] == 0xde && ram[2] == 0xb0 && ram[3] == 0x61 && ram[0] != 0x80 {
				if ram[0] == 0 && bytes.Contains(ram[:0x400], []byte("Passed")) {
					return "pass"
				}
				if bytes.Contains(ram[:0x400], []byte("Failed")) || ram[0] != 0 {
					return "fail"
				}
			}
		}
		return ""
	}
	for cyc < budget {
		for k := 0; k < 4096; k++ {
			if !step() {
				return Outcome{Verdict: "ended", Cycles: cyc, Serial: serial.String()}
			}
			cyc++
		}
		if v := check(); v != "" {
			return Outcome{Verdict: v, Cycles: cyc, Serial: serial.String()}
		}
	}
	return Outcome{Verdict: "timeout", Cycles: cyc, Serial: serial.String()}
}

// Load reads the ROM and builds a machine with a serial buffer attached.
func Load(r ROM) (*rig.Machine, *bytes.Buffer, error) {
	img, err := os.ReadFile(r.Path)
	if err != nil {
		return nil, nil, err
	}
	buf := &bytes.Buffer{}
	m, err := rig.New(img, rig.Opts{SerialWriter: buf})
	return m, buf, err
}
