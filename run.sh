#!/bin/bash
# Entry point registered in MANIFEST.json.
#   ./run.sh setup                 build everything from files on disk (offline)
#   ./run.sh C07 quick|thorough    rebuild the C07 check against /repo's working tree (tag verif) and run it
#   ./run.sh replay <file>         re-execute the case recorded in a replay file
set -u
cd "$(dirname "$0")"
export GOFLAGS=-mod=mod GOPROXY=off GOSUMDB=off GOTOOLCHAIN=local CGO_ENABLED=0
export VERIF_DIR="$(pwd)"
mkdir -p bin work evidence replays

build() { # id
  local id="$1" lc
  lc="$(echo "$id" | tr 'A-Z' 'a-z')"
  if [ ! -d "cmd/$lc" ]; then echo "INCONCLUSIVE property=$id no such check" ; return 2; fi
  if ! go build -tags verif -o "bin/$lc" "./cmd/$lc" 2> "work/build-$lc.log"; then
    echo "INCONCLUSIVE property=$id harness does not build against /repo (hooks or API changed):"
    head -40 "work/build-$lc.log"
    return 2
  fi
  if [ -f "cmd/$lc/RACE" ]; then
    if ! CGO_ENABLED=1 go build -race -tags verif -o "bin/$lc-race" "./cmd/$lc" 2> "work/build-$lc-race.log"; then
      echo "INCONCLUSIVE property=$id race build failed:"
      head -40 "work/build-$lc-race.log"
      return 2
    fi
  fi
  return 0
}

case "${1:-}" in
  setup)
    rc=0
    for d in cmd/c*/; do
      id="$(basename "$d" | tr 'a-z' 'A-Z')"
      build "$id" || rc=1
    done
    exit $rc
    ;;
  replay)
    f="${2:?replay file}"
    id="$(python3 -c 'import json,sys; print(json.load(open(sys.argv[1]))["property"])' "$f")" || exit 2
    build "$id" || exit 2
    lc="$(echo "$id" | tr 'A-Z' 'a-z')"
    exec "bin/$lc" replay "$f"
    ;;
  C[0-9][0-9])
    id="$1"; tier="${2:-${VERIF_TIER:-quick}}"
    build "$id" || exit 2
    lc="$(echo "$id" | tr 'A-Z' 'a-z')"
    shift; shift || true
    exec "bin/$lc" run --tier "$tier" "$@"
    ;;
  *)
    echo "usage: $0 setup | Cnn quick|thorough | replay <file>" >&2
    exit 2
    ;;
esac
