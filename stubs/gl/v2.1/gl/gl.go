// Package gl is a pure-Go fake of the subset of github.com/go-gl/gl/v2.1/gl used by
// tetromino's display package. TexImage2D captures the frame bytes handed to the display.
package gl

import (
	"reflect"
	"sync"
	"unsafe"
)

const (
	TEXTURE_2D         = 0x0DE1
	TEXTURE_MIN_FILTER = 0x2801
	TEXTURE_MAG_FILTER = 0x2800
	TEXTURE_WRAP_S     = 0x2802
	TEXTURE_WRAP_T     = 0x2803
	NEAREST            = 0x2600
	CLAMP_TO_EDGE      = 0x812F
	RGBA               = 0x1908
	UNSIGNED_BYTE      = 0x1401
	QUADS              = 0x0007
)

var (
	mu sync.Mutex
	// Frames counts TexImage2D calls; LastFrame is a copy of the most recent pixels.
	Frames    int64
	LastFrame []byte
	LastW     int32
	LastH     int32
	// OnFrame, when set, receives a copy of every uploaded frame.
	OnFrame func(n int64, w, h int32, pix []byte)
)

func XReset() {
	mu.Lock()
	defer mu.Unlock()
	Frames = 0
	LastFrame = nil
	OnFrame = nil
}

func Init() error { return nil }

func Enable(cap uint32) {}

func GenTextures(n int32, textures *uint32) { *textures = 1 }

func BindTexture(target uint32, texture uint32) {}

func TexParameteri(target uint32, pname uint32, param int32) {}

func Begin(mode uint32) {}

func End() {}

func TexCoord2f(s, t float32) {}

func Vertex2f(x, y float32) {}

// Ptr mimics gl.Ptr for slices (the only use in display.go).
func Ptr(data interface{}) unsafe.Pointer {
	if data == nil {
		return unsafe.Pointer(nil)
	}
	v := reflect.ValueOf(data)
	switch v.Kind() {
	case reflect.Slice:
		if v.Len() == 0 {
			return unsafe.Pointer(nil)
		}
		return unsafe.Pointer(v.Index(0).Addr().Pointer())
	case reflect.Ptr:
		return unsafe.Pointer(v.Pointer())
	}
	panic("gl stub: unsupported Ptr argument")
}

func TexImage2D(target uint32, level int32, internalformat int32, width int32, height int32, border int32, format uint32, xtype uint32, pixels unsafe.Pointer) {
	n := int(width) * int(height) * 4
	buf := make([]byte, n)
	if pixels != nil && n > 0 {
		copy(buf, unsafe.Slice((*byte)(pixels), n))
	}
	mu.Lock()
	Frames++
	k := Frames
	LastFrame = buf
	LastW, LastH = width, height
	cb := OnFrame
	mu.Unlock()
	if cb != nil {
		cb(k, width, height, buf)
	}
}
