// Package glfw is a pure-Go fake of the subset of github.com/go-gl/glfw/v3.1/glfw
// that tetromino's display package uses. It is also an instrument: the harness can
// script the window (close requests, key events) and observe calls.
package glfw

import (
	"sync"
	"sync/atomic"
)

type Hint int
type Key int
type Action int
type ModifierKey int
type Monitor struct{}

const (
	ContextVersionMajor Hint = iota + 1
	ContextVersionMinor
	Resizable
)

const (
	Release Action = 0
	Press   Action = 1
	Repeat  Action = 2
)

const (
	KeyA     Key = 65
	KeyS     Key = 83
	KeyX     Key = 88
	KeyZ     Key = 90
	KeyRight Key = 262
	KeyLeft  Key = 263
	KeyDown  Key = 264
	KeyUp    Key = 265
	KeyQ     Key = 81
)

type KeyCallback func(w *Window, key Key, scancode int, action Action, mods ModifierKey)

type Window struct {
	mu          sync.Mutex
	shouldClose bool
	keyCb       KeyCallback
	Swaps       int64
}

// ---- instrumentation state (package level: the real library is a process-wide singleton too) ----

var (
	mu          sync.Mutex
	current     *Window
	InitCalls   int64
	TermCalls   int64
	PollCalls   int64
	WindowsMade int64
	// OnPoll, when set, is invoked from PollEvents (i.e. once per rendered frame) with
	// the window and the number of polls so far (1-based).
	OnPoll func(w *Window, n int64)
)

// XReset clears all instrumentation state (harness use).
func XReset() {
	mu.Lock()
	defer mu.Unlock()
	current = nil
	atomic.StoreInt64(&InitCalls, 0)
	atomic.StoreInt64(&TermCalls, 0)
	atomic.StoreInt64(&PollCalls, 0)
	atomic.StoreInt64(&WindowsMade, 0)
	OnPoll = nil
}

// XCurrent returns the most recently created window.
func XCurrent() *Window {
	mu.Lock()
	defer mu.Unlock()
	return current
}

func Init() error {
	atomic.AddInt64(&InitCalls, 1)
	return nil
}

func Terminate() {
	atomic.AddInt64(&TermCalls, 1)
}

func WindowHint(target Hint, hint int) {}

func SwapInterval(interval int) {}

func PollEvents() {
	n := atomic.AddInt64(&PollCalls, 1)
	mu.Lock()
	cb := OnPoll
	w := current
	mu.Unlock()
	if cb != nil {
		cb(w, n)
	}
}

func CreateWindow(width, height int, title string, monitor *Monitor, share *Window) (*Window, error) {
	w := &Window{}
	mu.Lock()
	current = w
	mu.Unlock()
	atomic.AddInt64(&WindowsMade, 1)
	return w, nil
}

func (w *Window) MakeContextCurrent() {}

func (w *Window) SwapBuffers() { atomic.AddInt64(&w.Swaps, 1) }

func (w *Window) ShouldClose() bool {
	w.mu.Lock()
	defer w.mu.Unlock()
	return w.shouldClose
}

func (w *Window) SetShouldClose(v bool) {
	w.mu.Lock()
	w.shouldClose = v
	w.mu.Unlock()
}

func (w *Window) SetKeyCallback(cb KeyCallback) KeyCallback {
	w.mu.Lock()
	defer w.mu.Unlock()
	prev := w.keyCb
	w.keyCb = cb
	return prev
}

// XKey delivers a key event through the registered callback (harness use).
func (w *Window) XKey(key Key, action Action) {
	w.mu.Lock()
	cb := w.keyCb
	w.mu.Unlock()
	if cb != nil {
		cb(w, key, 0, action, 0)
	}
}
