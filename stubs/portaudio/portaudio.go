// Package portaudio is a pure-Go fake of the subset of github.com/gordonklaus/portaudio
// used by tetromino's speakers package. Start runs the registered callback on a
// goroutine exactly as PortAudio would (the only true concurrency in the emulator) and
// records every buffer it filled. Delay hooks widen producer/consumer interleavings.
package portaudio

import (
	"errors"
	"runtime"
	"sync"
	"sync/atomic"
)

type DeviceInfo struct{ Name string }

type HostApiInfo struct {
	Name                string
	DefaultOutputDevice *DeviceInfo
}

type StreamDeviceParameters struct {
	Device   *DeviceInfo
	Channels int
}

type StreamParameters struct {
	Input, Output   StreamDeviceParameters
	SampleRate      float64
	FramesPerBuffer int
}

var (
	InitCalls  int64
	TermCalls  int64
	OpenCalls  int64
	StartCalls int64
	CloseCalls int64

	mu sync.Mutex
	// BufLen is the callback buffer length (floats). 126 = low latency PortAudio.
	BufLen = 126
	// BeforeCallback, when set, is called on the audio goroutine before each callback
	// invocation with the invocation index; it may sleep/yield/stall.
	BeforeCallback func(n int64)
	// Sink receives a copy of every buffer the callback filled.
	Sink func(n int64, buf []float32)
	// SinkS is Sink with the stream the buffer belongs to (several streams may be open).
	SinkS   func(s *Stream, n int64, buf []float32)
	current *Stream
)

func XReset() {
	mu.Lock()
	defer mu.Unlock()
	atomic.StoreInt64(&InitCalls, 0)
	atomic.StoreInt64(&TermCalls, 0)
	atomic.StoreInt64(&OpenCalls, 0)
	atomic.StoreInt64(&StartCalls, 0)
	atomic.StoreInt64(&CloseCalls, 0)
	BufLen = 126
	BeforeCallback = nil
	Sink = nil
	SinkS = nil
	current = nil
}

func XCurrent() *Stream {
	mu.Lock()
	defer mu.Unlock()
	return current
}

func Initialize() error { atomic.AddInt64(&InitCalls, 1); return nil }

func Terminate() error { atomic.AddInt64(&TermCalls, 1); return nil }

func DefaultHostApi() (*HostApiInfo, error) {
	return &HostApiInfo{Name: "fake", DefaultOutputDevice: &DeviceInfo{Name: "fake-out"}}, nil
}

func LowLatencyParameters(in, out *DeviceInfo) StreamParameters {
	return StreamParameters{Output: StreamDeviceParameters{Device: out, Channels: 2}, SampleRate: 44100}
}

type Stream struct {
	cb      func([]float32)
	stop    chan struct{}
	done    chan struct{}
	started bool
	closed  bool
	Calls   int64
}

func OpenStream(p StreamParameters, args ...interface{}) (*Stream, error) {
	atomic.AddInt64(&OpenCalls, 1)
	if len(args) != 1 {
		return nil, errors.New("fake portaudio: want exactly one callback")
	}
	cb, ok := args[0].(func([]float32))
	if !ok {
		return nil, errors.New("fake portaudio: unsupported callback signature")
	}
	s := &Stream{cb: cb, stop: make(chan struct{}), done: make(chan struct{})}
	mu.Lock()
	current = s
	mu.Unlock()
	return s, nil
}

func (s *Stream) Start() error {
	atomic.AddInt64(&StartCalls, 1)
	if s.started {
		return errors.New("fake portaudio: already started")
	}
	s.started = true
	mu.Lock()
	n := BufLen
	before := BeforeCallback
	sink := Sink
	sinkS := SinkS
	mu.Unlock()
	go func() {
		defer close(s.done)
		for {
			select {
			case <-s.stop:
				return
			default:
			}
			k := atomic.AddInt64(&s.Calls, 1)
			if before != nil {
				before(k)
			}
			buf := make([]float32, n)
			s.cb(buf)
			if sink != nil {
				sink(k, buf)
			}
			if sinkS != nil {
				sinkS(s, k, buf)
			}
			runtime.Gosched()
		}
	}()
	return nil
}

func (s *Stream) Close() error {
	atomic.AddInt64(&CloseCalls, 1)
	if s.closed {
		return errors.New("fake portaudio: stream closed twice")
	}
	s.closed = true
	if s.started {
		close(s.stop)
		<-s.done
	}
	return nil
}
