#!/bin/bash
# Confirms an independently produced change in its scratch worktree:
#   tools_confirm.sh <worktree> <out dir> <package dir rel. to worktree> <demo test file> [-tags verif]
# clean checkout: demo passes; patch applied: buildable packages compile (also with -tags verif),
# the 44 pinned tests pass, demo FAILS; then everything is reverted.
set -u
wt="$1"; out="$2"; pkg="$3"; demo="$4"; tags="${5:-}"
export GOFLAGS=-mod=mod GOPROXY=off GOSUMDB=off GOTOOLCHAIN=local
PK="./gameboy/cpu ./gameboy/memory ./gameboy/ppu ./gameboy/oam ./gameboy/timer ./gameboy/audio ./gameboy/interrupts ./gameboy/controller ./gameboy/serial"
cd "$wt" || exit 2
git checkout -q -- . ; rm -f "$pkg/$demo"
names=$(grep -o 'func Test[A-Za-z0-9_]*' "$out/$demo" | sed 's/func //' | paste -sd'|')
git apply "$out/patch.diff" || { echo "patch does not apply"; exit 2; }
go build $PK >/tmp/confirm_build.log 2>&1; b=$?
go build -tags verif $PK >>/tmp/confirm_build.log 2>&1; b2=$?
go vet $PK >>/tmp/confirm_build.log 2>&1; v=$?
go test -vet=off -count=1 ./gameboy/cpu ./gameboy/timer >/tmp/confirm_suite.log 2>&1; s=$?
mkdir -p "$pkg"; cp "$out/$demo" "$pkg/"
go test $tags -vet=off -count=1 -run "^($names)\$" "./$pkg" >/tmp/confirm_mut.log 2>&1; c1=$?
git checkout -q -- .
go test $tags -vet=off -count=1 -run "^($names)\$" "./$pkg" >/tmp/confirm_clean.log 2>&1; c0=$?
rm -f "$pkg/$demo"
echo "demo=$(echo $names | cut -c1-60) clean_exit=$c0 build=$b build_verif=$b2 vet=$v suite44=$s mutated_exit=$c1"
if [ $c0 -eq 0 ] && [ $b -eq 0 ] && [ $b2 -eq 0 ] && [ $s -eq 0 ] && [ $c1 -ne 0 ]; then echo CONFIRMED; else echo "NOT CONFIRMED"; tail -5 /tmp/confirm_mut.log /tmp/confirm_clean.log /tmp/confirm_build.log /tmp/confirm_suite.log; exit 1; fi
