#!/usr/bin/env python3
"""Regenerates MANIFEST.json from the table below (keeps it schema-valid)."""
import json, os, subprocess, sys

CHECKS = {
 # id: (technique, level text, level note, design_ref)
 "C01": ("reference-model monitor: single-instruction differential execution against a bit-field-decoded SM83 model (complete enumeration of the finite operand spaces) + lock-step monitor on generated programs",
         "The real dispatch path executes every defined opcode from enumerated/random states; registers, flags, PC/SP, IME/halt state and memory (work/high RAM on every case, all 64 KiB on sampled cases) are compared with an independent reference. 8-bit ALU, CB, INC/DEC, DAA, 16-bit INC/DEC, ADD SP,e/LD HL,SP+e and POP AF operand spaces are enumerated completely (about 4e7 cases per quick run); other opcodes and whole programs are sampled.",
         "Trusts the reference SM83 model (cross-checked against daa.csv and the passing blargg/mooneye ROMs); STOP accepted as 1 or 2 bytes; undefined opcodes are never executed here (C11).",
         "DESIGN.md §4 C01"),
 "C02": ("black-box sentinel timing measurement of every opcode x flag nibble + lock-step cycle counting on generated programs and the timing ROMs",
         "Instruction length is measured without the CPU's own boundary notion (cycles until a following sentinel instruction takes effect) for all 501 defined opcodes x 16 flag nibbles, and between boundaries for every retired instruction of generated programs and of blargg instr_timing/mem_timing and the mooneye *_timing ROMs.",
         "Trusts the documented cycle table of the reference (cross-checked against instruction_metadata.go and the ROMs' own verdicts); HALT/STOP excluded (C05/C01).",
         "DESIGN.md §4 C02"),
 "C03": ("per-cycle memory observation: write cycle by read-back after every machine cycle, read cycle by substituting the addressed byte during exactly one cycle; oracle = access schedule of the reference model",
         "Every memory-accessing opcode (incl. CB (HL) forms, conditional taken/not taken) x five location classes (plus, for the single-byte load/store forms, 23 I/O registers that read back what was stored) x 16 flag nibbles: each data write is timed by per-cycle read-back, each data read by per-cycle value substitution; exactly one cycle must respond and it must be the documented one. The mem_timing and mooneye *_timing ROM verdicts are regression-checked.",
         "Trusts the documented access schedule in internal/ref; pokes through Mapper.Write between CPU cycles stand for hardware changing memory between cycles.",
         "DESIGN.md §4 C03"),
 "C04": ("lock-step trace monitor with a reference interrupt controller; exhaustive IME x IE x IF boundary states, all short instruction sequences with requests injected at every machine-cycle offset, generated programs and interrupt ROMs",
         "At every instruction boundary of every run the reference decides dispatch/no dispatch; vector, pushed return address, IME, the IF bit cleared, IE/IF frame condition and the 5-cycle length are compared. All 2x32x32 boundary states x 9 following instructions and all sequences up to length 4 (quick) / 5 (thorough) over {EI, DI, RETI, NOP, INC B, LD A,n, LDH (IF),A, LDH (IE),A, JR cc,+0, SWAP A} with requests at every cycle offset are executed.",
         "Requests raised during the five dispatch cycles may be the one served (either accepted); EI;HALT and EI-with-IME-already-set followed by an immediate dispatch are outside the statement.",
         "DESIGN.md §4 C04"),
 "C05": ("lock-step trace monitor with a reference HALT/halt-bug model; HALT x IME x pending x every following opcode x idle length 0..48, requests through the request path, the real timer, and unenabled requests",
         "Every cycle after a HALT is checked: no architectural change while idle, 6-cycle dispatch with the right return address when IME is set, resumption without dispatch or IF change when IME is clear, and the double execution of the following byte when a request was already pending; plus generated programs and the blargg/mooneye halt ROMs.",
         "IME=0 wake-up latency of 0 or 1 cycle accepted (not stated); CB prefix after a bugged HALT and EI;HALT not judged.",
         "DESIGN.md §4 C05"),
 "C06": ("reference-model monitor of Mapper.Read/Write histories: exhaustive address x value single writes with read-back of address and mirror, random write/read/tick histories, paired runs for LY",
         "All 2^24 (address, value) single writes are executed with the LCD off and read back against a reference memory map (plain regions, echo both ways, FEA0-FEFF, unmapped I/O, per-register masks, DMA register), with periodic whole-space sweeps for cross-effects; random histories mix writes, reads and elapsed cycles with the LCD on and off; LY is shown independent of the written value by paired runs.",
         "ROM-only cartridge; JOYP/serial/sound registers judged by C22/C23/C18; a location is judged only after the history wrote it.",
         "DESIGN.md §4 C06"),
 "C07": ("frame-condition monitor: full 64 KiB read image before/after every single Mapper.Write compared with the documented effect set, from randomised machine states",
         "For about 2.5e5 (quick) single writes from states produced by generated programs, earlier writes and elapsed cycles on seven cartridge types, every readable location that changes must belong to the documented effect set of the written address.",
         "Effect sets as tabulated in DESIGN.md; OAM observed through a side-effect-free hook so the harness cannot arm the OAM bug.",
         "DESIGN.md §4 C07"),
 "C08": ("reference-model monitor with page signatures: exhaustive control-register writes per cartridge type and ROM size, random write sequences, both ROM windows identified after every write",
         "For every supported cartridge type and every ROM size its controller addresses, every value is written to representative addresses of every control region (from reset and from scrambled states), all MBC1 BANK1 x BANK2 x MODE triples are set, and random sequences are run; after each write the pages visible at 0000-3FFF and 4000-7FFF are identified by signature and compared with a reference controller; finally all pages are re-read.",
         "Reference controllers follow the statement's register semantics; sizes beyond a controller's range are only crash-tested (C11).",
         "DESIGN.md §4 C08"),
 "C09": ("reference-model monitor over random enable/bank/read/write/dump histories per cartridge type and RAM size",
         "Random histories of enable, disable, bank select (including out-of-range), mode, data write, read and dump on all 17 supported cartridge types x RAM size codes {0,2,3,4,5}; every read and every dump is compared with a reference RAM model (gate, modulo banking, persistence, MBC2 nibbles, ROM-only FF).",
         "Only cells the history wrote are compared; clock registers are C10's business.",
         "DESIGN.md §4 C09"),
 "C10": ("reference-model monitor: complete one-second-step enumeration of all clock states through a hook, guest-visible latch/read/write/halt histories with elapsed machine cycles, exact 2^20-cycle time base",
         "All 1.3e8 (s, m, h, day, carry) states take one rollover step on the real clock and are compared; carry chains with garbage in unused bits, random guest-visible histories and the exact second length are checked through Mapper reads/writes only.",
         "Out-of-range counter values wrap at their bit width without carrying; latch pairs are exactly 00 then 01.",
         "DESIGN.md §4 C10"),
 "C11": ("crash monitor: recovered emulator panics per journaled case, worker-process deaths, and the deliberate stop observed in dedicated child processes; hostile images, exhaustive control writes, random histories and programs",
         "Every supported cartridge type x ROM/RAM size code x every value to 24 control addresses with all windows read after each, DMA from every page, all 256x256 header pairs on differently sized images, odd-length images, random write/read/step histories and random-byte/grammar programs run in journaling worker processes; any panic or death after successful construction is a violation, and each of the 11 undefined opcodes is shown to stop the process deliberately.",
         "Construction = memory.New + cpu.New as gameboy.New performs them; undefined opcodes are never executed in-process (peek guard).",
         "DESIGN.md §4 C11"),
 "C12": ("reference-model monitor: bounded-exhaustive operation sequences (tick / DIV / TIMA / TMA / TAC writes) from edge-structured start states, long random schedules, timer ROMs",
         "Every operation sequence up to length 4 (quick) / 6 (thorough) over a 13-operation alphabet is run on the real Timer from 960 start states (every TAC, counter 1-4 cycles before each edge of the selected bit and around the FFFC/0000 wrap, TIMA near overflow); DIV, TIMA, TMA, TAC and the interrupt result are compared with a cycle-sampled reference after every operation; plus 4e6 random operations, the same random schedules through FF04-FF07 of a whole machine with OAM DMA transfers in flight, long lives (2^17+ overflows) and the mooneye timer ROMs.",
         "Cycle-sampled edge detection (imposed by the pinned unit tests); three corner cases the statement leaves open are counted as unspecified; the TLA+ model check mentioned in the quantifier is a different technique and not performed.",
         "DESIGN.md §4 C12"),
 "C13": ("reference-model monitor: LY and STAT mode compared after every machine cycle and LCDC write with a pure function of cycles-since-switch-on, under systematic and random LCD on/off schedules",
         "The LCD is switched off at every cycle offset of nine selected lines (first and later frames) and on again after random gaps, and random schedules with redundant LCDC writes are run for several frames; every (line, cycle) cell of the frame is visited and compared.",
         "Component rig: only the PPU is stepped; a further part runs the whole emulator through gameboy.New and its own frame loop (running, halted and STOP-mode guests) and compares LY/mode after every frame. Reference: first line 112 cycles, modes 2/3/0 at cycles 0/20/61, lines 144-153 mode 1.",
         "DESIGN.md §4 C13"),
 "C14": ("event monitor on IF bits 0-1 (read and cleared after every machine cycle) against the rising edges derived from the reference line/mode counter; each single STAT source x every LYC, plus on/off schedules",
         "For each single STAT source (and none) x LYC 0-153 and out of range, three frames are run from switch-on and every machine cycle's VBlank/STAT requests are compared with the reference's rising edges (exactly once each, never while off); random on/off schedules add switch points at arbitrary cycles.",
         "Single sources only; switch-on line OAM/LYC=0 and OAM at line 144 accepted either way.",
         "DESIGN.md §4 C14"),
 "C15": ("reference-renderer monitor: random scenes within the statement's side conditions, second frame compared pixel by pixel",
         "1600 (quick) random scenes with dense four-colour tile data, both maps and addressing modes, scroll wrap, window edge positions, up to 40 objects (<= 10 per line, X-sorted) at every edge-crossing position with flips, palettes and priority; 3.7e7 pixels per quick run are compared with a first-principles reference composition and attributed to their source.",
         "Scene registers/VRAM/OAM constant for the frame; 8x8 objects only.",
         "DESIGN.md §4 C15"),
 "C16": ("per-cycle OAM read monitor and final content comparison for every DMA source page, mid-transfer source modification and restarts at every cycle; OAM-DMA ROM verdicts",
         "Every source page 00-F1 (ROM banks, VRAM, enabled/disabled cartridge RAM, work RAM, echo) with the LCD off and on: FE00-FEFF is read after every cycle (FF until completion, completion within 162 cycles, not before 160) and OAM compared with the source the harness wrote; transfers are restarted at every cycle 0-170 and source bytes are modified at least three cycles away from their copy time.",
         "Exact per-byte copy cycle not asserted; pages F2-FF outside the statement.",
         "DESIGN.md §4 C16"),
 "C17": ("per-cycle OAM change attribution under the lock-step follower: generated pointer-walking programs with the LCD switched off at every cycle offset of four lines, LCD-on programs, oam_bug ROMs",
         "Every machine cycle in which the 160 OAM bytes change is attributed to a predicted CPU write, a running DMA transfer, or LCD-on mode 2; the LCD is switched off at each of 456 (line, offset) points while programs drive BC/DE/HL/SP through FE00-FEFF.",
         "OAM observed through a snapshot hook; in LCD-on mode 2 a change is accepted as the OAM bug (whose corruption patterns are not part of the statement) only if the CPU unit in flight has a register pair, SP, PC or a predicted access at FE00-FEFF; while a transfer runs every change must be the byte fetched in the previous cycle or a predicted CPU write.",
         "DESIGN.md §4 C17"),
 "C18": ("reference register-file monitor: the whole FF10-FF3F block read back after every operation of random write / power / wave RAM / elapse histories",
         "1600 (quick) histories of 300 operations: after each operation all sound registers, the unused addresses between them and wave RAM are read through the Mapper and compared with the mask table, the power rules and the retained wave RAM contents.",
         "NR52 status bits taken from the machine (C19); wave RAM judged only with channel 3 off.",
         "DESIGN.md §4 C18"),
 "C19": ("reference length/status model compared with NR52 after every machine cycle; black-box calibration of the 512 Hz phase; structured phase sweeps, random schedules, runs across the one-second boundary, dmg_sound ROMs",
         "Per channel x length data x trigger/enable pattern x 20 sequencer phase offsets the exact cycle of every status change is compared (5e8 comparisons per quick run), including the extra length clock cases; random schedules mix length, DAC, trigger, sweep and power writes.",
         "Phase calibrated at the register interface; safety form only for channel 1 with a live sweep and for the re-trigger-at-maximum corner.",
         "DESIGN.md §4 C19"),
 "C20": ("sample-stream monitor (per-cycle counting, 95-clock spacing by interval intersection, bounds, routing), paired runs for non-interference, producer/consumer sequence comparison through gameboy.New against the fake PortAudio under the race detector",
         "Every sample of random register schedules over several emulated seconds is checked for pacing (exactly 95 clocks apart within a powered-on stretch, none while off), range and routing; paired runs differing only in an unrouted channel must give bit-identical streams; through gameboy.New the delivered sequence must equal the produced one exactly once and in order (race-detector build, injected consumer stalls).",
         "Grid phase across power-off not asserted; fake PortAudio runs the real Speakers.Callback on its own goroutine.",
         "DESIGN.md §4 C20"),
 "C21": ("waveform-step timing by interval intersection at machine-cycle resolution for every frequency / NR43 value; LFSR output compared with the maximal sequence",
         "All 2048 frequencies on channels 1-3 and all 224 NR43 values with s <= 13 are timed over runs of consecutive steps (a period off by one clock is refuted within a few steps); the LFSR output bits are compared with the 15-bit / 7-bit maximal sequences, with full periods observed for the fast settings. Under the frequency sweep the observed frequencies must walk the reference sequence in order and in time, and the one step interval straddling an update must lie between the periods before and after it.",
         "Positions and LFSR observed through the audio hook; steady state only.",
         "DESIGN.md §4 C21"),
 "C22": ("reference-model monitor over the complete reachable controller state space (BFS), real Controller driven through Mapper FF00",
         "Every transition of the reachable joypad state space (576 states x 272 events) is executed on the real controller and JOYP compared with a 10-line reference under all four select values; exhaustive for the finite space, so the residual risk is the reference itself and hidden state outside that space: against the latter, runs of 1..1100 (thorough 70000) changes between two reads, same-value stores to 25 other addresses directly before a JOYP store, press/release sequences, long batches and select-line streams are judged too.",
         "Trusts the reference joypad (held sets, active-low, AND of selected groups) as the reading of the statement.",
         "DESIGN.md §4 C22"),
}

CHECKS.update({
 "C23": ("exactly-once/in-order stream comparison: bytes received by a recording writer vs the SB write log (harness-issued for register histories, predicted by the lock-step reference CPU for programs and blargg ROMs), plus nil-writer and gameboy.New wiring runs",
         "Register-level histories, generated programs writing random bytes to SB/SC among other I/O, blargg ROM transcripts and runs through gameboy.New(Config{SerialWriter}) must deliver exactly the written bytes once and in order; with no writer the execution is unchanged; SB and SC read FF.",
         "A failing io.Writer is outside the statement; instructions with operands from volatile memory only contribute the number of writes.",
         "DESIGN.md §4 C23"),
 "C24": ("trace-equality monitor: per-frame pixel hashes, display bytes, delivered audio prefix hashes, serial, cartridge RAM, registers and a reflective whole-state fingerprint compared across two in-process runs and a child process with different GOMAXPROCS/GC; audio-attached scenarios under the race detector",
         "Bundled ROMs and generated programs with random button schedules (through the fake GLFW key callback), video and audio on and off, each run twice in-process and once in a fresh process; every observable and the complete state fingerprint must be identical.",
         "What is still queued in the speaker channels at shutdown is not part of the audio comparison; programs reaching an undefined opcode are screened out.",
         "DESIGN.md §4 C24"),
 "C25": ("differential monitor: each instance's trace (registers every 97 cycles, frame hashes, final state fingerprint) in multi-instance schedules vs its solo run; concurrent goroutines under the Go race detector",
         "Pairs and triples of gameboy.New instances over different generated programs in every creation order and five interleaving modes (per cycle, bursts, per frame, late creation, create-and-discard) and one goroutine per instance with concurrent creation and injected yields under -race; each instance must match its solo trace and no race may be reported.",
         "Instances are stepped in runFrame's order through accessor hooks (C26 ties that to runFrame).",
         "DESIGN.md §4 C25"),
 "C26": ("twin differential (runFrame vs 17556 documented-order steps, state fingerprints per frame), per-component progress counters over one frame, and frame-counted stop scenarios against the fake display/speakers under the race detector",
         "Generated programs that write DIV/LCDC/DMA/NR52/timer registers at arbitrary cycles are advanced by the real runFrame and by the documented order and compared after every frame; DIV counter, LCD position, RTC sub-second count, APU clock, DMA completion, CPU cycle count and timer-overflow->IF are asserted directly; close request, cancel inside the poll callback and cancel from another goroutine must stop Run within the stated number of frames and release display and speakers exactly once.",
         "Time is counted in frames rendered by the fake display; a Run that ignores requests is ended by a logical-time watchdog and reported.",
         "DESIGN.md §4 C26"),
})

NOT_APPLICABLE = {
}

def main():
    here = os.path.dirname(os.path.abspath(__file__))
    props = [json.loads(l)["id"] for l in open(os.path.join(here, "properties.jsonl"))]
    hooks_commits = subprocess.run(["git", "-C", "/repo", "log", "--format=%h", "--grep=^verif hooks"],
                                   capture_output=True, text=True).stdout.split()
    checks = []
    for pid in props:
        if pid not in CHECKS:
            continue
        tech, text, note, ref = CHECKS[pid]
        checks.append({
            "property_id": pid,
            "quick_cmd": f"./run.sh {pid} quick",
            "thorough_cmd": f"./run.sh {pid} thorough",
            "evidence_file": f"/verif/evidence/{pid}.json",
            "replay_cmd_template": "./run.sh replay {path}",
            "engine": "vcheck",
            "level_claimed": {"category": "exploration", "text": text + " Parts added during the seeded rounds (host actions such as RAM dumps, key events, debug options and neighbour instances; sibling machines; DMA in flight; STOP mode; long lives) are listed in DESIGN.md 10.5-10.6.", "design_ref": ref},
            "level_note": note,
            "technique": tech,
        })
    na = []
    for pid in props:
        if pid in CHECKS:
            continue
        reason = NOT_APPLICABLE.get(pid, "check not built yet in this session (runtime monitoring applies; see DESIGN.md §4)")
        na.append({"property_id": pid, "reason": reason})
    m = {
        "version": 1,
        "setup_cmd": "./run.sh setup",
        "hooks": {
            "guard": "verif",
            "enable": "go build -tags verif (run.sh builds every check with it against /repo's working tree)",
            "baseline_off_cmd": "cd /repo && GOFLAGS=-mod=mod GOPROXY=off GOSUMDB=off GOTOOLCHAIN=local go test -json -vet=off -count=1 -timeout 25m ./...",
            "source_commits": hooks_commits,
            "add_only": True,
        },
        "engines": [{
            "name": "vcheck",
            "path": "/verif/cmd, /verif/internal/rig",
            "serves_properties": [c["property_id"] for c in checks],
            "kind_free_text": "runtime monitors: the real emulator code is executed under enumerated / generated / hostile workloads in worker sub-processes while reference-model oracles, invariant checkers and the Go race detector watch every execution",
        }],
        "checks": checks,
        "not_applicable": na,
        "notes": "Every check rebuilds its binary from /repo's current working tree with -tags verif before running. Exit 0 = held on everything observed, 1 = VIOLATION line(s) with replay files, 2 = INCONCLUSIVE (harness trouble, never folded into a verdict). Known findings: /verif/known_findings.txt.",
    }
    json.dump(m, open(os.path.join(here, "MANIFEST.json"), "w"), indent=1)
    print("MANIFEST.json:", len(checks), "checks,", len(na), "not claimed")

if __name__ == "__main__":
    main()
