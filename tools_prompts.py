#!/usr/bin/env python3
"""Writes the task files for a round of independently seeded changes and creates the scratch worktrees.
  tools_prompts.py <round-prefix>      e.g. r3 -> /tmp/prompt_r3_Cxx.txt, worktrees /tmp/wt/r3cNN, stubs in /tmp/stubs
The task text contains the property, the sandbox rules and the list of changes already tried (from seeded/*/meta.json);
nothing else from /verif."""
import json, glob, os, subprocess, sys
prefix = sys.argv[1]
os.makedirs('/tmp/wt', exist_ok=True)
subprocess.run('rm -rf /tmp/stubs && mkdir -p /tmp/stubs && cp -r /verif/stubs/* /tmp/stubs/', shell=True, check=True)
props = {}
for l in open('/verif/properties.jsonl'):
    p = json.loads(l); props[p['id']] = p
tried = {}
for mp in sorted(glob.glob('/verif/seeded/*/meta.json')):
    m = json.load(open(mp))
    what = m.get('what') or m['name'][6:].replace('-', ' ')
    tried.setdefault(m['property'], []).append(what + ': ' + m.get('needs', ''))
only = set(os.environ.get('ROUND_PROPS','').split()) 
for pid, p in props.items():
    if only and pid not in only:
        continue
    wt = f'/tmp/wt/{prefix}' + pid.lower()
    whole = pid in ('C11', 'C20', 'C23', 'C24', 'C25', 'C26')
    extra = ''
    if whole:
        extra = f'''
The root package `gameboy` (gameboy.go: New, Run, runFrame) imports cgo packages and does not build here as it is. To compile and run it anyway, create a scratch Go module somewhere under {wt}/out/ whose go.mod has
    require github.com/scottyw/tetromino v0.0.0
    replace github.com/scottyw/tetromino => {wt}
    replace github.com/go-gl/glfw => /tmp/stubs/glfw
    replace github.com/go-gl/gl => /tmp/stubs/gl
    replace github.com/gordonklaus/portaudio => /tmp/stubs/portaudio
(pure-Go fakes of the three cgo libraries; copy {wt}/go.sum next to it). With these replace lines the unmodified gameboy, display and speakers packages compile and `gameboy.New(gameboy.Config{{RomFilename: ..., DisableVideoOutput: true, DisableAudioOutput: true}})` works; the fake glfw exposes `glfw.OnPoll func(w *glfw.Window, n int64)` (called once per rendered frame), `w.SetShouldClose(true)`, `glfw.XCurrent()`, `w.XKey(key, action)`, `glfw.TermCalls`; the fake gl exposes `gl.OnFrame func(n int64, w, h int32, pix []byte)`; the fake portaudio exposes `portaudio.Sink func(n int64, buf []float32)`, `portaudio.BeforeCallback func(n int64)` and counters `OpenCalls`, `CloseCalls`, `TermCalls`. Build the tetromino packages with `-tags verif` if you want the accessor hooks in gameboy/verif_hooks.go (XRunFrame, XCPU, XMapper, ...).
'''
    tr = '\n'.join('  - ' + t for t in tried.get(pid, []))
    txt = f'''You are helping test a verification effort for a Go Game Boy (DMG) emulator. You have your own scratch git worktree of the emulator's repository at {wt} . Do ALL your work there. Never read, list or modify anything under /verif, and never modify /repo.

IMPORTANT: never use `git stash` (the stash is shared between all worktrees of this repository and other people are working in sibling worktrees); to switch between the clean and the changed state use `git apply` / `git apply -R` with your patch file, or `git checkout -- <file>`.

Environment: no network. In EVERY shell call first run: export GOFLAGS=-mod=mod GOPROXY=off GOSUMDB=off GOTOOLCHAIN=local
Packages gameboy/display, gameboy/speakers and the root package gameboy do not build in this sandbox (missing cgo libraries); all the others do: gameboy/cpu, gameboy/memory, gameboy/ppu, gameboy/oam, gameboy/timer, gameboy/audio, gameboy/interrupts, gameboy/controller, gameboy/serial. The repository's existing test suite is `go test -vet=off ./gameboy/cpu ./gameboy/timer` (44 tests) and must keep passing. Files named verif_hooks.go (build tag `verif`) are observation hooks: you may use them in demonstrations (build with -tags verif) but must not edit them.{extra}
The property under test ({pid} — {p['title']}):

STATEMENT: {p['statement']}

QUANTIFIED OVER: {p['quantifier']['text']}

Most relevant files: {', '.join(p['anchors']['files'])}

YOUR TASK: produce TWO different, realistic source changes to the emulator (the kind of bug a maintainer could plausibly introduce in a refactor, optimisation, "accuracy improvement" or feature change), each of which BREAKS this property — i.e. changes guest-visible / API-visible behaviour in a way the statement clearly forbids — while (a) every buildable package still compiles and `go vet` on the touched package is clean, and (b) the existing 44 tests still pass. The changes must be HARD to notice: they should need something SPECIFIC to manifest — a particular interleaving or timing, a request or fault at a particular point, a multi-step sequence of operations, an unusual input value or rarely used configuration, hidden state that makes behaviour depend on history, or two cooperating sites that each look fine alone. Avoid changes that ordinary use would expose at once. The two changes should use different mechanisms / touch different code paths. Keep each change small (at most ~25 lines). Do not edit existing *_test.go files or verif_hooks.go files. Make sure the violated clause is one the statement really asserts (not a behaviour it leaves open).

The following changes have ALREADY been tried by others for this property (what the change did: what it needed to show); do not repeat them or close variants of them, look for different mechanisms, different code paths and different triggering conditions:
{tr}

DELIVERABLES, for each change n = 1, 2, in {wt}/out/<n>/ :
  - patch.diff : the output of `git -C {wt} diff` for the source change only (it must apply with `git apply` to a clean checkout of HEAD);
  - a demonstration: EITHER one Go test file named demo_test.go that is to be copied into one existing buildable package directory of the worktree (state which one in README.md, first line, exactly as `PACKAGE: gameboy/<dir>`; use an external test package name like `<dir>_test`), OR (only if you need the root gameboy package) a self-contained module in out/<n>/demo/ run with `go test -tags verif -count=1 ./...` (state `PACKAGE: module` in README.md's first line). The demonstration must FAIL with the change applied and PASS without it, and should show the violation through public/guest-visible behaviour as far as possible;
  - README.md : first line as above; then what the change does, which clause of the property it violates, exactly what is needed for it to manifest, and the exact commands you ran with their results WITH and WITHOUT the change (including the 44-test suite with the change).
Verify all of this yourself by actually running the commands. When you are done, make sure the worktree's tracked files are back to HEAD (`git -C {wt} checkout -- .`), so that the patches in out/ are the deliverable. Finish with a SHORT summary (under 120 words) of the two changes; all detail belongs in the READMEs.'''
    open(f'/tmp/prompt_{prefix}_{pid}.txt', 'w').write(txt)
    if not os.path.isdir(wt):
        subprocess.run(f'git -C /repo worktree add -q --detach {wt} HEAD', shell=True, check=True)
print('ok', len(props))
