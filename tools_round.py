#!/usr/bin/env python3
"""Round processing for independently produced changes.
  tools_round.py <round-prefix> <property> : confirm /tmp/wt/<prefix>cNN/out/{1,2}, import as seeded/<prefix>-cNN-{1,2}, run the property's quick check
"""
import json, os, re, shutil, subprocess, sys
HERE = os.path.dirname(os.path.abspath(__file__))
ENV = dict(os.environ, GOFLAGS="-mod=mod", GOPROXY="off", GOSUMDB="off", GOTOOLCHAIN="local")
PK = "./gameboy/cpu ./gameboy/memory ./gameboy/ppu ./gameboy/oam ./gameboy/timer ./gameboy/audio ./gameboy/interrupts ./gameboy/controller ./gameboy/serial"

def sh(cmd, cwd=None, timeout=1800):
    return subprocess.run(cmd, shell=True, capture_output=True, text=True, cwd=cwd, env=ENV, timeout=timeout)

def confirm(wt, n):
    out = f"{wt}/out/{n}"
    if not os.path.exists(f"{out}/patch.diff"):
        return False, "no patch.diff"
    readme = open(f"{out}/README.md").read() if os.path.exists(f"{out}/README.md") else ""
    m = re.search(r"PACKAGE:\s*(\S+)", readme)
    pkg = m.group(1) if m else None
    sh("git checkout -q -- .", cwd=wt)
    if sh(f"git apply --check {out}/patch.diff", cwd=wt).returncode != 0:
        return False, "patch does not apply"
    sh(f"git apply {out}/patch.diff", cwd=wt)
    b = sh(f"go build {PK} && go build -tags verif {PK} && go vet {PK}", cwd=wt).returncode
    s = sh("go test -vet=off -count=1 ./gameboy/cpu ./gameboy/timer", cwd=wt).returncode
    def run_demo():
        if pkg == "module" or (pkg is None and os.path.isdir(f"{out}/demo")):
            return sh("go test -tags verif -count=1 ./...", cwd=f"{out}/demo").returncode
        demo = [f for f in os.listdir(out) if f.endswith("_test.go")]
        if not demo or not pkg:
            return None
        d = f"{wt}/{pkg}"
        os.makedirs(d, exist_ok=True)
        for f in demo:
            shutil.copy(f"{out}/{f}", d)
        names = "|".join(re.findall(r"func (Test\w+)", "".join(open(f"{out}/{f}").read() for f in demo)))
        r = sh(f"go test -tags verif -vet=off -count=1 -run '^({names})$' ./{pkg}", cwd=wt).returncode
        for f in demo:
            os.remove(f"{d}/{f}")
        return r
    mut = run_demo()
    sh("git checkout -q -- .", cwd=wt)
    clean = run_demo()
    ok = b == 0 and s == 0 and mut not in (0, None) and clean == 0
    return ok, f"build/vet={b} suite44={s} demo_with_change={mut} demo_clean={clean} pkg={pkg}"

def main():
    prefix, prop = sys.argv[1], sys.argv[2]
    wt = f"/tmp/wt/{prefix}{prop.lower()}"
    for n in (1, 2):
        ok, info = confirm(wt, n)
        name = f"{prefix}-{prop.lower()}-{n}"
        print(f"{name}: {'CONFIRMED' if ok else 'NOT CONFIRMED'} {info}")
        if not ok:
            continue
        r = subprocess.run([f"{HERE}/tools_seeded.py", "import", prop, f"{wt}/out/{n}", name], capture_output=True, text=True)
        mp = f"{HERE}/seeded/{name}/meta.json"
        m = json.load(open(mp))
        m["confirmed"] = {"how": "tools_round.py in the producing agent's scratch worktree", "result": info}
        json.dump(m, open(mp, "w"), indent=1)
        if len(sys.argv) > 3 and sys.argv[3] == "norun":
            continue
        r = subprocess.run([f"{HERE}/tools_seeded.py", "run", name], capture_output=True, text=True, timeout=3600)
        print("  " + "\n  ".join(l[:230] for l in r.stdout.splitlines()[:3]))

if __name__ == "__main__":
    main()
