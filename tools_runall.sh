#!/bin/bash
# Runs every check's quick (or thorough) command on the current tree and validates MANIFEST and
# evidence files against the schemas. Usage: ./tools_runall.sh [quick|thorough] [ids...]
cd "$(dirname "$0")"
tier="${1:-quick}"; shift || true
ids="$@"
[ -z "$ids" ] && ids=$(python3 -c "import json; print(' '.join(c['property_id'] for c in json.load(open('MANIFEST.json'))['checks']))")
rc=0
for id in $ids; do
  out=$(./run.sh "$id" "$tier" 2>&1); r=$?
  echo "$out" | grep -E "VIOLATION|INCONCLUSIVE|KNOWN-FINDING|^$id tier" | cut -c1-220
  [ $r -ne 0 ] && rc=1
done
python3-vt - <<'PY' || rc=1
import json,jsonschema,glob
jsonschema.validate(json.load(open('MANIFEST.json')), json.load(open('/root/.vp/MANIFEST.schema.json')))
bad=0
for f in sorted(glob.glob('evidence/*.json')):
    try:
        jsonschema.validate(json.load(open(f)), json.load(open('/root/.vp/EVIDENCE.schema.json')))
    except Exception as e:
        print('INVALID', f, str(e)[:200]); bad=1
print('schemas ok' if not bad else 'schema problems')
raise SystemExit(bad)
PY
exit $rc
