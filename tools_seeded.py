#!/usr/bin/env python3
"""Seeded-change bookkeeping.

  tools_seeded.py import <property> <agent_out_dir> <name>   copy an agent's deliverable into seeded/<name>/
  tools_seeded.py run <name> [ids...]                        apply seeded/<name>/patch.diff to /repo, run the quick checks
                                                             (default: the property's own), undo, record the result
  tools_seeded.py table                                      print the catch table
"""
import json, os, subprocess, sys, shutil, glob

HERE = os.path.dirname(os.path.abspath(__file__))
SEEDED = os.path.join(HERE, "seeded")

def sh(cmd, **kw):
    return subprocess.run(cmd, shell=True, capture_output=True, text=True, **kw)

def clean_repo():
    sh("git -C /repo checkout -- .")
    # remove files a patch may have added
    out = sh("git -C /repo status --short --untracked-files=all").stdout
    for ln in out.splitlines():
        if ln.startswith("??"):
            p = os.path.join("/repo", ln[3:].strip())
            if os.path.isfile(p):
                os.remove(p)

def cmd_import(prop, src, name):
    d = os.path.join(SEEDED, name)
    os.makedirs(d, exist_ok=True)
    for f in os.listdir(src):
        sp, dp = os.path.join(src, f), os.path.join(d, f)
        if os.path.isdir(sp):
            if os.path.isdir(dp):
                shutil.rmtree(dp)
            shutil.copytree(sp, dp)
        else:
            shutil.copy(sp, dp)
    meta = {"property": prop, "name": name, "source": "independent sub-agent given only the property text and a scratch worktree",
            "needs": "", "confirmed": {}, "detection": {}}
    mp = os.path.join(d, "meta.json")
    if not os.path.exists(mp):
        json.dump(meta, open(mp, "w"), indent=1)
    print("imported", d)

def cmd_run(name, ids):
    d = os.path.join(SEEDED, name)
    meta = json.load(open(os.path.join(d, "meta.json")))
    if not ids:
        ids = [meta["property"]]
    patch = os.path.join(d, "patch.diff")
    st = sh("git -C /repo status --short").stdout
    dirty = [l for l in st.splitlines() if not l.endswith("rom_32Mb.gb") and not l.endswith("rom_64Mb.gb")]
    if dirty:
        print("refusing: /repo is not clean:", dirty); return 2
    r = sh(f"git -C /repo apply --check {patch}")
    if r.returncode != 0:
        print("patch does not apply:", r.stderr); return 2
    sh(f"git -C /repo apply {patch}")
    try:
        for pid in ids:
            r = sh(f"cd {HERE} && ./run.sh {pid} quick", timeout=3600)
            viol = [l for l in r.stdout.splitlines() if l.startswith("VIOLATION")]
            classes = [l.strip()[:300] for l in r.stdout.splitlines() if l.startswith("  class=")]
            inconc = [l[:200] for l in r.stdout.splitlines() if l.startswith("INCONCLUSIVE")]
            meta["detection"][pid] = {"exit": r.returncode, "violations": len(viol), "first": classes[:2], "inconclusive": inconc[:2]}
            verdict = "CAUGHT" if viol else ("inconclusive" if r.returncode == 2 else "missed")
            print(f"{name}: {pid} -> {verdict} (exit {r.returncode}, {len(viol)} violation lines)")
            for c in classes[:2]:
                print("   ", c[:220])
    finally:
        clean_repo()
    json.dump(meta, open(os.path.join(d, "meta.json"), "w"), indent=1)
    return 0

def cmd_table():
    rows = []
    for mp in sorted(glob.glob(os.path.join(SEEDED, "*", "meta.json"))):
        m = json.load(open(mp))
        det = m.get("detection", {})
        own = det.get(m["property"], {})
        others = [k for k, v in det.items() if k != m["property"] and v.get("violations")]
        rows.append((m["name"], m["property"], "caught" if own.get("violations") else ("-" if not own else "MISSED"), ",".join(others)))
    for r in rows:
        print("%-28s %-4s %-7s also: %s" % r)

if __name__ == "__main__":
    if len(sys.argv) < 2:
        print(__doc__); sys.exit(2)
    c = sys.argv[1]
    if c == "import":
        cmd_import(*sys.argv[2:5])
    elif c == "run":
        sys.exit(cmd_run(sys.argv[2], sys.argv[3:]))
    elif c == "table":
        cmd_table()
